"""cyx.load -- transliterate a .pyx/.pxi of /repo (read at call time) and exec it."""
import hashlib, os, re
from . import translate as T

REPO = os.environ.get('VERIF_REPO', '/repo')


def read_pyx(relpath):
    with open(os.path.join(REPO, relpath)) as f:
        src = f.read()
    # resolve includes
    def inc(m):
        p = os.path.join(os.path.dirname(os.path.join(REPO, relpath)), m.group(1))
        with open(p) as f:
            return f.read()
    src = re.sub(r'^include\s+"([^"]+)"\s*$', inc, src, flags=re.M)
    return src


def load_pyx(relpath, overrides=None, encoded=None, transform=None, structs=None, src=None, name=None, pre_ns=None):
    """-> namespace dict of the transliterated module.
    overrides: names rebound AFTER the module body ran (np facade, stubs, libc.math functions)"""
    if src is None:
        src = read_pyx(relpath)
    if transform is not None:
        src = transform(src)
    py = T.translate(src, structs=structs)
    ns = {'__name__': 'cyx_' + (name or os.path.basename(relpath).replace('.', '_')), '__package__': 'pyiga'}
    if pre_ns: ns.update(pre_ns)      # names that must exist while the module body runs (e.g. base classes of generated assemblers)
    code = compile(py, '<cyx:%s>' % relpath, 'exec')
    exec(code, ns)
    if overrides:
        ns.update(overrides)
    ns['__cyx_source__'] = py
    if encoded is not None:
        encoded.items.append({'file': relpath, 'name': '(whole file, transliterated)', 'lines': [1, src.count('\n') + 1],
                              'sha1': hashlib.sha1(src.encode()).hexdigest()[:12]})
    return ns
