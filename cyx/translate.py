"""cyx.translate -- Cython-subset -> Python transliterator.

Whitelist approach: the constructs used by pyiga's .pyx/.pxi files and by the assembler
generator are rewritten; a construct outside the whitelist raises CyxError (harness error,
never a silent pass).  C semantics kept:
  * integer-typed `x /= y`  -> `x //= y`   (cdivision on non-negative values)
  * `&a[i, j]`              -> pointer object `_ptr(a, (i, j))` into the C-order flat view
  * `&x` (scalar local)     -> x is boxed in a one-element list for the whole function
  * C arrays `T name[N]`    -> python lists of length N
  * structs                 -> small python classes (value semantics are not needed by the
                               encoded code: structs are only created and read)
Integers are mathematical; the harnesses bound every size so that no C type can wrap.
"""
import re


class CyxError(Exception):
    pass


INT_TYPES = {'int', 'long', 'unsigned', 'size_t', 'ssize_t', 'Py_ssize_t', 'np.int64_t', 'np.int32_t',
             'unsigned int', 'unsigned long', 'long long', 'bint', 'short', 'char', 'np.uint64_t', 'np.intp_t',
             'np.uintp_t', 'const int', 'const long', 'const size_t'}

PRELUDE = r'''
class _Ptr:
    """C pointer into the C-order flat view of an ndarray / a python list"""
    __slots__ = ('base', 'ofs')
    def __init__(self, base, ofs=0):
        self.base = base; self.ofs = ofs
    def __getitem__(self, k):
        return self.base[self.ofs + k]
    def __setitem__(self, k, v):
        self.base[self.ofs + k] = v
    def __add__(self, n): return _Ptr(self.base, self.ofs + n)
    def __iadd__(self, n): return _Ptr(self.base, self.ofs + n)
    def __sub__(self, n): return _Ptr(self.base, self.ofs - n)

def _ptr(a, idx=0):
    import numpy as _np
    if isinstance(a, _Ptr):
        return _Ptr(a.base, a.ofs + idx)
    if isinstance(a, list):
        return _Ptr(a, idx)
    a = _np.asarray(a) if not isinstance(a, _np.ndarray) else a
    if not a.flags['C_CONTIGUOUS']:
        # a strided memoryview: &a[i,j,0] is only used to walk the (contiguous) last axis
        if not isinstance(idx, tuple): idx = (idx,)
        sub = a[idx[:-1]]
        if sub.ndim != 1:
            raise ValueError('pointer into non-contiguous array')
        return _Ptr(sub, idx[-1])
    flat = a.reshape(-1)
    if not _np.shares_memory(flat, a) and a.size:
        raise ValueError('pointer into non-contiguous array')
    if not isinstance(idx, tuple): idx = (idx,)
    if len(idx) != a.ndim:
        raise ValueError('pointer index rank mismatch')
    ofs = 0
    for k, n in zip(idx, a.shape):
        ofs = ofs * n + k
    return _Ptr(flat, ofs)

def _base(x):
    return x

def _sint(x):
    import numpy as _np
    if isinstance(x, (_np.integer, _np.bool_)):
        return int(x)
    return x

def prange(*a, **kw):
    return range(*a)

class _CyObject:
    """base of transliterated cdef classes: allocates declared C-array attributes"""
    def __new__(cls, *a, **kw):
        self = object.__new__(cls)
        for k in reversed(cls.__mro__):
            for name, n in list(vars(k).items()):
                if name.startswith('_cy_arr_'):
                    object.__setattr__(self, name[8:], [0] * n)
        return self

class _CyStruct:
    _fields = ()
    def __init__(self):
        for f in self._fields: setattr(self, f, 0)
'''


def _strip_comment(line):
    """remove a trailing comment (quote aware)"""
    out = []
    q = None
    i = 0
    while i < len(line):
        c = line[i]
        if q:
            out.append(c)
            if c == '\\':
                if i + 1 < len(line):
                    out.append(line[i + 1]); i += 1
            elif c == q:
                q = None
        else:
            if c in '"\'':
                q = c; out.append(c)
            elif c == '#':
                break
            else:
                out.append(c)
        i += 1
    return ''.join(out).rstrip()


def _depth_delta(s):
    d = 0; q = None; i = 0
    while i < len(s):
        c = s[i]
        if q:
            if c == '\\': i += 1
            elif c == q: q = None
        else:
            if c in '"\'': q = c
            elif c in '([{': d += 1
            elif c in ')]}': d -= 1
        i += 1
    return d


def logical_lines(src):
    """yield (lineno, text) with continuation lines joined; docstring blocks are passed through
    verbatim as single multi-line items flagged with raw=True"""
    lines = src.split('\n')
    i = 0
    n = len(lines)
    while i < n:
        line = lines[i]
        stripped = line.strip()
        # triple-quoted block (docstring or string statement)
        m = re.match(r'^\s*[rRbBuU]?("""|\'\'\')', line)
        if m:
            q = m.group(1)
            rest = line[m.end():]
            j = i
            if q not in rest:
                j = i + 1
                while j < n and q not in lines[j]:
                    j += 1
            yield (i + 1, '\n'.join(lines[i:j + 1]), True)
            i = j + 1
            continue
        if not stripped or stripped.startswith('#'):
            yield (i + 1, '', False)
            i += 1
            continue
        cur = _strip_comment(line)
        start = i
        depth = _depth_delta(cur)
        while (depth > 0 or cur.endswith('\\')) and i + 1 < n:
            i += 1
            if cur.endswith('\\'):
                cur = cur[:-1]
            nxt = _strip_comment(lines[i]).strip()
            cur = cur + ' ' + nxt
            depth = _depth_delta(cur)
        yield (start + 1, cur, False)
        i += 1


def _split_top(s, sep=','):
    parts = []; d = 0; q = None; cur = []
    i = 0
    while i < len(s):
        c = s[i]
        if q:
            cur.append(c)
            if c == '\\' and i + 1 < len(s):
                cur.append(s[i + 1]); i += 1
            elif c == q: q = None
        else:
            if c in '"\'': q = c; cur.append(c)
            elif c in '([{': d += 1; cur.append(c)
            elif c in ')]}': d -= 1; cur.append(c)
            elif c == sep and d == 0:
                parts.append(''.join(cur)); cur = []
            else:
                cur.append(c)
        i += 1
    parts.append(''.join(cur))
    return parts


def _find_top_assign(s):
    """index of a top-level '=' that is an assignment (not ==, <=, >=, !=), else -1"""
    d = 0; q = None
    for i, c in enumerate(s):
        if q:
            if c == q: q = None
            continue
        if c in '"\'': q = c
        elif c in '([{': d += 1
        elif c in ')]}': d -= 1
        elif c == '=' and d == 0:
            if i + 1 < len(s) and s[i + 1] == '=': continue
            if i > 0 and s[i - 1] in '=<>!+-*/%&|^': continue
            return i
    return -1


_ARG_RE = re.compile(r'^(?P<type>.*?)(?P<star>\*{0,2})\s*(?P<name>[A-Za-z_]\w*)\s*(?P<arr>\[\s*\w*\s*\])?\s*$')


def _parse_arg(a):
    a = a.strip()
    if not a:
        return None
    if a.startswith('*'):
        return {'name': a, 'type': '', 'default': None, 'py': a}
    k = _find_top_assign(a)
    default = None
    if k >= 0:
        default = a[k + 1:].strip()
        a = a[:k].strip()
    m = _ARG_RE.match(a)
    if not m:
        raise CyxError('cannot parse argument %r' % a)
    typ = (m.group('type') + m.group('star')).strip()
    name = m.group('name')
    py = name + ('=' + default if default is not None else '')
    return {'name': name, 'type': typ, 'default': default, 'py': py}


def _is_int_type(t):
    t = t.strip()
    t = re.sub(r'^const\s+', '', t)
    return t in INT_TYPES


class Translator:
    def __init__(self, structs=None):
        self.structs = set(structs or [])
        self.warnings = []

    # -------------------------------------------------------------- expression rewrites
    SINT_CAST_RE = re.compile(r'<\s*(?:int|long|ssize_t|Py_ssize_t|short|long\s+long)\s*>\s*([A-Za-z_][\w\.]*(?:\[[^\[\]]*\])*)')
    CAST_RE = re.compile(r'<\s*(?:unsigned\s+|const\s+)*[A-Za-z_][\w\.]*(?:\s+[A-Za-z_]\w*)?\s*\**\s*(?:\[[^\]<>]*\])?\s*>(?=\s*[\w\(&\-])')

    def _rewrite_expr(self, s, boxed=()):
        # process outside string literals
        out = []
        for seg, is_str in self._segments(s):
            if is_str:
                out.append(seg); continue
            seg = self._rewrite_code(seg, boxed)
            out.append(seg)
        return ''.join(out)

    @staticmethod
    def _segments(s):
        segs = []; cur = []; q = None; i = 0
        while i < len(s):
            c = s[i]
            if q:
                cur.append(c)
                if c == '\\' and i + 1 < len(s):
                    cur.append(s[i + 1]); i += 1
                elif c == q:
                    segs.append((''.join(cur), True)); cur = []; q = None
            else:
                if c in '"\'':
                    if cur: segs.append((''.join(cur), False)); cur = []
                    q = c; cur.append(c)
                else:
                    cur.append(c)
            i += 1
        if cur: segs.append((''.join(cur), bool(q)))
        return segs

    def _rewrite_code(self, s, boxed):
        # casts
        def cast_sub(m):
            pre = s_local[:m.start()].rstrip()
            if pre and (pre[-1].isalnum() or pre[-1] in '_)]') and not re.search(r'(return|in|and|or|not|if|else)$', pre):
                return m.group(0)   # a comparison, not a cast
            return ''
        # casts to SIGNED integer types of a simple operand (name with attribute/subscript suffixes): keep the conversion, so that
        # values read from unsigned numpy buffers do not wrap around in later subtractions (C: <int>j - <int>i is signed arithmetic)
        s = self.SINT_CAST_RE.sub(lambda m: '_sint(%s)' % m.group(1), s)
        s_local = s
        s = self.CAST_RE.sub(cast_sub, s)
        # address-of
        s = self._rewrite_addr(s, boxed)
        # boxed scalars
        for b in boxed:
            s = re.sub(r'(?<![\w\.])%s\b(?!\s*\[__box__\])' % re.escape(b), b + '[0]', s)
        s = s.replace('[__box__]', '')
        s = re.sub(r'\bNULL\b', 'None', s)
        s = re.sub(r'((?:\b[A-Za-z_]\w*\.)*\b[A-Za-z_]\w*)\.base\b', r'_base(\1)', s)
        return s

    def _rewrite_addr(self, s, boxed):
        i = 0
        out = []
        while i < len(s):
            c = s[i]
            if c == '&':
                pre = ''.join(out).rstrip()
                binary = bool(pre) and (pre[-1].isalnum() or pre[-1] in '_)]')
                if binary or (i + 1 < len(s) and s[i + 1] in '&='):
                    out.append(c); i += 1; continue
                m = re.match(r'&\s*([A-Za-z_][\w\.]*)\s*', s[i:])
                if not m:
                    raise CyxError('unsupported address-of in %r' % s)
                name = m.group(1)
                j = i + m.end()
                if j < len(s) and s[j] == '[':
                    # balanced bracket
                    d = 0; k = j
                    while k < len(s):
                        if s[k] == '[': d += 1
                        elif s[k] == ']':
                            d -= 1
                            if d == 0: break
                        k += 1
                    inner = s[j + 1:k]
                    inner = self._rewrite_addr(inner, boxed)
                    out.append('_ptr(%s, (%s))' % (name, inner.strip() + (',' if ',' in inner else '')) if ',' in inner
                               else '_ptr(%s, %s)' % (name, inner.strip()))
                    i = k + 1
                else:
                    # pointer to a scalar local: the name is boxed
                    out.append('_ptr(%s[__box__], 0)' % name)
                    i = j
                continue
            out.append(c); i += 1
        return ''.join(out)

    # -------------------------------------------------------------- declarations
    def _decl(self, body, indent, in_class, boxed, int_names):
        """translate the text after 'cdef ' of a variable declaration; returns list of python lines"""
        body = re.sub(r'^(readonly|public)\s+', '', body.strip())
        parts = _split_top(body)
        first = parts[0]
        k = _find_top_assign(first)
        init = first[k + 1:].strip() if k >= 0 else None
        head = first[:k].strip() if k >= 0 else first.strip()
        m = re.match(r'^(?P<type>.*?)(?P<star>\*{0,2})\s*(?P<name>[A-Za-z_]\w*)\s*(?P<arr>\[\s*\w*\s*\])?$', head)
        if not m or not m.group('type').strip():
            raise CyxError('cannot parse declaration %r' % body)
        typ = m.group('type').strip()
        tm = re.match(r'^(.*?)\[\s*(\d+)\s*\]$', typ)
        type_arr = int(tm.group(2)) if tm else None
        base_type = tm.group(1).strip() if tm else typ
        is_int = _is_int_type(base_type) and not m.group('star') and '[' not in base_type and '*' not in base_type
        decls = [(m.group('name'), m.group('arr'), init)]
        for p in parts[1:]:
            p = p.strip()
            k = _find_top_assign(p)
            pi = p[k + 1:].strip() if k >= 0 else None
            ph = p[:k].strip() if k >= 0 else p
            mm = re.match(r'^\*{0,2}\s*([A-Za-z_]\w*)\s*(\[\s*\w*\s*\])?$', ph)
            if not mm:
                raise CyxError('cannot parse declarator %r in %r' % (p, body))
            decls.append((mm.group(1), mm.group(2), pi))
        lines = []
        for name, arr, ini in decls:
            n = type_arr
            if arr:
                am = re.match(r'\[\s*(\d+)\s*\]', arr)
                if am: n = int(am.group(1))
            if is_int and n is None:
                int_names.add(name)
            if in_class:
                if n is not None:
                    lines.append('%s_cy_arr_%s = %d' % (indent, name, n))
                continue
            if ini is not None:
                val = self._rewrite_expr(ini, boxed)
                if name in boxed:
                    lines.append('%s%s = [%s]' % (indent, name, val))
                else:
                    lines.append('%s%s = %s' % (indent, name, val))
            elif n is not None:
                if base_type in self.structs:
                    lines.append('%s%s = [%s() for _ in range(%d)]' % (indent, name, base_type, n))
                else:
                    lines.append('%s%s = [0] * %d' % (indent, name, n))
            elif base_type in self.structs:
                lines.append('%s%s = %s()' % (indent, name, base_type))
            elif name in boxed:
                lines.append('%s%s = [0]' % (indent, name))
        if not lines:
            lines.append(indent + 'pass')
        return lines

    # -------------------------------------------------------------- main
    def translate(self, src):
        items = list(logical_lines(src))
        # pre-scan struct names
        for _, text, raw in items:
            m = re.match(r'^\s*cdef\s+struct\s+(\w+)\s*:', text)
            if m: self.structs.add(m.group(1))
        out = []
        n = len(items)
        class_stack = []     # (indent_of_class_stmt, kind)
        func_stack = []      # (indent_of_def, boxed set, int_names set)
        idx = 0
        while idx < n:
            lineno, text, raw = items[idx]
            idx += 1
            if raw or not text.strip():
                out.append(text if raw else '')
                continue
            ind = len(text) - len(text.lstrip())
            indent = text[:ind]
            body = text.strip()
            while class_stack and ind <= class_stack[-1][0]:
                class_stack.pop()
            while func_stack and ind <= func_stack[-1][0]:
                func_stack.pop()
            in_class_body = bool(class_stack) and (not func_stack or func_stack[-1][0] < class_stack[-1][0])
            boxed = func_stack[-1][1] if func_stack else ()
            int_names = func_stack[-1][2] if func_stack else set()

            # ---- dropped lines
            if re.match(r'^(cimport\b|from\s+[\w\.]+\s+cimport\b)', body):
                out.append(indent + 'pass' if ind else '')
                continue
            if re.match(r'^@cython\.', body):
                out.append('')
                continue
            if re.match(r'^include\s+', body):
                raise CyxError('include must be resolved by the caller (line %d)' % lineno)
            if re.match(r'^(cdef\s+extern|ctypedef|cdef\s+enum)\b', body):
                raise CyxError('unsupported construct at line %d: %s' % (lineno, body))
            # ---- struct
            m = re.match(r'^cdef\s+struct\s+(\w+)\s*:$', body)
            if m:
                fields = []
                while idx < n:
                    l2, t2, r2 = items[idx]
                    if not t2.strip():
                        idx += 1; continue
                    i2 = len(t2) - len(t2.lstrip())
                    if i2 <= ind: break
                    fm = re.match(r'^.*?(\w+)$', t2.strip())
                    fields.append(fm.group(1)); idx += 1
                out.append('%sclass %s(_CyStruct):' % (indent, m.group(1)))
                out.append('%s    _fields = %r' % (indent, tuple(fields)))
                continue
            # ---- class
            m = re.match(r'^cdef\s+class\s+(\w+)\s*(\((.*)\))?\s*:$', body)
            if m:
                bases = (m.group(3) or '').strip() or '_CyObject'
                out.append('%sclass %s(%s):' % (indent, m.group(1), bases))
                class_stack.append((ind, m.group(1)))
                continue
            if re.match(r'^class\s+\w+', body):
                class_stack.append((ind, 'py'))
                out.append(text)
                continue
            # ---- function definitions
            fm = None
            if body.endswith(':') and re.match(r'^(cdef|cpdef|def)\b', body) and '(' in body:
                fm = self._match_func(body)
            if fm:
                name, args = fm
                parsed = [a for a in (_parse_arg(a) for a in _split_top(args)) if a]
                fints = {a['name'] for a in parsed if _is_int_type(a['type'])}
                # scan body for boxed names (&name without subscript)
                fbox = set()
                j = idx
                while j < n:
                    l2, t2, r2 = items[j]
                    if t2.strip() and not r2:
                        i2 = len(t2) - len(t2.lstrip())
                        if i2 <= ind: break
                        for bm in re.finditer(r'(?<![\w\)\]])\s*&\s*([A-Za-z_]\w*)\b(?!\s*[\[\.\w])', _strip_strings(t2)):
                            pre = _strip_strings(t2)[:bm.start()].rstrip()
                            if pre and (pre[-1].isalnum() or pre[-1] in '_)]'):
                                continue
                            fbox.add(bm.group(1))
                    j += 1
                out.append('%sdef %s(%s):' % (indent, name, ', '.join(a['py'] for a in parsed)))
                func_stack.append((ind, fbox, fints))
                # arguments that are boxed: rebox at entry (not needed in pyiga)
                continue
            # ---- declarations
            if re.match(r'^cdef\s+', body):
                lines = self._decl(body[5:], indent, in_class_body, boxed, int_names)
                out.extend(lines)
                continue
            if re.match(r'^with\s+(nogil|gil)\s*:$', body):
                out.append(indent + 'if True:')
                continue
            # ---- ordinary statement
            # integer division assignment
            dm = re.match(r'^([A-Za-z_]\w*)\s*/=\s*(.*)$', body)
            if dm and dm.group(1) in int_names:
                body = '%s //= %s' % (dm.group(1), dm.group(2))
            out.append(indent + self._rewrite_expr(body, boxed))
        return '\n'.join(out)

    @staticmethod
    def _match_func(body):
        """-> (name, argstring) if body is a (c)def function header"""
        kw = re.match(r'^(cdef|cpdef|def)\s+', body)
        rest = body[kw.end():]
        # strip trailing modifiers
        head = rest.rstrip()
        assert head.endswith(':')
        head = head[:-1].rstrip()
        head = re.sub(r'\s+(noexcept|nogil|except\s*[\w\-\+\*\?]+)\s*$', '', head)
        head = re.sub(r'\s+(noexcept|nogil|except\s*[\w\-\+\*\?]+)\s*$', '', head)
        head = head.rstrip()
        if not head.endswith(')'):
            return None
        # find matching '(' of the final ')'
        d = 0
        k = len(head) - 1
        while k >= 0:
            if head[k] == ')': d += 1
            elif head[k] == '(':
                d -= 1
                if d == 0: break
            k -= 1
        pre = head[:k].rstrip()
        nm = re.search(r'([A-Za-z_]\w*)$', pre)
        if not nm:
            return None
        if kw.group(1) == 'def' and pre != nm.group(1):
            return None
        return nm.group(1), head[k + 1:-1]


def _strip_strings(s):
    return ''.join(seg if not is_str else '""' for seg, is_str in Translator._segments(s))


def translate(src, structs=None):
    t = Translator(structs)
    return PRELUDE + '\n' + t.translate(src)


def translate_body(src, structs=None):
    """translation without the prelude (for including several files into one namespace)"""
    return Translator(structs).translate(src)
