#!/bin/sh
# Offline, idempotent: overlay venv /verif/.venv on top of /venv (python 3.12 with numpy/scipy/Cython
# and the editable pyiga in /repo) plus z3-solver, crosshair-tool, cvc5 from the local wheelhouse.
set -e
cd "$(dirname "$0")"
V=.venv
if [ -x $V/bin/python ] && $V/bin/python -c "import z3, numpy, scipy, crosshair" 2>/dev/null; then
    exit 0
fi
rm -rf $V
/venv/bin/python -m venv $V
SP=$($V/bin/python -c "import sysconfig; print(sysconfig.get_paths()['purelib'])")
printf '%s\n%s\n' "/venv/lib/python3.12/site-packages" "/repo" > "$SP/verif_overlay.pth"
PIP_NO_INDEX=1 $V/bin/pip install -q --no-index --find-links /opt/veriftools/wheels z3-solver crosshair-tool cvc5 >/dev/null
$V/bin/python -c "import z3, numpy, scipy, crosshair, cvc5; print('verif venv ok: z3', z3.get_version_string())"
