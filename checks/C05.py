"""C05 -- transfers between nested spline spaces preserve the function.

(A) bspline.knot_insertion (source exec'd, KnotVector from source, transliterated findspan): FULLY SYMBOLIC knot vector, inserted knot u and evaluation
    point x; z3 proves  N_j^old(x) = sum_i P[i,j] N_i^new(x)  for all real x, with the Cox-de Boor oracle on both knot vectors.
(B) hybrid (as C03: hierarchical spaces enumerated -- not a solver verdict --, coefficient vectors symbolic): the REAL HSpace.prolongate_to,
    HSpace.boundary, thb_to_hb/hb_to_thb, represent_fine run on concrete spaces; for a symbolic coefficient vector c z3 decides that the function is
    preserved, expressed in the tensor-product basis of the finest level:   I_fine (P c) = Prol (I_coarse c),   trace(I c) = I_bd c[idx],
    I_thb c = I_hb (T c),  T^-1 T c = c.   Every entry is a linear form in c.
"""
import itertools, json, sys, time
from fractions import Fraction as F
import numpy as np
import z3

from checks.common import Run, main_wrapper, jsonable
from checks import realbuild
from checks.bsp_oracle import Oracle, symbolic_knots
from symx import core as sx
from symx.core import Sym, lift
from symx.symnp import SymNP
from symx.symsparse import sparse_facade
from symx import srcload
from cyx.load import load_pyx

PID = 'C05'


class _NS:
    def __init__(self, **kw): self.__dict__.update(kw)


def load_insertion(enc=None, transform=None):
    cy = load_pyx('pyiga/bspline_cy.pyx', encoded=enc); cy['np'] = SymNP()
    ns = {'np': SymNP(), 'pyx_findspan': cy['pyx_findspan'], 'scipy': _NS(sparse=sparse_facade())}
    srcload.load_defs('pyiga/bspline.py', ['KnotVector', 'knot_insertion'], ns, encoded=enc, transform=transform)
    return ns


class PieceOracle:
    """Cox-de Boor recursion on the polynomial piece of span index s (x in [kv[s], kv[s+1]], kv[s] < kv[s+1]): the degree-0 indicators are
    decided by the index, the 0/0 := 0 convention stays symbolic (knots may coincide).  Own code, independent of pyiga."""
    def __init__(self, kv, p, x, s): self.kv = kv; self.p = p; self.x = x; self.s = s; self.memo = {}
    def N(self, i, q=None):
        q = self.p if q is None else q
        if (i, q) in self.memo: return self.memo[(i, q)]
        kv, x = self.kv, self.x
        if q == 0: r = z3.RealVal(1 if i == self.s else 0)
        else:
            d1 = kv[i + q] - kv[i]; d2 = kv[i + q + 1] - kv[i + 1]
            a = self.N(i, q - 1); b = self.N(i + 1, q - 1)
            zero = lambda t: z3.is_rational_value(t) and t.numerator_as_long() == 0
            # the 0/0 := 0 convention is decided by FORKING the path on "denominator = 0" (coincident knots), so that every division
            # that remains in the terms has a divisor that is non-zero on the current path (needed for sound division clearing)
            c = sx.ctx()
            t1 = z3.RealVal(0)
            if not zero(a) and not c.branch(d1 == 0): t1 = (x - kv[i]) / d1 * a
            t2 = z3.RealVal(0)
            if not zero(b) and not c.branch(d2 == 0): t2 = (kv[i + q + 1] - x) / d2 * b
            r = z3.simplify(t1 + t2)
        self.memo[(i, q)] = r
        return r


def insertion_harness(ns, p, nint):
    kvz, pre = symbolic_knots(p, nint)
    u = z3.Real('u'); x = z3.Real('x')
    n = len(kvz) - p - 1

    def run(c):
        for q in pre: c.assume(q)
        c.assume(z3.And(u > kvz[0], u < kvz[-1], x >= kvz[0], x <= kvz[-1]))
        arr = np.empty(len(kvz), dtype=object)
        for i, t in enumerate(kvz): arr[i] = Sym(t)
        kv = ns['KnotVector'](arr, p)
        k = kv.findspan(Sym(u))
        k = int(k)
        new = list(kvz[:k + 1]) + [u] + list(kvz[k + 1:])
        # documented domain: the refined vector is again an admissible knot vector (interior multiplicity <= p)
        for i in range(1, len(new) - p - 1):
            c.assume(new[i] < new[i + p])
        P = ns['knot_insertion'](kv, Sym(u)).toarray()
        c.check(z3.BoolVal(P.shape == (n + 1, n)), 'knot_insertion: shape (n+1) x n')
        # one polynomial piece per non-empty span of the refined vector (closed interval: the pieces are polynomials, so the
        # right-continuous / left-continuous-at-the-end conventions are covered by continuity of each piece)
        for sp in range(p, len(new) - p - 1):
            osp = sp if sp <= k else sp - 1                # span index of the same piece in the old vector
            neu = PieceOracle(new, p, x, sp); old = PieceOracle(kvz, p, x, osp)
            hyp = z3.And(new[sp] < new[sp + 1], x >= new[sp], x <= new[sp + 1])
            for j in range(n):
                rhs = z3.RealVal(0)
                for i in range(n + 1):
                    e = P[i, j]
                    if isinstance(e, Sym) or e != 0:
                        rhs = rhs + sx._toreal(lift(e)) * neu.N(i)
                c.check(z3.Implies(hyp, old.N(j) == rhs), 'knot_insertion: every old basis function = combination of the new ones with the columns of P, for all real x')
        c.check(z3.And(*[z3.Sum([sx._toreal(lift(P[i, j])) for j in range(n)]) == 1 for i in range(n + 1)]), 'knot_insertion: rows sum to one (constants are preserved)')
        c.witness('insertion')
    return run, kvz, u


REPLAY_INS = r'''
import sys, json, numpy as np
from fractions import Fraction as F
w = json.load(sys.stdin)
from pyiga import bspline
kvq = [F(t) for t in w['kv']]; p = w['p']; u = F(w['u'])
kv = bspline.KnotVector(np.array([float(t) for t in kvq]), p)
bad = []
try:
    P = bspline.knot_insertion(kv, float(u)).toarray()
    new = sorted(kvq + [u])
    kv2 = bspline.KnotVector(np.array([float(t) for t in new]), p)
    xs = np.linspace(float(kvq[0]), float(kvq[-1]), 41)
    A = bspline.collocation(kv, xs).toarray(); B = bspline.collocation(kv2, xs).toarray()
    if P.shape != (kv.numdofs + 1, kv.numdofs) or not np.allclose(A, B @ P, atol=1e-10): bad.append('old basis != new basis @ P (max dev %.3g)' % (np.abs(A - B @ P).max() if P.shape == (kv.numdofs + 1, kv.numdofs) else -1))
except Exception as e:
    bad.append('exception %s: %s' % (type(e).__name__, e))
print(json.dumps({'reproduced': bool(bad), 'bad': bad}))
'''


# ------------------------------------------------------------------------------------------------ (B) hybrid transfers
_HIER = None          # canaries: a module object built from the transformed text of pyiga/hierarchical.py


def build(spec, upto=None):
    from pyiga import bspline, hierarchical
    if _HIER is not None: hierarchical = _HIER
    if spec.get('breaks'):
        # explicit (graded) dyadic breakpoints per direction
        kvs = tuple(bspline.KnotVector(np.array([b[0]] * spec['p'] + list(b) + [b[-1]] * spec['p'], dtype=float), spec['p']) for b in spec['breaks'])
    else:
        kvs = tuple(bspline.make_knots(spec['p'], 0.0, 1.0 + 0.5 * d, spec['n'][d]) for d in range(len(spec['n'])))
    disp = np.inf if spec['disparity'] in (None, 'inf') else spec['disparity']
    hs = hierarchical.HSpace(kvs, truncate=spec['truncate'], disparity=disp, bdspecs=[])
    for step in spec['history'][:upto]:
        hs.refine({int(l): set(tuple(c) for c in cells) for l, cells in step.items()})
    return hs


def boehm_matrix(kc, kf, p):
    """exact (Fraction) knot-insertion matrix from the open knot vector kc to its refinement kf, one knot at a time (Boehm).
    Own code, independent of pyiga; validated against the Cox-de Boor oracle in oracle_selftest()."""
    from collections import Counter
    kc = [F(t) for t in kc]; kf = [F(t) for t in kf]
    if Counter(kc) - Counter(kf): raise ValueError('knot vectors are not nested')
    need = sorted((Counter(kf) - Counter(kc)).elements())
    cur = list(kc); n0 = len(cur) - p - 1
    M = [[F(int(i == j)) for j in range(n0)] for i in range(n0)]
    for u in need:
        k = max(i for i in range(len(cur) - 1) if cur[i] <= u < cur[i + 1])
        n = len(cur) - p - 1
        new = [[F(0)] * n0 for _ in range(n + 1)]
        for i in range(n + 1):
            if i <= k - p: a = F(1)
            elif i >= k + 1: a = F(0)
            else: a = (u - cur[i]) / (cur[i + p] - cur[i])
            for j in range(n0):
                v = F(0)
                if i < n and a: v += a * M[i][j]
                if i >= 1 and a != 1: v += (1 - a) * M[i - 1][j]
                new[i][j] = v
        M = new; cur.insert(k + 1, u)
    out = np.empty((len(M), n0), dtype=object)
    for i, row in enumerate(M):
        for j, v in enumerate(row): out[i, j] = v if v else 0
    return out


def _cdb(kv, p, i, x):
    """Cox-de Boor value of B-spline i of degree p at x (Fractions; right-continuous, last knot closed)"""
    if p == 0:
        if kv[i] <= x < kv[i + 1]: return F(1)
        if x == kv[-1] and kv[i] < kv[i + 1] == kv[-1]: return F(1)
        return F(0)
    r = F(0)
    if kv[i + p] > kv[i]: r += (x - kv[i]) / (kv[i + p] - kv[i]) * _cdb(kv, p - 1, i, x)
    if kv[i + p + 1] > kv[i + 1]: r += (kv[i + p + 1] - x) / (kv[i + p + 1] - kv[i + 1]) * _cdb(kv, p - 1, i + 1, x)
    return r


def oracle_selftest(kc, kf, p, M):
    """N^c_j(x) = sum_i M[i,j] N^f_i(x) at rational points of every fine span: validates boehm_matrix against the definition"""
    kc = [F(t) for t in kc]; kf = [F(t) for t in kf]
    br = sorted(set(kf)); pts = [a + (b - a) * F(k, 3) for a, b in zip(br, br[1:]) for k in (0, 1, 2)] + [br[-1]]
    nc = len(kc) - p - 1; nf = len(kf) - p - 1
    for x in pts:
        fv = [_cdb(kf, p, i, x) for i in range(nf)]
        for j in range(nc):
            if sum((M[i, j] * fv[i] for i in range(nf) if M[i, j]), F(0)) != _cdb(kc, p, j, x):
                raise AssertionError('knot-insertion oracle disagrees with Cox-de Boor (own code inconsistent)')


def okron(mats):
    """Kronecker product of object matrices, first factor slowest (the raveling order of tensor-product coefficients)"""
    from checks.C03 import is_zero
    M = mats[0]
    for B in mats[1:]:
        out = np.empty((M.shape[0] * B.shape[0], M.shape[1] * B.shape[1]), dtype=object); out[...] = 0
        for i in range(M.shape[0]):
            for j in range(M.shape[1]):
                if is_zero(M[i, j]): continue
                for k in range(B.shape[0]):
                    for l in range(B.shape[1]):
                        if not is_zero(B[k, l]): out[i * B.shape[0] + k, j * B.shape[1] + l] = M[i, j] * B[k, l]
        M = out
    return M


def oracle_level_prolong(hs, k):
    """tensor-product prolongation level k -> k+1 from the knot vectors alone (exact knot insertion per direction)"""
    _TPO = hs.__dict__.setdefault('_verif_tpo', {})
    key = k
    if key not in _TPO:
        mats = []
        for kc, kf in zip(hs.knotvectors(k), hs.knotvectors(k + 1)):
            M = boehm_matrix(list(kc.kv), list(kf.kv), kc.p)
            oracle_selftest(list(kc.kv), list(kf.kv), kc.p, M)
            mats.append(M)
        _TPO[key] = (mats, okron(mats))
    return _TPO[key]


def tp_prolong(hs_fine, lo, hi):
    """tensor-product prolongation between levels lo -> hi of the space's knot-vector hierarchy: exact knot insertion (own oracle), NOT the
    library's HMesh.P (that one is an object of the check: see the obligation 'HMesh.P')"""
    from checks.C03 import spdot
    M = None
    for k in range(lo, hi):
        Pk = oracle_level_prolong(hs_fine, k)[1]
        M = Pk if M is None else spdot(Pk, M)
    return M


def span_equal(X, Y, tol=F(1, 10 ** 9)):
    """column spans of X and Y (same number of columns; Y exact and of full column rank by construction, X from real float matrices) are
    equal up to rounding: every column x of X has a combination d with |Y d - x|_inf <= tol (existential LRA query per column) and
    no c with |c|_inf = 1 has |X c|_inf <= 1e3 tol (the columns are independent).
    -> ('unsat' = spans equal | 'sat' = not equal | 'unknown', solver seconds, witness)"""
    from checks.C03 import is_zero
    t0 = time.time()
    if X.shape != Y.shape: return 'sat', 0.0, ['shape %s vs %s' % (X.shape, Y.shape)]
    m, n = X.shape
    toz = lambda v: z3.RealVal(str(F(v)))
    tz = z3.RealVal(str(tol))
    ds = [z3.Real('d%d' % j) for j in range(n)]
    rowsY = [z3.Sum([toz(Y[i, j]) * ds[j] for j in range(n) if not is_zero(Y[i, j])] + [z3.RealVal(0)]) for i in range(m)]
    for col in range(n):
        s_ = z3.Solver(); s_.set('timeout', 60000)
        for i in range(m):
            x = toz(X[i, col]) if not is_zero(X[i, col]) else z3.RealVal(0)
            s_.add(rowsY[i] - x <= tz, x - rowsY[i] <= tz)
        r = str(s_.check())
        if r == 'unsat': return 'sat', time.time() - t0, ['column %d of the composed prolongator is not in the level space' % col]
        if r != 'sat': return 'unknown', time.time() - t0, []
    s_ = z3.Solver(); s_.set('timeout', 60000)
    for i in range(m):
        e = z3.Sum([toz(X[i, j]) * ds[j] for j in range(n) if not is_zero(X[i, j])] + [z3.RealVal(0)])
        s_.add(e <= 1000 * tz, -e <= 1000 * tz)
    for d in ds: s_.add(d <= 1, d >= -1)
    s_.add(z3.Or(*[z3.Or(d == 1, d == -1) for d in ds]))
    r = str(s_.check())
    if r == 'sat': return 'sat', time.time() - t0, ['the composed columns are linearly dependent']
    if r != 'unsat': return 'unknown', time.time() - t0, []
    return 'unsat', time.time() - t0, []


def level_index_sets(hs):
    """per level: raveled indices (sorted) of the active and of the deactivated functions, from the raw sets of multi-indices"""
    A, D = [], []
    for k in range(hs.numlevels):
        shape = tuple(kv.numdofs for kv in hs.knotvectors(k))
        A.append(sorted(int(np.ravel_multi_index(tuple(f), shape)) for f in hs.actfun[k]))
        D.append(sorted(int(np.ravel_multi_index(tuple(f), shape)) for f in hs.deactfun[k]))
    return A, D


def oracle_represent(hs, lv, truncate):
    """columns: the (T)HB basis functions of the virtual space of level lv (active functions of levels <= lv, on level lv also the
    deactivated ones) in tensor-product coefficients of level lv.  HB: plain prolongation of the unit vector.  THB (textbook definition,
    Giannelli/Juettler/Speleers): after every prolongation step to level m the coefficients of all level-m functions whose support lies
    in the level-m refinement region (active or deactivated ones) are set to zero."""
    from checks.C03 import spdot
    A, D = level_index_sets(hs)
    cols = []
    for k in range(lv + 1):
        idx = A[k] + (D[k] if k == lv else [])
        nk = int(np.prod([kv.numdofs for kv in hs.knotvectors(k)]))
        E = np.empty((nk, len(idx)), dtype=object); E[...] = 0
        for c, i in enumerate(idx): E[i, c] = 1
        for m in range(k + 1, lv + 1):
            E = spdot(oracle_level_prolong(hs, m - 1)[1], E)
            if truncate:
                for i in A[m] + D[m]: E[i, :] = 0
        cols.append(E)
    return np.concatenate(cols, axis=1) if cols else None


def transfer_space(spec):
    """worker: all transfer obligations on one history"""
    from checks import C03
    from checks.C03 import clean_array, spdot, decide
    try:
        C03.real_pyiga()
        t0 = time.time(); res = {}; bad = {}; solver_s = 0.0
        def put(nm, got, ref, syms):
            nonlocal solver_s
            r, dt, b = decide(got, ref, syms); res[nm] = r; solver_s += dt
            if b: bad[nm] = b
        fine = build(spec)
        nf = fine.numdofs
        Lf = fine.numlevels
        If = clean_array(fine.represent_fine().toarray())
        info = {'numdofs': int(nf), 'levels': int(Lf), 'active per level': [len(a) for a in fine.actfun]}
        # --- prolongate_to from every prefix of the history
        for upto in range(len(spec['history'])):
            coarse = build(spec, upto)
            nc = coarse.numdofs
            cs = [z3.Real('c%d' % i) for i in range(nc)]
            cvec = np.array([Sym(t) for t in cs] + [None], dtype=object)[:-1]
            nm = 'prolongate_to(prefix %d -> full history)' % upto
            try:
                # prolongate_to acts on HB coefficients (also for spaces that use the truncated basis)
                P = clean_array(coarse.prolongate_to(fine).toarray())
                Ic = clean_array(coarse.represent_fine(truncate=False).toarray())
                lhs = spdot(clean_array(fine.represent_fine(truncate=False).toarray()), spdot(P, cvec))
                Lc = coarse.numlevels
                # the finest levels may coincide (numlevels counts an empty top level); use the mesh hierarchy of the fine space
                M = tp_prolong(fine, Lc - 1, Lf - 1) if Lf > Lc else None
                rhs = spdot(Ic, cvec) if M is None else spdot(M, spdot(Ic, cvec))
                put(nm, lhs, rhs, cs)
            except Exception as e:
                res[nm] = 'sat'; bad[nm] = ['exception %s: %s' % (type(e).__name__, str(e)[:100])]
        # --- the mesh hierarchy's prolongators against exact knot insertion
        for k in range(Lf - 1):
            mats, _ = oracle_level_prolong(fine, k)
            for d, Mo in enumerate(mats):
                nm = 'HMesh.P[%d][%d] = exact knot insertion between the level knot vectors' % (k, d)
                try:
                    Pr = clean_array(fine.hmesh.P[k][d].toarray())
                    cs = [z3.Real('c%d' % i) for i in range(Mo.shape[1])]
                    cvec = np.array([Sym(t) for t in cs] + [None], dtype=object)[:-1]
                    put(nm, spdot(Pr, cvec) if Pr.shape == Mo.shape else np.zeros(0), spdot(Mo, cvec), cs)
                except Exception as e:
                    res[nm] = 'sat'; bad[nm] = ['exception %s: %s' % (type(e).__name__, str(e)[:100])]
        # --- represent_fine on every virtual level, HB and THB: columns = the basis functions of that level's space
        Aix, Dix = level_index_sets(fine)
        for lv in range(Lf):
            ncol = sum(len(a) for a in Aix[:lv + 1]) + len(Dix[lv])
            cs = [z3.Real('c%d' % i) for i in range(ncol)]
            cvec = np.array([Sym(t) for t in cs] + [None], dtype=object)[:-1]
            for tr in (False, True):
                nm = 'represent_fine(lv=%d, truncate=%s): column j = basis function j of the virtual level in level-%d coefficients' % (lv, tr, lv)
                try:
                    R = clean_array(fine.represent_fine(lv=lv, truncate=tr).toarray())
                    O = oracle_represent(fine, lv, tr)
                    put(nm, spdot(R, cvec) if R.shape == O.shape else np.zeros(0), spdot(O, cvec), cs)
                except Exception as e:
                    res[nm] = 'sat'; bad[nm] = ['exception %s: %s' % (type(e).__name__, str(e)[:100])]
        # --- virtual hierarchy prolongators (as the property states it): (a) the composition of all of them maps level-0 tensor-product
        #     coefficients to (T)HB coefficients of the identical function; (b) composed from level lv on, the columns span exactly the
        #     spline space of virtual level lv (each column lies in it: existential query per column; and the columns are independent)
        for tr in (False, True):
            try:
                VP = [clean_array(P.toarray()) for P in fine.virtual_hierarchy_prolongators(truncate=tr)]
                Ofull = oracle_represent(fine, Lf - 1, tr)
                comp = None
                for lv in reversed(range(Lf - 1)):
                    comp = VP[lv] if comp is None else spdot(comp, VP[lv])
                    X = spdot(Ofull, comp)                                  # functions (finest tensor-product coefficients) of the composed columns
                    Y = spdot(tp_prolong(fine, lv, Lf - 1), oracle_represent(fine, lv, False))    # the virtual level-lv space, prolonged
                    if lv == 0:
                        nm = 'virtual_hierarchy_prolongators(truncate=%s): composition of all maps level-0 coefficients to the identical function' % tr
                        cs = [z3.Real('c%d' % i) for i in range(X.shape[1])]
                        cvec = np.array([Sym(t) for t in cs] + [None], dtype=object)[:-1]
                        put(nm, spdot(X, cvec), spdot(tp_prolong(fine, 0, Lf - 1), spdot(oracle_represent(fine, 0, tr), cvec)), cs)
                    nm = 'virtual_hierarchy_prolongators(truncate=%s): composed from level %d, the columns span exactly that level\'s space' % (tr, lv)
                    r, dt, b = span_equal(X, Y); res[nm] = r; solver_s += dt
                    if b: bad[nm] = b
            except Exception as e:
                nm = 'virtual_hierarchy_prolongators(truncate=%s)' % tr
                res[nm] = 'sat'; bad[nm] = ['exception %s: %s' % (type(e).__name__, str(e)[:100])]
        # --- evaluation routes of hierarchical spline functions
        evaluation_routes(fine, put, res, bad)
        # --- THB <-> HB
        cs = [z3.Real('c%d' % i) for i in range(nf)]
        cvec = np.array([Sym(t) for t in cs] + [None], dtype=object)[:-1]
        try:
            T = clean_array(fine.thb_to_hb().toarray()); Ti = clean_array(fine.hb_to_thb().toarray())
            Ih = clean_array(fine.represent_fine(truncate=False).toarray()); It = clean_array(fine.represent_fine(truncate=True).toarray())
            put('THB function with coefficients c = HB function with coefficients thb_to_hb c', spdot(It, cvec), spdot(Ih, spdot(T, cvec)), cs)
            put('hb_to_thb inverts thb_to_hb', spdot(Ti, spdot(T, cvec)), cvec, cs)
        except Exception as e:
            res['thb/hb'] = 'sat'; bad['thb/hb'] = ['exception %s: %s' % (type(e).__name__, str(e)[:100])]
        # --- boundary restriction (dim >= 2)
        dim = len(spec['n'])
        if dim >= 2:
            shape = tuple(kv.numdofs for kv in fine.knotvectors(Lf - 1))
            for ax in range(dim):
                for side in (0, 1):
                    nm = 'boundary(%s): trace of the function = function of the boundary space with the mapped coefficients' % ((ax, side),)
                    try:
                        bd, idx = fine.boundary((ax, side))
                        Ib = clean_array(bd.represent_fine().toarray())
                        # trace in the finest tensor-product basis: the coefficient slice at the face (end-point interpolation)
                        full = spdot(If, cvec).reshape(shape)
                        sl = [slice(None)] * dim; sl[ax] = 0 if side == 0 else -1
                        trace = full[tuple(sl)].reshape(-1)
                        bc = cvec[np.asarray(idx, dtype=int)]
                        Lb = bd.numlevels
                        # the boundary space may have fewer levels than the volume space: prolong its finest representation
                        rhs = spdot(Ib, bc)
                        if rhs.shape != trace.shape and Lb < Lf:
                            from pyiga import utils, bspline
                            kvs_b = [kv for d, kv in enumerate(fine.knotvectors(Lb - 1)) if d != ax]
                            for k in range(Lb - 1, Lf - 1):
                                kf = [kv for d, kv in enumerate(fine.knotvectors(k + 1)) if d != ax]; kc = [kv for d, kv in enumerate(fine.knotvectors(k)) if d != ax]
                                Pk = clean_array(utils.multi_kron_sparse([bspline.prolongation(a, b) for a, b in zip(kc, kf)]).toarray())
                                rhs = spdot(Pk, rhs)
                        put(nm, rhs, trace, cs)
                    except Exception as e:
                        res[nm] = 'sat'; bad[nm] = ['exception %s: %s' % (type(e).__name__, str(e)[:100])]
        return {'spec': spec, 'info': info, 'results': res, 'bad': bad, 'solver_s': solver_s, 'wall_s': time.time() - t0}
    except Exception as e:
        import traceback
        return {'spec': spec, 'error': '%s: %s' % (type(e).__name__, e), 'traceback': traceback.format_exc()[-1500:]}


class _Res:
    """result of one evaluation method of a level-wise tensor-product function: which method, with which argument, and the function
    it was applied to (as finest-level tensor-product coefficients).  Sums only within the same method and argument."""
    def __init__(self, tag, arg, vec): self.tag = tag; self.arg = arg; self.vec = vec
    def __add__(self, o):
        if isinstance(o, (int, float)) and o == 0: return self
        if not isinstance(o, _Res) or o.tag != self.tag or o.arg is not self.arg: return _Res('MIXED(%s,%s)' % (self.tag, getattr(o, 'tag', type(o).__name__)), None, self.vec)
        return _Res(self.tag, self.arg, self.vec + o.vec)
    __radd__ = __add__


def evaluation_routes(fine, put, res, bad):
    """HSplineFunc / HSpace.grid_eval with bspline.BSplineFunc replaced by a stand-in that records (method, argument, function):
    every evaluation route must apply THE SAME method with THE SAME argument to level-wise functions whose sum is the function with the
    given (T)HB coefficients.  (That BSplineFunc's own methods evaluate correctly is C07.)"""
    from checks.C03 import SymVec, spdot
    from pyiga import hierarchical, bspline as real_bspline
    import types
    if _HIER is not None: hierarchical = _HIER
    Lf = fine.numlevels
    levels = {tuple(id(kv) for kv in fine.knotvectors(k)): k for k in range(Lf)}

    class StubBF:
        def __init__(self, kvs, coeffs):
            k = levels.get(tuple(id(kv) for kv in kvs))
            if k is None:
                k = [j for j in range(Lf) if all(a == b for a, b in zip(kvs, fine.knotvectors(j)))][0]
            c = np.asarray(coeffs, dtype=object).reshape(-1)
            M = tp_prolong(fine, k, Lf - 1)
            self.vec = c if M is None else spdot(M, c)
        def eval(self, *x): return _Res('eval', EV, self.vec)
        def grid_eval(self, g): return _Res('grid_eval', g, self.vec)
        def grid_jacobian(self, g): return _Res('grid_jacobian', g, self.vec)
        def grid_hessian(self, g): return _Res('grid_hessian', g, self.vec)
    EV = object()
    shim = types.SimpleNamespace(**{k: getattr(real_bspline, k) for k in dir(real_bspline) if not k.startswith('__')})
    shim.BSplineFunc = StubBF
    old = hierarchical.bspline
    hierarchical.bspline = shim
    try:
        n = fine.numdofs
        cs = [z3.Real('c%d' % i) for i in range(n)]
        for tr in (False, True):
            ref = spdot(oracle_represent(fine, Lf - 1, tr), np.array([Sym(t) for t in cs] + [None], dtype=object)[:-1])
            G = object()
            for meth in ('eval', 'grid_eval', 'grid_jacobian', 'grid_hessian', 'HSpace.grid_eval'):
                nm = 'HSplineFunc.%s (truncate=%s): sum over levels of the same method = the function with these coefficients' % (meth, tr)
                try:
                    cv = SymVec(n)
                    for i, t in enumerate(cs): cv[i] = Sym(t)
                    f = hierarchical.HSplineFunc(fine, cv, truncate=tr)
                    if meth == 'eval': out = f.eval(0.25, 0.5); want = ('eval', EV)
                    elif meth == 'HSpace.grid_eval': out = fine.grid_eval(cv, G, truncate=tr); want = ('grid_eval', G)
                    else: out = getattr(f, meth)(G); want = (meth, G)
                    if not isinstance(out, _Res) or out.tag != want[0] or out.arg is not want[1]:
                        res[nm] = 'sat'; bad[nm] = ['route applies %s to the level functions' % getattr(out, 'tag', type(out).__name__)]
                    else:
                        put(nm, out.vec, ref, cs)
                except Exception as e:
                    res[nm] = 'sat'; bad[nm] = ['exception %s: %s' % (type(e).__name__, str(e)[:100])]
    finally:
        hierarchical.bspline = old


def canary_space(args):
    """worker: the transfer obligations on one space, with HSpace/HMesh taken from a transformed copy of pyiga/hierarchical.py"""
    global _HIER
    spec, pat, rep = args
    from checks import C03
    C03.real_pyiga()
    _HIER = srcload.load_module('pyiga/hierarchical.py', 'pyiga._verif_hier_canary', transform=lambda t: t.replace(pat, rep, 1))
    try:
        r = transfer_space(spec)
    finally:
        _HIER = None
    if 'error' in r: return None
    return sorted(k for k, v in r['results'].items() if v == 'sat' and not k.startswith('virtual_hierarchy_prolongators(truncate=True)'))


HCANARIES = [
    ('represent_fine: an intermediate virtual level truncates against the active functions only',
     'Pj[act_indices[k+1], :] = 0', 'Pj[self.active_indices()[k+1], :] = 0',
     {'p': 2, 'n': [6], 'history': [{0: [[1], [2], [3], [4]]}, {1: [[3], [4], [5], [6], [7], [8]]}], 'truncate': True, 'disparity': 'inf'}),
    ('HMesh.add_level: the prolongator of direction 0 is used in every direction',
     'in zip(self.meshes[-2].kvs, self.meshes[-1].kvs)))', 'in zip(len(self.meshes[-2].kvs) * self.meshes[-2].kvs[:1], len(self.meshes[-1].kvs) * self.meshes[-1].kvs[:1])))',
     {'p': 2, 'n': [3, 3], 'breaks': [[0, 0.25, 0.5, 1], [0, 0.5, 0.875, 1]], 'history': [{0: [[0, 0], [1, 1]]}], 'truncate': False, 'disparity': 'inf'}),
    ('prolongate_to: propagation stops at a level without ACTIVE functions (instead of: without deactivated ones)',
     'if len(fd_l) == 0: # no more functions to prolongate on this level', 'if len(fa_l) == 0:',
     {'p': 1, 'n': [4], 'history': [{0: [[1]]}, {1: [[2], [3]]}, {2: [[4], [5], [6], [7]]}], 'truncate': False, 'disparity': 'inf'}),
    ('HSplineFunc.grid_hessian sums the Jacobians of the level functions',
     'return sum(f.grid_hessian(gridaxes)', 'return sum(f.grid_jacobian(gridaxes)',
     {'p': 1, 'n': [3, 2], 'history': [{0: [[0, 0]]}], 'truncate': False, 'disparity': 'inf'}),
    ('coeffs_to_levelwise_funcs: THB coefficients used as HB coefficients',
     'coeffs = self.thb_to_hb() @ coeffs', 'coeffs = coeffs',
     {'p': 2, 'n': [4], 'history': [{0: [[0], [1]]}, {1: [[0], [1]]}], 'truncate': True, 'disparity': 'inf'}),
    ('virtual_hierarchy_prolongators (HB): block of the deactivated functions taken from the wrong columns',
     'restrict=True)[:, ID[lv]]', 'restrict=True)[:, ID[lv][::-1]]',
     {'p': 2, 'n': [4], 'history': [{0: [[0], [1]]}, {1: [[0], [1]]}], 'truncate': False, 'disparity': 'inf'}),
]


def transfer_specs(thorough):
    S = []
    def add(p, n, hist, trunc, disp='inf'): S.append({'p': p, 'n': list(n), 'history': hist, 'truncate': trunc, 'disparity': disp})
    for trunc in (False, True):
        add(2, (4,), [{0: [[0], [1]]}, {1: [[0], [1]]}], trunc)
        add(1, (3,), [{0: [[0]]}, {1: [[0], [1]]}, {2: [[1]]}], trunc)
        # a level with deactivated but NO active functions in between
        add(1, (4,), [{0: [[1]]}, {1: [[2], [3]]}, {2: [[4], [5], [6], [7]]}], trunc)
        add(2, (3,), [{0: [[0], [1], [2]]}, {1: [[0], [1], [2], [3], [4], [5]]}, {2: [[2], [3]]}], trunc)
        add(1, (3, 2), [{0: [[0, 0]]}], trunc)                      # different knot vectors per direction
        add(1, (2, 3), [{0: [[1, 2]]}, {1: [[3, 5]]}], trunc)
        add(2, (3, 2), [{0: [[0, 0], [1, 0]]}], trunc)
        add(1, (2, 2), [{0: [[0, 0]]}, {1: [[0, 0], [1, 1]]}], trunc)
        # same degree and size in two directions, different (graded) knots
        S.append({'p': 2, 'n': [3, 3], 'breaks': [[0, 0.25, 0.5, 1], [0, 0.5, 0.875, 1]], 'history': [{0: [[0, 0], [1, 1]]}], 'truncate': trunc, 'disparity': 'inf'})
        S.append({'p': 2, 'n': [2, 2], 'breaks': [[0, 0.5, 1], [0, 0.125, 1]], 'history': [{0: [[0, 0]]}, {1: [[0, 1]]}], 'truncate': trunc, 'disparity': 'inf'})   # (degree 1: midpoint insertion has weights 1/2 whatever the grading)
        # sharply nested regions: a child of an active function is deactivated on the next level
        add(2, (6,), [{0: [[1], [2], [3], [4]]}, {1: [[3], [4], [5], [6], [7], [8]]}], trunc)
        add(3, (8,), [{0: [[1], [2], [3], [4], [5], [6]]}, {1: [[3], [4], [5], [6], [7], [8], [9], [10], [11], [12]]}], trunc)
    add(1, (4,), [{0: [[0]]}, {1: [[0]]}, {2: [[0]]}], False, 1)
    add(2, (4,), [{0: [[0]]}, {1: [[0]]}], True, 1)
    add(1, (3, 2), [{0: [[0, 0]]}, {1: [[0, 0]]}], False, 2)
    if thorough:
        for trunc in (False, True):
            add(3, (4,), [{0: [[1], [2]]}, {1: [[2], [3], [4]]}], trunc)
            add(1, (3, 3), [{0: [[1, 1]]}, {1: [[2, 2], [3, 3]]}], trunc)
            add(2, (2, 3), [{0: [[1, 0], [1, 1]]}, {1: [[2, 0]]}], trunc)
            add(1, (2, 2, 2), [{0: [[0, 0, 0]]}], trunc)
            add(1, (5,), [{0: [[0], [1], [2]]}, {1: [[0], [1], [2], [3]]}, {2: [[0], [1]]}], trunc, 1)
            add(1, (2, 2), [{0: [[1, 1]]}, {1: [[2, 2], [3, 3]]}, {2: [[5, 5]]}], trunc, 2)
    return S


REPLAY_TR = r'''
import sys, json, numpy as np
w = json.load(sys.stdin)
from pyiga import bspline, hierarchical, utils
spec = w['spec']
def build(upto=None):
    if spec.get('breaks'):
        kvs = tuple(bspline.KnotVector(np.array([b[0]] * spec['p'] + list(b) + [b[-1]] * spec['p'], dtype=float), spec['p']) for b in spec['breaks'])
    else:
        kvs = tuple(bspline.make_knots(spec['p'], 0.0, 1.0 + 0.5 * d, spec['n'][d]) for d in range(len(spec['n'])))
    disp = np.inf if spec['disparity'] in (None, 'inf') else spec['disparity']
    hs = hierarchical.HSpace(kvs, truncate=spec['truncate'], disparity=disp, bdspecs=[])
    for step in spec['history'][:upto]:
        hs.refine({int(l): set(tuple(c) for c in cells) for l, cells in step.items()})
    return hs
bad = []
rng = np.random.RandomState(5)
fine = build()
pts = [np.linspace(kv.support()[0], kv.support()[1], 7) for kv in fine.knotvectors(0)]
def values(hs, c):
    return hierarchical.HSplineFunc(hs, c).grid_eval(pts)
try:
    for upto in range(len(spec['history'])):
        coarse = build(upto); c = rng.rand(coarse.numdofs)
        P = coarse.prolongate_to(fine)
        values = lambda hs, cc: hierarchical.HSplineFunc(hs, cc, truncate=False).grid_eval(pts)      # HB coefficients
        if not np.allclose(values(coarse, c), values(fine, P @ c), atol=1e-10): bad.append('prolongate_to from prefix %d: function changed (max dev %.3g)' % (upto, np.abs(values(coarse, c) - values(fine, P @ c)).max()))
    c = rng.rand(fine.numdofs)
    if not np.allclose(hierarchical.HSplineFunc(fine, c, truncate=True).grid_eval(pts), hierarchical.HSplineFunc(fine, fine.thb_to_hb() @ c, truncate=False).grid_eval(pts), atol=1e-10): bad.append('thb_to_hb')
    if not np.allclose(fine.hb_to_thb() @ (fine.thb_to_hb() @ c), c, atol=1e-10): bad.append('hb_to_thb o thb_to_hb != id')
    # mesh-hierarchy prolongators, direction by direction, by evaluation
    L = fine.numlevels
    for k in range(L - 1):
        for d, (kc, kf) in enumerate(zip(fine.knotvectors(k), fine.knotvectors(k + 1))):
            cc = rng.rand(kc.numdofs); xs = np.linspace(kc.support()[0], kc.support()[1], 23)
            Pk = fine.hmesh.P[k][d]
            if Pk.shape != (kf.numdofs, kc.numdofs) or not np.allclose(bspline.BSplineFunc(kc, cc)(xs), bspline.BSplineFunc(kf, Pk @ cc)(xs), atol=1e-10):
                bad.append('HMesh.P[%d][%d] changes the function' % (k, d))
    # represent_fine on every virtual level
    IA = [np.sort(np.ravel_multi_index(np.array(sorted(a)).T.reshape(len(spec['n']), -1), tuple(kv.numdofs for kv in fine.knotvectors(k)))) if a else np.zeros(0, dtype=int) for k, a in enumerate(fine.actfun)]
    ID = [np.sort(np.ravel_multi_index(np.array(sorted(a)).T.reshape(len(spec['n']), -1), tuple(kv.numdofs for kv in fine.knotvectors(k)))) if a else np.zeros(0, dtype=int) for k, a in enumerate(fine.deactfun)]
    for lv in range(L):
        Rh = fine.represent_fine(lv=lv, truncate=False).toarray(); Rt = fine.represent_fine(lv=lv, truncate=True).toarray()
        kl = fine.knotvectors(lv)
        # HB: the function with level-lv coefficients Rh c is the sum of the level-wise tensor-product functions
        idx = [IA[k] if k < lv else np.concatenate((IA[k], ID[k])) for k in range(lv + 1)]
        c = rng.rand(Rh.shape[1]); off = 0; tot = 0
        for k in range(lv + 1):
            ck = np.zeros(int(np.prod([kv.numdofs for kv in fine.knotvectors(k)]))); ck[idx[k]] = c[off:off + len(idx[k])]; off += len(idx[k])
            tot = tot + bspline.BSplineFunc(fine.knotvectors(k), ck.reshape([kv.numdofs for kv in fine.knotvectors(k)])).grid_eval(pts)
        got = bspline.BSplineFunc(kl, (Rh @ c).reshape([kv.numdofs for kv in kl])).grid_eval(pts)
        if not np.allclose(got, tot, atol=1e-10): bad.append('represent_fine(lv=%d, truncate=False): columns are not the HB basis functions' % lv)
        # THB: partition of unity, non-negative, same span as HB, and truncated functions differ from the HB ones only by finer functions of the space
        if not np.allclose(Rt.sum(axis=1), 1.0, atol=1e-10): bad.append('represent_fine(lv=%d, truncate=True): no partition of unity (max dev %.3g)' % (lv, abs(Rt.sum(axis=1) - 1).max()))
        if Rt.min() < -1e-12: bad.append('represent_fine(lv=%d, truncate=True): negative coefficients' % lv)
        if np.linalg.matrix_rank(np.hstack((Rh, Rt)), tol=1e-9) != Rh.shape[1] or np.linalg.matrix_rank(Rt, tol=1e-9) != Rh.shape[1]:
            bad.append('represent_fine(lv=%d, truncate=True): columns do not span the level space' % lv)
    # evaluation routes against the finest-level tensor-product representation
    kf = fine.knotvectors(L - 1); shp = [kv.numdofs for kv in kf]
    for tr in (False, True):
        c = rng.rand(fine.numdofs)
        hf = hierarchical.HSplineFunc(fine, c, truncate=tr)
        tf = bspline.BSplineFunc(kf, (fine.represent_fine(truncate=tr) @ c).reshape(shp))
        for meth in ('grid_eval', 'grid_jacobian', 'grid_hessian'):
            a = np.asarray(getattr(hf, meth)(pts)); b = np.asarray(getattr(tf, meth)(pts))
            if a.shape != b.shape or not np.allclose(a, b, atol=1e-8 * (1 + abs(b).max())): bad.append('HSplineFunc.%s (truncate=%s) differs from the finest-level representation' % (meth, tr))
        x0 = [0.3 * (kv.support()[0] + kv.support()[1]) for kv in kf]
        if not np.allclose(hf(*x0), tf(*x0), atol=1e-10): bad.append('HSplineFunc.__call__ (truncate=%s) differs' % tr)
        if not np.allclose(fine.grid_eval(c, pts, truncate=tr), tf.grid_eval(pts), atol=1e-10): bad.append('HSpace.grid_eval (truncate=%s) differs' % tr)
    # virtual hierarchy prolongators: composition of all, from level-0 tensor-product coefficients (active, then deactivated)
    for tr in (False, True):
        Ps = fine.virtual_hierarchy_prolongators(truncate=tr)
        u_tp = rng.rand(int(np.prod([kv.numdofs for kv in fine.knotvectors(0)])))
        u = np.concatenate((u_tp[IA[0]], u_tp[ID[0]]))
        for P in Ps: u = P @ u
        pd = [np.linspace(kv.support()[0], kv.support()[1], 131) for kv in fine.knotvectors(0)]
        f0 = bspline.BSplineFunc(fine.knotvectors(0), u_tp.reshape([kv.numdofs for kv in fine.knotvectors(0)])).grid_eval(pd)
        f1 = hierarchical.HSplineFunc(fine, u, truncate=tr).grid_eval(pd)
        if not np.allclose(f0, f1, atol=1e-10): bad.append('virtual_hierarchy_prolongators(truncate=%s): composition changes the function (max dev %.3g)' % (tr, abs(f0 - f1).max()))
    dim = len(spec['n'])
    if dim >= 2:
        for ax in range(dim):
            for side in (0, 1):
                bd, idx = fine.boundary((ax, side))
                g = list(pts); g[ax] = np.array([fine.knotvectors(0)[ax].support()[side]])
                full = np.squeeze(hierarchical.HSplineFunc(fine, c).grid_eval(g), axis=ax)
                gb = [q for d, q in enumerate(pts) if d != ax]
                tr = hierarchical.HSplineFunc(bd, c[idx]).grid_eval(gb)
                if full.shape != tr.shape or not np.allclose(full, tr, atol=1e-10): bad.append('boundary(%s)' % ((ax, side),))
except Exception as e:
    bad.append('exception %s: %s' % (type(e).__name__, str(e)[:100]))
print(json.dumps({'reproduced': bool(bad), 'bad': bad}))
'''


def main():
    run = Run(PID, level='other', description='Knot insertion with fully symbolic knot vectors; hierarchical transfers (prolongate_to, boundary, THB<->HB) on enumerated spaces with symbolic coefficient vectors.')
    thorough = run.tier == 'thorough'
    enc = srcload.Encoded()
    ns = load_insertion(enc)
    run.add_encoded(enc)
    run.stubs += ['(B) bspline.BSplineFunc inside HSplineFunc/coeffs_to_levelwise_funcs -> stand-in recording (method, argument, coefficients)', 'scipy.sparse.lil_matrix -> symsparse', 'np allocation -> object arrays', '(B) real HSpace code of /repo; entries of the real transfer matrices replaced by the dyadic rational within 1e-12']
    run.assumptions += ['doubles as reals', 'knot insertion: a < u < b and the refined vector is admissible (interior multiplicity <= p)',
                        '(B) the quantifier over refinement histories is by enumeration (not a solver verdict); the solver quantifies over the coefficient vector only (linear identities), tolerance 1e-9 for |c_i| <= 1',
                        'reference for "the same function": tensor-product coefficients on a common level, with level-to-level prolongation by EXACT knot insertion (own Boehm code in Fractions, self-tested against Cox-de Boor on every use) -- not the library\'s HMesh.P',
                        'reference for the (T)HB basis of a virtual level: textbook definition (prolongate the unit vector; THB: after each step zero the coefficients of all functions whose support lies in that level\'s refinement region)',
                        'span equality is decided with tolerance 1e-9 (existential LRA query per column + independence query)']
    run.out_of_scope += ['bspline.prolongation for arbitrary knot vectors (collocation solve through sparse LU: numeric, FFI): only its results inside HMesh.P are compared with exact knot insertion, on the listed level knot vectors',
                         'the evaluation kernels of the level-wise BSplineFunc objects (C07); here: that every HSplineFunc route sums the same method over the right level-wise functions', 'rounding below 1e-9']
    run.bounds = {'knot insertion': 'degree 1..3 (4 thorough), 0..2 symbolic interior knots (coincident knots allowed), u anywhere in (a,b) incl. on existing knots, all real x',
                  'transfers': 'histories listed in evidence: 1D-2D (3D thorough), degree 1-3, HB and THB, disparity inf/1/2, different and graded knot vectors per direction (same degree and size), empty intermediate levels, sharply nested regions; per space: prolongate_to from every prefix, HMesh.P per level and direction, represent_fine on every virtual level for both bases, virtual_hierarchy_prolongators (composition, spans) for both bases, HSplineFunc.eval/grid_eval/grid_jacobian/grid_hessian and HSpace.grid_eval for both bases, THB<->HB, boundary restriction'}
    if run.want('insertion'):
        cfgs = [(1, 0), (1, 1), (1, 2), (2, 1), (2, 2), (3, 1), (3, 2), (2, 3)] + ([(3, 3), (4, 1)] if thorough else [])      # (degree 4 with 2 knots and degree 5 did not finish within 40 min once the oracle forks on coincident knots)
        for p, nint in cfgs:
            h, kvz, u = insertion_harness(ns, p, nint)
            st = sx.explore(h, timeout_ms=240000 if thorough else 90000, export_every=7 if thorough else 0, max_paths=2000, clear_div=True, sat_search=True, stop_at_first=False)
            run.absorb(st, 'knot-insertion', bound={'p': p, 'interior knots': nint}, sample={'obligation': 'knot insertion', 'p': p, 'interior knots': nint})
            if thorough and st.smt2: run.cross_check(st.smt2[:1], timeout_s=120)
            for cex in st.cex:
                m = cex['model']
                w = {'kv': [str(F(sx.model_value(m, t))) for t in kvz], 'p': p, 'u': str(F(sx.model_value(m, u)))}
                r = realbuild.run_real(REPLAY_INS, w, only=['bspline_cy'])
                run.report('knot_insertion:%s' % cex['name'][:40], 'knot_insertion(p=%d, kv=%s, u=%s): %s; real: %s' % (p, w['kv'], w['u'], cex['name'], r['bad']), {'kind': 'insertion', **w}, r['reproduced'])
    if run.want('transfers'):
        specs = transfer_specs(thorough)
        import multiprocessing as mp
        from checks import C03
        C03.real_pyiga()            # resolve (and if necessary build) the real tree ONCE, before forking the workers
        with mp.get_context('fork').Pool(10 if thorough else 6) as pool:
            results = pool.map(transfer_space, specs, chunksize=1)
        # replays of all spaces with a failing obligation: the first one alone (it may trigger the scratch build), the others concurrently
        need = [r for r in results if 'error' not in r and any(v == 'sat' for v in r['results'].values())]
        replays = {}
        if need:
            from concurrent.futures import ThreadPoolExecutor
            replays[id(need[0])] = realbuild.run_real(REPLAY_TR, {'spec': need[0]['spec']}, timeout=900)
            with ThreadPoolExecutor(8) as ex:
                for r_, rp_ in zip(need[1:], ex.map(lambda q: realbuild.run_real(REPLAY_TR, {'spec': q['spec']}, timeout=900), need[1:])):
                    replays[id(r_)] = rp_
        for r in results:
            spec = r['spec']
            if 'error' in r:
                run.inconclusive_msg('space %s: harness error %s\n%s' % (json.dumps(spec), r['error'], r.get('traceback', '')[-400:])); continue
            run.record_queries('hierarchical-transfers', r['results'], solver_s=r['solver_s'], bound={'space': spec, **r['info']}, sample={'space': spec, **r['info']})
            if any(v == 'sat' for v in r['results'].values()):
                rp = replays[id(r)]
                VH = 'virtual_hierarchy_prolongators(truncate=True)'
                sat = {k: v for k, v in r['results'].items() if v == 'sat'}
                # (i) the THB virtual-hierarchy prolongators on spaces with >= 3 levels: one call site, recorded as a known finding
                vh = {k for k in sat if k.startswith(VH)} if r['info']['levels'] >= 3 else set()
                if vh:
                    rb = [b for b in rp['bad'] if b.startswith(VH)]
                    run.report('virtual_hierarchy_prolongators:THB:levels>=3', 'space %s (%s): solver: %s; real evaluation: %s' % (json.dumps(spec), r['info'], sorted(vh), rb),
                               {'kind': 'transfer', 'spec': spec}, bool(rb))
                rest = {k: v for k, v in sat.items() if k not in vh}
                if rest:
                    rb = [b for b in rp['bad'] if not (vh and b.startswith(VH))]
                    failing = sorted(k.split('(')[0].split(':')[0] for k in rest)
                    key = 'transfer:%s:p%d:n%s:%s:disp=%s:%s' % ('THB' if spec['truncate'] else 'HB', spec['p'], 'x'.join(map(str, spec['n'])), json.dumps(spec['history'], sort_keys=True), spec['disparity'], ','.join(sorted(set(failing))))
                    run.report(key, 'space %s (%s): solver: %s %s; real evaluation: %s' % (json.dumps(spec), r['info'], rest, {k: r['bad'].get(k) for k in rest}, rb), {'kind': 'transfer', 'spec': spec}, bool(rb))
    if not run.args.no_canaries and run.args.only is None:
        src = srcload.read('pyiga/bspline.py')
        for name, pat, rep in (('knot insertion: coefficient uses the wrong knot span', 'a = (u - knots[i]) / (knots[i + p] - knots[i])', 'a = (u - knots[i]) / (knots[i + p + 1] - knots[i])'),
                               ('knot insertion: unchanged block one row short', 'for i in range(k - p + 1):\n        P[i, i] = 1.0', 'for i in range(k - p):\n        P[i, i] = 1.0')):
            if pat not in src: run.canary(name, False, skipped=True); continue
            ns2 = load_insertion(transform=lambda s, pat=pat, rep=rep: s.replace(pat, rep, 1))
            h, _, _ = insertion_harness(ns2, 2, 1)
            st = sx.explore(h, timeout_ms=60000)
            run.canary(name, bool(st.cex))
        hsrc = srcload.read('pyiga/hierarchical.py')
        import multiprocessing as mp
        todo = [(name, pat, rep, spec) for name, pat, rep, spec in HCANARIES if pat in hsrc]
        for name, pat, rep, spec in HCANARIES:
            if pat not in hsrc: run.canary(name, False, skipped=True)
        if todo:
            with mp.get_context('fork').Pool(len(todo)) as pool:
                for (name, _, _, _), got in zip(todo, pool.map(canary_space, [(spec, pat, rep) for _, pat, rep, spec in todo], chunksize=1)):
                    run.canary(name, bool(got))
    run.finish()


def replay_file(path):
    w = json.load(open(path))['witness']
    r = realbuild.run_real(REPLAY_INS if w.get('kind') == 'insertion' else REPLAY_TR, w, timeout=900)
    print(json.dumps(r)); print('REPRODUCED' if r['reproduced'] else 'NOT-REPRODUCED')
    sys.exit(1 if r['reproduced'] else 0)


if __name__ == '__main__':
    if '--replay' in sys.argv:
        replay_file(sys.argv[sys.argv.index('--replay') + 1])
    main_wrapper(main)
