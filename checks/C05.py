"""C05 -- transfers between nested spline spaces preserve the function.

(A) bspline.knot_insertion (source exec'd, KnotVector from source, transliterated findspan): FULLY SYMBOLIC knot vector, inserted knot u and evaluation
    point x; z3 proves  N_j^old(x) = sum_i P[i,j] N_i^new(x)  for all real x, with the Cox-de Boor oracle on both knot vectors.
(B) hybrid (as C03: hierarchical spaces enumerated -- not a solver verdict --, coefficient vectors symbolic): the REAL HSpace.prolongate_to,
    HSpace.boundary, thb_to_hb/hb_to_thb, represent_fine run on concrete spaces; for a symbolic coefficient vector c z3 decides that the function is
    preserved, expressed in the tensor-product basis of the finest level:   I_fine (P c) = Prol (I_coarse c),   trace(I c) = I_bd c[idx],
    I_thb c = I_hb (T c),  T^-1 T c = c.   Every entry is a linear form in c.
"""
import itertools, json, sys, time
from fractions import Fraction as F
import numpy as np
import z3

from checks.common import Run, main_wrapper, jsonable
from checks import realbuild
from checks.bsp_oracle import Oracle, symbolic_knots
from symx import core as sx
from symx.core import Sym, lift
from symx.symnp import SymNP
from symx.symsparse import sparse_facade
from symx import srcload
from cyx.load import load_pyx

PID = 'C05'


class _NS:
    def __init__(self, **kw): self.__dict__.update(kw)


def load_insertion(enc=None, transform=None):
    cy = load_pyx('pyiga/bspline_cy.pyx', encoded=enc); cy['np'] = SymNP()
    ns = {'np': SymNP(), 'pyx_findspan': cy['pyx_findspan'], 'scipy': _NS(sparse=sparse_facade())}
    srcload.load_defs('pyiga/bspline.py', ['KnotVector', 'knot_insertion'], ns, encoded=enc, transform=transform)
    return ns


class PieceOracle:
    """Cox-de Boor recursion on the polynomial piece of span index s (x in [kv[s], kv[s+1]], kv[s] < kv[s+1]): the degree-0 indicators are
    decided by the index, the 0/0 := 0 convention stays symbolic (knots may coincide).  Own code, independent of pyiga."""
    def __init__(self, kv, p, x, s): self.kv = kv; self.p = p; self.x = x; self.s = s; self.memo = {}
    def N(self, i, q=None):
        q = self.p if q is None else q
        if (i, q) in self.memo: return self.memo[(i, q)]
        kv, x = self.kv, self.x
        if q == 0: r = z3.RealVal(1 if i == self.s else 0)
        else:
            d1 = kv[i + q] - kv[i]; d2 = kv[i + q + 1] - kv[i + 1]
            a = self.N(i, q - 1); b = self.N(i + 1, q - 1)
            zero = lambda t: z3.is_rational_value(t) and t.numerator_as_long() == 0
            # the 0/0 := 0 convention is decided by FORKING the path on "denominator = 0" (coincident knots), so that every division
            # that remains in the terms has a divisor that is non-zero on the current path (needed for sound division clearing)
            c = sx.ctx()
            t1 = z3.RealVal(0)
            if not zero(a) and not c.branch(d1 == 0): t1 = (x - kv[i]) / d1 * a
            t2 = z3.RealVal(0)
            if not zero(b) and not c.branch(d2 == 0): t2 = (kv[i + q + 1] - x) / d2 * b
            r = z3.simplify(t1 + t2)
        self.memo[(i, q)] = r
        return r


def insertion_harness(ns, p, nint):
    kvz, pre = symbolic_knots(p, nint)
    u = z3.Real('u'); x = z3.Real('x')
    n = len(kvz) - p - 1

    def run(c):
        for q in pre: c.assume(q)
        c.assume(z3.And(u > kvz[0], u < kvz[-1], x >= kvz[0], x <= kvz[-1]))
        arr = np.empty(len(kvz), dtype=object)
        for i, t in enumerate(kvz): arr[i] = Sym(t)
        kv = ns['KnotVector'](arr, p)
        k = kv.findspan(Sym(u))
        k = int(k)
        new = list(kvz[:k + 1]) + [u] + list(kvz[k + 1:])
        # documented domain: the refined vector is again an admissible knot vector (interior multiplicity <= p)
        for i in range(1, len(new) - p - 1):
            c.assume(new[i] < new[i + p])
        P = ns['knot_insertion'](kv, Sym(u)).toarray()
        c.check(z3.BoolVal(P.shape == (n + 1, n)), 'knot_insertion: shape (n+1) x n')
        # one polynomial piece per non-empty span of the refined vector (closed interval: the pieces are polynomials, so the
        # right-continuous / left-continuous-at-the-end conventions are covered by continuity of each piece)
        for sp in range(p, len(new) - p - 1):
            osp = sp if sp <= k else sp - 1                # span index of the same piece in the old vector
            neu = PieceOracle(new, p, x, sp); old = PieceOracle(kvz, p, x, osp)
            hyp = z3.And(new[sp] < new[sp + 1], x >= new[sp], x <= new[sp + 1])
            for j in range(n):
                rhs = z3.RealVal(0)
                for i in range(n + 1):
                    e = P[i, j]
                    if isinstance(e, Sym) or e != 0:
                        rhs = rhs + sx._toreal(lift(e)) * neu.N(i)
                c.check(z3.Implies(hyp, old.N(j) == rhs), 'knot_insertion: every old basis function = combination of the new ones with the columns of P, for all real x')
        c.check(z3.And(*[z3.Sum([sx._toreal(lift(P[i, j])) for j in range(n)]) == 1 for i in range(n + 1)]), 'knot_insertion: rows sum to one (constants are preserved)')
        c.witness('insertion')
    return run, kvz, u


REPLAY_INS = r'''
import sys, json, numpy as np
from fractions import Fraction as F
w = json.load(sys.stdin)
from pyiga import bspline
kvq = [F(t) for t in w['kv']]; p = w['p']; u = F(w['u'])
kv = bspline.KnotVector(np.array([float(t) for t in kvq]), p)
bad = []
try:
    P = bspline.knot_insertion(kv, float(u)).toarray()
    new = sorted(kvq + [u])
    kv2 = bspline.KnotVector(np.array([float(t) for t in new]), p)
    xs = np.linspace(float(kvq[0]), float(kvq[-1]), 41)
    A = bspline.collocation(kv, xs).toarray(); B = bspline.collocation(kv2, xs).toarray()
    if P.shape != (kv.numdofs + 1, kv.numdofs) or not np.allclose(A, B @ P, atol=1e-10): bad.append('old basis != new basis @ P (max dev %.3g)' % (np.abs(A - B @ P).max() if P.shape == (kv.numdofs + 1, kv.numdofs) else -1))
except Exception as e:
    bad.append('exception %s: %s' % (type(e).__name__, e))
print(json.dumps({'reproduced': bool(bad), 'bad': bad}))
'''


# ------------------------------------------------------------------------------------------------ (B) hybrid transfers
def build(spec, upto=None):
    from pyiga import bspline, hierarchical
    kvs = tuple(bspline.make_knots(spec['p'], 0.0, 1.0 + 0.5 * d, spec['n'][d]) for d in range(len(spec['n'])))
    disp = np.inf if spec['disparity'] in (None, 'inf') else spec['disparity']
    hs = hierarchical.HSpace(kvs, truncate=spec['truncate'], disparity=disp, bdspecs=[])
    for step in spec['history'][:upto]:
        hs.refine({int(l): set(tuple(c) for c in cells) for l, cells in step.items()})
    return hs


def tp_prolong(hs_fine, lo, hi):
    """tensor-product prolongation between levels lo -> hi of the fine space's mesh hierarchy (real code: HMesh.P)"""
    from pyiga import utils
    from checks.C03 import clean_array, spdot
    M = None
    for k in range(lo, hi):
        Pk = clean_array(utils.multi_kron_sparse(hs_fine.hmesh.P[k]).toarray())
        M = Pk if M is None else spdot(Pk, M)
    return M


def transfer_space(spec):
    """worker: all transfer obligations on one history"""
    from checks import C03
    from checks.C03 import clean_array, spdot, decide
    try:
        C03.real_pyiga()
        t0 = time.time(); res = {}; bad = {}; solver_s = 0.0
        def put(nm, got, ref, syms):
            nonlocal solver_s
            r, dt, b = decide(got, ref, syms); res[nm] = r; solver_s += dt
            if b: bad[nm] = b
        fine = build(spec)
        nf = fine.numdofs
        Lf = fine.numlevels
        If = clean_array(fine.represent_fine().toarray())
        info = {'numdofs': int(nf), 'levels': int(Lf), 'active per level': [len(a) for a in fine.actfun]}
        # --- prolongate_to from every prefix of the history
        for upto in range(len(spec['history'])):
            coarse = build(spec, upto)
            nc = coarse.numdofs
            cs = [z3.Real('c%d' % i) for i in range(nc)]
            cvec = np.array([Sym(t) for t in cs] + [None], dtype=object)[:-1]
            nm = 'prolongate_to(prefix %d -> full history)' % upto
            try:
                # prolongate_to acts on HB coefficients (also for spaces that use the truncated basis)
                P = clean_array(coarse.prolongate_to(fine).toarray())
                Ic = clean_array(coarse.represent_fine(truncate=False).toarray())
                lhs = spdot(clean_array(fine.represent_fine(truncate=False).toarray()), spdot(P, cvec))
                Lc = coarse.numlevels
                # the finest levels may coincide (numlevels counts an empty top level); use the mesh hierarchy of the fine space
                M = tp_prolong(fine, Lc - 1, Lf - 1) if Lf > Lc else None
                rhs = spdot(Ic, cvec) if M is None else spdot(M, spdot(Ic, cvec))
                put(nm, lhs, rhs, cs)
            except Exception as e:
                res[nm] = 'sat'; bad[nm] = ['exception %s: %s' % (type(e).__name__, str(e)[:100])]
        # --- THB <-> HB
        cs = [z3.Real('c%d' % i) for i in range(nf)]
        cvec = np.array([Sym(t) for t in cs] + [None], dtype=object)[:-1]
        try:
            T = clean_array(fine.thb_to_hb().toarray()); Ti = clean_array(fine.hb_to_thb().toarray())
            Ih = clean_array(fine.represent_fine(truncate=False).toarray()); It = clean_array(fine.represent_fine(truncate=True).toarray())
            put('THB function with coefficients c = HB function with coefficients thb_to_hb c', spdot(It, cvec), spdot(Ih, spdot(T, cvec)), cs)
            put('hb_to_thb inverts thb_to_hb', spdot(Ti, spdot(T, cvec)), cvec, cs)
        except Exception as e:
            res['thb/hb'] = 'sat'; bad['thb/hb'] = ['exception %s: %s' % (type(e).__name__, str(e)[:100])]
        # --- boundary restriction (dim >= 2)
        dim = len(spec['n'])
        if dim >= 2:
            shape = tuple(kv.numdofs for kv in fine.knotvectors(Lf - 1))
            for ax in range(dim):
                for side in (0, 1):
                    nm = 'boundary(%s): trace of the function = function of the boundary space with the mapped coefficients' % ((ax, side),)
                    try:
                        bd, idx = fine.boundary((ax, side))
                        Ib = clean_array(bd.represent_fine().toarray())
                        # trace in the finest tensor-product basis: the coefficient slice at the face (end-point interpolation)
                        full = spdot(If, cvec).reshape(shape)
                        sl = [slice(None)] * dim; sl[ax] = 0 if side == 0 else -1
                        trace = full[tuple(sl)].reshape(-1)
                        bc = cvec[np.asarray(idx, dtype=int)]
                        Lb = bd.numlevels
                        # the boundary space may have fewer levels than the volume space: prolong its finest representation
                        rhs = spdot(Ib, bc)
                        if rhs.shape != trace.shape and Lb < Lf:
                            from pyiga import utils, bspline
                            kvs_b = [kv for d, kv in enumerate(fine.knotvectors(Lb - 1)) if d != ax]
                            for k in range(Lb - 1, Lf - 1):
                                kf = [kv for d, kv in enumerate(fine.knotvectors(k + 1)) if d != ax]; kc = [kv for d, kv in enumerate(fine.knotvectors(k)) if d != ax]
                                Pk = clean_array(utils.multi_kron_sparse([bspline.prolongation(a, b) for a, b in zip(kc, kf)]).toarray())
                                rhs = spdot(Pk, rhs)
                        put(nm, rhs, trace, cs)
                    except Exception as e:
                        res[nm] = 'sat'; bad[nm] = ['exception %s: %s' % (type(e).__name__, str(e)[:100])]
        return {'spec': spec, 'info': info, 'results': res, 'bad': bad, 'solver_s': solver_s, 'wall_s': time.time() - t0}
    except Exception as e:
        import traceback
        return {'spec': spec, 'error': '%s: %s' % (type(e).__name__, e), 'traceback': traceback.format_exc()[-1500:]}


def transfer_specs(thorough):
    S = []
    def add(p, n, hist, trunc, disp='inf'): S.append({'p': p, 'n': list(n), 'history': hist, 'truncate': trunc, 'disparity': disp})
    for trunc in (False, True):
        add(2, (4,), [{0: [[0], [1]]}, {1: [[0], [1]]}], trunc)
        add(1, (3,), [{0: [[0]]}, {1: [[0], [1]]}, {2: [[1]]}], trunc)
        # a level with deactivated but NO active functions in between
        add(1, (4,), [{0: [[1]]}, {1: [[2], [3]]}, {2: [[4], [5], [6], [7]]}], trunc)
        add(2, (3,), [{0: [[0], [1], [2]]}, {1: [[0], [1], [2], [3], [4], [5]]}, {2: [[2], [3]]}], trunc)
        add(1, (3, 2), [{0: [[0, 0]]}], trunc)                      # different knot vectors per direction
        add(1, (2, 3), [{0: [[1, 2]]}, {1: [[3, 5]]}], trunc)
        add(2, (3, 2), [{0: [[0, 0], [1, 0]]}], trunc)
        add(1, (2, 2), [{0: [[0, 0]]}, {1: [[0, 0], [1, 1]]}], trunc)
    add(1, (4,), [{0: [[0]]}, {1: [[0]]}, {2: [[0]]}], False, 1)
    add(2, (4,), [{0: [[0]]}, {1: [[0]]}], True, 1)
    add(1, (3, 2), [{0: [[0, 0]]}, {1: [[0, 0]]}], False, 2)
    if thorough:
        for trunc in (False, True):
            add(3, (4,), [{0: [[1], [2]]}, {1: [[2], [3], [4]]}], trunc)
            add(1, (3, 3), [{0: [[1, 1]]}, {1: [[2, 2], [3, 3]]}], trunc)
            add(2, (2, 3), [{0: [[1, 0], [1, 1]]}, {1: [[2, 0]]}], trunc)
            add(1, (2, 2, 2), [{0: [[0, 0, 0]]}], trunc)
            add(1, (5,), [{0: [[0], [1], [2]]}, {1: [[0], [1], [2], [3]]}, {2: [[0], [1]]}], trunc, 1)
            add(1, (2, 2), [{0: [[1, 1]]}, {1: [[2, 2], [3, 3]]}, {2: [[5, 5]]}], trunc, 2)
    return S


REPLAY_TR = r'''
import sys, json, numpy as np
w = json.load(sys.stdin)
from pyiga import bspline, hierarchical, utils
spec = w['spec']
def build(upto=None):
    kvs = tuple(bspline.make_knots(spec['p'], 0.0, 1.0 + 0.5 * d, spec['n'][d]) for d in range(len(spec['n'])))
    disp = np.inf if spec['disparity'] in (None, 'inf') else spec['disparity']
    hs = hierarchical.HSpace(kvs, truncate=spec['truncate'], disparity=disp, bdspecs=[])
    for step in spec['history'][:upto]:
        hs.refine({int(l): set(tuple(c) for c in cells) for l, cells in step.items()})
    return hs
bad = []
rng = np.random.RandomState(5)
fine = build()
pts = [np.linspace(kv.support()[0], kv.support()[1], 7) for kv in fine.knotvectors(0)]
def values(hs, c):
    return hierarchical.HSplineFunc(hs, c).grid_eval(pts)
try:
    for upto in range(len(spec['history'])):
        coarse = build(upto); c = rng.rand(coarse.numdofs)
        P = coarse.prolongate_to(fine)
        values = lambda hs, cc: hierarchical.HSplineFunc(hs, cc, truncate=False).grid_eval(pts)      # HB coefficients
        if not np.allclose(values(coarse, c), values(fine, P @ c), atol=1e-10): bad.append('prolongate_to from prefix %d: function changed (max dev %.3g)' % (upto, np.abs(values(coarse, c) - values(fine, P @ c)).max()))
    c = rng.rand(fine.numdofs)
    if not np.allclose(hierarchical.HSplineFunc(fine, c, truncate=True).grid_eval(pts), hierarchical.HSplineFunc(fine, fine.thb_to_hb() @ c, truncate=False).grid_eval(pts), atol=1e-10): bad.append('thb_to_hb')
    if not np.allclose(fine.hb_to_thb() @ (fine.thb_to_hb() @ c), c, atol=1e-10): bad.append('hb_to_thb o thb_to_hb != id')
    dim = len(spec['n'])
    if dim >= 2:
        for ax in range(dim):
            for side in (0, 1):
                bd, idx = fine.boundary((ax, side))
                g = list(pts); g[ax] = np.array([fine.knotvectors(0)[ax].support()[side]])
                full = np.squeeze(hierarchical.HSplineFunc(fine, c).grid_eval(g), axis=ax)
                gb = [q for d, q in enumerate(pts) if d != ax]
                tr = hierarchical.HSplineFunc(bd, c[idx]).grid_eval(gb)
                if full.shape != tr.shape or not np.allclose(full, tr, atol=1e-10): bad.append('boundary(%s)' % ((ax, side),))
except Exception as e:
    bad.append('exception %s: %s' % (type(e).__name__, str(e)[:100]))
print(json.dumps({'reproduced': bool(bad), 'bad': bad}))
'''


def main():
    run = Run(PID, level='other', description='Knot insertion with fully symbolic knot vectors; hierarchical transfers (prolongate_to, boundary, THB<->HB) on enumerated spaces with symbolic coefficient vectors.')
    thorough = run.tier == 'thorough'
    enc = srcload.Encoded()
    ns = load_insertion(enc)
    run.add_encoded(enc)
    run.stubs += ['scipy.sparse.lil_matrix -> symsparse', 'np allocation -> object arrays', '(B) real HSpace code of /repo; entries of the real transfer matrices replaced by the dyadic rational within 1e-12']
    run.assumptions += ['doubles as reals', 'knot insertion: a < u < b and the refined vector is admissible (interior multiplicity <= p)',
                        '(B) the quantifier over refinement histories is by enumeration (not a solver verdict); the solver quantifies over the coefficient vector only (linear identities), tolerance 1e-9 for |c_i| <= 1',
                        'the tensor-product representation on the finest level (represent_fine) and the mesh prolongations HMesh.P are the reference for "the same function"']
    run.out_of_scope += ['bspline.prolongation (collocation solve through sparse LU: numeric, FFI) -- used as given', 'virtual_hierarchy_prolongators', 'HSplineFunc evaluation routes', 'rounding']
    run.bounds = {'knot insertion': 'degree 1..3 (4 thorough), 0..2 symbolic interior knots (coincident knots allowed), u anywhere in (a,b) incl. on existing knots, all real x',
                  'transfers': 'histories listed in evidence: 1D-2D (3D thorough), degree 1-3, HB and THB, disparity inf/1/2, different knot vectors per direction, empty intermediate levels'}
    if run.want('insertion'):
        cfgs = [(1, 0), (1, 1), (1, 2), (2, 1), (2, 2), (3, 1), (3, 2), (2, 3)] + ([(3, 3), (4, 1), (4, 2), (5, 1), (5, 2)] if thorough else [])
        for p, nint in cfgs:
            h, kvz, u = insertion_harness(ns, p, nint)
            st = sx.explore(h, timeout_ms=240000 if thorough else 90000, export_every=7 if thorough else 0, max_paths=2000, clear_div=True, sat_search=True, stop_at_first=False)
            run.absorb(st, 'knot-insertion', bound={'p': p, 'interior knots': nint}, sample={'obligation': 'knot insertion', 'p': p, 'interior knots': nint})
            if thorough and st.smt2: run.cross_check(st.smt2[:1], timeout_s=120)
            for cex in st.cex:
                m = cex['model']
                w = {'kv': [str(F(sx.model_value(m, t))) for t in kvz], 'p': p, 'u': str(F(sx.model_value(m, u)))}
                r = realbuild.run_real(REPLAY_INS, w, only=['bspline_cy'])
                run.report('knot_insertion:%s' % cex['name'][:40], 'knot_insertion(p=%d, kv=%s, u=%s): %s; real: %s' % (p, w['kv'], w['u'], cex['name'], r['bad']), {'kind': 'insertion', **w}, r['reproduced'])
    if run.want('transfers'):
        specs = transfer_specs(thorough)
        import multiprocessing as mp
        with mp.get_context('fork').Pool(10 if thorough else 6) as pool:
            results = pool.map(transfer_space, specs, chunksize=1)
        for r in results:
            spec = r['spec']
            if 'error' in r:
                run.inconclusive_msg('space %s: harness error %s\n%s' % (json.dumps(spec), r['error'], r.get('traceback', '')[-400:])); continue
            run.record_queries('hierarchical-transfers', r['results'], solver_s=r['solver_s'], bound={'space': spec, **r['info']}, sample={'space': spec, **r['info']})
            if any(v == 'sat' for v in r['results'].values()):
                rp = realbuild.run_real(REPLAY_TR, {'spec': spec}, timeout=900)
                failing = sorted(k.split('(')[0].split(':')[0] for k, v in r['results'].items() if v == 'sat')
                key = 'transfer:%s:p%d:n%s:%s:disp=%s:%s' % ('THB' if spec['truncate'] else 'HB', spec['p'], 'x'.join(map(str, spec['n'])), json.dumps(spec['history'], sort_keys=True), spec['disparity'], ','.join(sorted(set(failing))))
                run.report(key, 'space %s (%s): solver: %s %s; real evaluation: %s' % (json.dumps(spec), r['info'], {k: v for k, v in r['results'].items() if v == 'sat'}, r['bad'], rp['bad']), {'kind': 'transfer', 'spec': spec}, rp['reproduced'])
    if not run.args.no_canaries and run.args.only is None:
        src = srcload.read('pyiga/bspline.py')
        for name, pat, rep in (('knot insertion: coefficient uses the wrong knot span', 'a = (u - knots[i]) / (knots[i + p] - knots[i])', 'a = (u - knots[i]) / (knots[i + p + 1] - knots[i])'),
                               ('knot insertion: unchanged block one row short', 'for i in range(k - p + 1):\n        P[i, i] = 1.0', 'for i in range(k - p):\n        P[i, i] = 1.0')):
            if pat not in src: run.canary(name, False, skipped=True); continue
            ns2 = load_insertion(transform=lambda s, pat=pat, rep=rep: s.replace(pat, rep, 1))
            h, _, _ = insertion_harness(ns2, 2, 1)
            st = sx.explore(h, timeout_ms=60000)
            run.canary(name, bool(st.cex))
    run.finish()


def replay_file(path):
    w = json.load(open(path))['witness']
    r = realbuild.run_real(REPLAY_INS if w.get('kind') == 'insertion' else REPLAY_TR, w, timeout=900)
    print(json.dumps(r)); print('REPRODUCED' if r['reproduced'] else 'NOT-REPRODUCED')
    sys.exit(1 if r['reproduced'] else 0)


if __name__ == '__main__':
    if '--replay' in sys.argv:
        replay_file(sys.argv[sys.argv.index('--replay') + 1])
    main_wrapper(main)
