"""C08 -- assembly is independent of symmetry flag, format, layout, subset, thread count (solver-decidable core).

Encoded (read from /repo at run time):
  pyiga/assemble.py (source): assemble_entries, _coo_to_csr_indices, assemble_entries_vec
  pyiga/assemble_tools_cy.pyx + genericasm.pxi (transliterated): BaseAssembler{1,2,3}D.entry/multi_entries(_chunk), BaseVectorAssembler{1,2,3}D.multi_blocks(_chunk),
      generic_assemble_core_vec_{1,2,3}d and their kernels (symmetric mirroring, block transposition), chunk_tasks, from_seq*, get_transpose_idx_for_bidx
  pyiga/mlmatrix.py (source) + mlmatrix_cy.pyx (transliterated): MLStructure.from_kvs/nonzero/join/dense/reorder, MLMatrix.asmatrix/reorder
The assembler's `entry_impl` is a stub with the contract C01 establishes for generated assemblers: for a pair of multi-indices whose supports
overlap in every direction it writes the (block of) symbolic entries e[i,j,(r,c)], otherwise it returns WITHOUT writing.
"""
import itertools, json, sys
import numpy as np
import scipy.sparse
import z3

from checks.common import Run, main_wrapper, jsonable
from checks import realbuild
from symx import core as sx
from symx.core import Sym, lift
from symx.symnp import SymNP
from symx.symsparse import sparse_facade, SpMat, _from_triplets
from symx import srcload
from cyx.load import load_pyx

PID = 'C08'
REJECTED = set()      # configurations the library rejects with an explicit 'not implemented' assertion (counted, not failures)


class _NS:
    def __init__(self, d=None, **kw):
        if d: self.__dict__.update(d)
        self.__dict__.update(kw)


class Facade08(type(sparse_facade())):
    """symsparse + (a) COO->CSR conversion of CONCRETE integer data through the real scipy (explicit zeros are kept, as _coo_to_csr_indices needs),
    (b) BSR construction from blocks"""
    def coo_matrix(self, arg, shape=None, **kw):
        if isinstance(arg, tuple) and len(arg) == 2 and isinstance(arg[1], tuple):
            data = np.asarray(arg[0])
            if data.dtype != object or not any(isinstance(x, Sym) for x in data.ravel()):
                I, J = (np.asarray(v).astype(int) for v in arg[1])
                if data.dtype == object: data = data.astype(float)
                if np.issubdtype(data.dtype, np.integer) or (data.size and float(data.min()) == 0 and np.all(data == np.arange(len(data)))):
                    return scipy.sparse.coo_matrix((data, (I, J)), shape=shape)
        return super().coo_matrix(arg, shape=shape)
    def bsr_matrix(self, arg, shape=None, blocksize=None, **kw):
        data, indices, indptr = arg
        data = np.asarray(data, dtype=object)
        R, C = blocksize
        if data.ndim != 3 or tuple(data.shape[1:]) != (R, C):
            raise ValueError('bsr_matrix: block shape %s does not match blocksize %s' % (tuple(data.shape[1:]), (R, C)))
        a = np.empty(shape, dtype=object); a[...] = 0
        indptr = [int(x) for x in indptr]; indices = [int(x) for x in indices]
        for bi in range(len(indptr) - 1):
            for k in range(indptr[bi], indptr[bi + 1]):
                bj = indices[k]
                a[bi * R:(bi + 1) * R, bj * C:(bj + 1) * C] = a[bi * R:(bi + 1) * R, bj * C:(bj + 1) * C] + data[k]
        return SpMat(a, 'bsr')


class Pool:
    """thread pool stand-in: runs the chunk tasks one after the other in a chosen order (any schedule of tasks that do not share
    written locations gives the same result; disjointness of the chunks' outputs is an obligation of its own)"""
    def __init__(self, order): self.order = order
    def map(self, fn, *its):
        tasks = list(zip(*its))
        idx = list(range(len(tasks)))
        if self.order == 'reverse': idx.reverse()
        elif self.order == 'odd-even': idx = idx[1::2] + idx[0::2]
        out = [None] * len(tasks)
        for k in idx: out[k] = fn(*tasks[k])
        return out


class Threads:
    n = 1
    order = 'forward'


def load_code(enc=None, transforms=None):
    transforms = transforms or {}
    from checks import C15
    kernels = C15.load_kernels(enc, transform=transforms.get('mlmatrix_cy'))
    mls = C15.structure_namespace(kernels, enc)
    atc = load_pyx('pyiga/assemble_tools_cy.pyx', encoded=enc, transform=transforms.get('assemble_tools_cy'))
    atc['np'] = SymNP(ints_object=False)
    atc['pyiga'] = _NS(get_max_threads=lambda: Threads.n)
    atc['get_thread_pool'] = lambda: Pool(Threads.order)
    atc['get_transpose_idx_for_bidx'] = kernels['get_transpose_idx_for_bidx'] if 'get_transpose_idx_for_bidx' in kernels else atc['get_transpose_idx_for_bidx']
    an = {'np': SymNP(ints_object=False), 'scipy': _NS(sparse=Facade08()), 'MLStructure': mls['MLStructure'],
          'assemble_tools': _NS(generic_assemble_core_vec_1d=atc['generic_assemble_core_vec_1d'], generic_assemble_core_vec_2d=atc['generic_assemble_core_vec_2d'],
                                generic_assemble_core_vec_3d=atc['generic_assemble_core_vec_3d'])}
    srcload.load_defs('pyiga/assemble.py', ['assemble_entries', '_coo_to_csr_indices', 'assemble_entries_vec'], an, encoded=enc, transform=transforms.get('assemble'))
    return an, atc, mls


def real_kvs(cfg):
    from pyiga import bspline
    return tuple(bspline.make_knots(p, 0.0, 1.0, n, mult=m) for (p, n, m) in cfg)


def overlap(kv0, kv1, i, j):
    """supports of test function i (space 1) and trial function j (space 0) overlap with positive measure"""
    a0, b0 = kv1.support(i); a1, b1 = kv0.support(j)
    return max(a0, a1) < min(b0, b1)


class Entries:
    """symbolic entry table e[i,j,r,c] (multi-indices), optionally with the symmetry contract e[i,j,r,c] = e[j,i,c,r]"""
    def __init__(self, symmetric): self.symmetric = symmetric; self.tab = {}
    def get(self, i, j, r=0, c=0):
        key = (tuple(i), tuple(j), r, c)
        if self.symmetric:
            key2 = (tuple(j), tuple(i), c, r)
            if key2 < key: key = key2
        if key not in self.tab:
            self.tab[key] = Sym(z3.Real('e_%s_%s_%d_%d' % ('_'.join(map(str, key[0])), '_'.join(map(str, key[1])), key[2], key[3])))
        return self.tab[key]


def make_scalar_asm(atc, kvs0, kvs1, E):
    dim = len(kvs0)
    Base = atc['BaseAssembler%dD' % dim]
    class Asm(Base):
        def entry_impl(self, i, j, result):
            if all(overlap(kvs0[d], kvs1[d], int(i[d]), int(j[d])) for d in range(dim)):
                result[0] = E.get([int(x) for x in i[:dim]], [int(x) for x in j[:dim]])
    a = Asm()
    a.arity = 2; a.kvs = (kvs0, kvs1)
    a.S0_ndofs = [kv.numdofs for kv in kvs0]; a.S1_ndofs = [kv.numdofs for kv in kvs1]
    return a


def make_vector_asm(atc, kvs0, kvs1, E, nc_trial, nc_test):
    dim = len(kvs0)
    Base = atc['BaseVectorAssembler%dD' % dim]
    class Asm(Base):
        def entry_impl(self, i, j, result):
            if all(overlap(kvs0[d], kvs1[d], int(i[d]), int(j[d])) for d in range(dim)):
                for r in range(nc_test):
                    for c in range(nc_trial):
                        result[r * nc_trial + c] = E.get([int(x) for x in i[:dim]], [int(x) for x in j[:dim]], r, c)
    a = Asm()
    a.arity = 2; a.kvs = (kvs0, kvs1)
    a.S0_ndofs = [kv.numdofs for kv in kvs0]; a.S1_ndofs = [kv.numdofs for kv in kvs1]
    a.numcomp = [nc_trial, nc_test]
    return a


def truth(kvs0, kvs1, E, nc_trial=1, nc_test=1, layout='packed'):
    """the matrix the entry function denotes: rows = test dofs (space 1), columns = trial dofs (space 0)"""
    dim = len(kvs0)
    n0 = [kv.numdofs for kv in kvs0]; n1 = [kv.numdofs for kv in kvs1]
    N0 = int(np.prod(n0)); N1 = int(np.prod(n1))
    A = np.empty((N1 * nc_test, N0 * nc_trial), dtype=object); A[...] = 0
    for i in itertools.product(*[range(n) for n in n1]):
        for j in itertools.product(*[range(n) for n in n0]):
            if not all(overlap(kvs0[d], kvs1[d], i[d], j[d]) for d in range(dim)): continue
            I = int(np.ravel_multi_index(i, n1)); J = int(np.ravel_multi_index(j, n0))
            for r in range(nc_test):
                for c in range(nc_trial):
                    if layout == 'packed': A[I * nc_test + r, J * nc_trial + c] = E.get(i, j, r, c)
                    else: A[r * N1 + I, c * N0 + J] = E.get(i, j, r, c)
    return A


def dense(X):
    if hasattr(X, 'asmatrix'): X = X.asmatrix()
    if hasattr(X, 'toarray'): X = X.toarray()
    return np.asarray(X, dtype=object)


# ------------------------------------------------------------------------------------------------ harnesses
def scalar_harness(an, atc, cfg0, cfg1):
    def run(c):
        kvs0 = real_kvs(cfg0); kvs1 = real_kvs(cfg1) if cfg1 else kvs0
        same = cfg1 is None
        for symm in ((False, True) if same else (False,)):
            E = Entries(symm)
            asm = make_scalar_asm(atc, kvs0, kvs1, E)
            T = truth(kvs0, kvs1, E)
            for fmt in ('csr', 'csc', 'coo'):
                for flag in ((False, True) if symm else (False,)):
                    try:
                        A = dense(an['assemble_entries'](asm, symmetric=flag, format=fmt))
                    except AssertionError as e:
                        if 'not implemented' in str(e): REJECTED.add('scalar dim=%d symmetric=%s: %s' % (len(kvs0), flag, e)); continue
                        raise
                    c.check(sx.eq_arrays(A, T), 'assemble_entries(symmetric=%s, format=%s) = the matrix of the entry function [entries symmetric: %s]' % (flag, fmt, symm))
        c.witness('scalar')
    return run


def vector_harness(an, atc, cfg0, cfg1, nc_trial, nc_test):
    def run(c):
        kvs0 = real_kvs(cfg0); kvs1 = real_kvs(cfg1) if cfg1 else kvs0
        same = cfg1 is None and nc_trial == nc_test
        for symm in ((False, True) if same else (False,)):
            E = Entries(symm)
            asm = make_vector_asm(atc, kvs0, kvs1, E, nc_trial, nc_test)
            Tp = truth(kvs0, kvs1, E, nc_trial, nc_test, 'packed'); Tb = truth(kvs0, kvs1, E, nc_trial, nc_test, 'blocked')
            for layout, T in (('packed', Tp), ('blocked', Tb)):
                for fmt in ('csr', 'bsr', 'mlb'):
                    for flag in ((False, True) if symm else (False,)):
                        try:
                            A = dense(an['assemble_entries_vec'](asm, symmetric=flag, format=fmt, layout=layout))
                        except AssertionError as e:
                            if 'not implemented' in str(e): REJECTED.add('vector dim=%d symmetric=%s format=%s: %s' % (len(kvs0), flag, fmt, e)); continue
                            raise
                        c.check(sx.eq_arrays(A, T), 'assemble_entries_vec(symmetric=%s, format=%s, layout=%s), components (trial %d, test %d) = the matrix of the block entry function in the documented layout'
                                % (flag, fmt, layout, nc_trial, nc_test))
        c.witness('vector')
    return run


def subset_harness(an, atc, cfg0, vector):
    """multi_entries / multi_blocks / entry on arbitrary index lists (non-structural pairs, duplicates, unsorted) for every thread count / chunk order"""
    def run(c):
        kvs0 = real_kvs(cfg0); kvs1 = kvs0
        E = Entries(False)
        nct, ncs = (2, 3) if vector else (1, 1)
        asm = make_vector_asm(atc, kvs0, kvs1, E, nct, ncs) if vector else make_scalar_asm(atc, kvs0, kvs1, E)
        n = [kv.numdofs for kv in kvs0]; N = int(np.prod(n))
        # a symbolic index list: K entries, each an arbitrary pair (solver-driven forking over the feasible values)
        K = 2 if N <= 4 else 1        # number of fully symbolic index pairs (each forks over N^2 values)
        idx = []
        for k in range(K):
            a = Sym(z3.Int('I%d' % k)); b = Sym(z3.Int('J%d' % k))
            c.assume(z3.And(a.t >= 0, a.t < N, b.t >= 0, b.t < N))
            idx.append((int(a), int(b)))
        fixed = [(0, N - 1), (N - 1, 0), (0, 0), (0, 0), (N // 2, N // 2)]
        pairs = idx + fixed
        arr = np.array(pairs, dtype=np.uintp)
        def expect(I, J):
            i = np.unravel_index(I, n); j = np.unravel_index(J, n)
            if not all(overlap(kvs0[d], kvs1[d], int(i[d]), int(j[d])) for d in range(len(n))):
                return np.zeros((ncs, nct), dtype=int).astype(object) if vector else 0
            if vector:
                # one (test x trial) component block per index pair
                B = np.empty((ncs, nct), dtype=object)
                for r in range(ncs):
                    for cc in range(nct): B[r, cc] = E.get([int(x) for x in i], [int(x) for x in j], r, cc)
                return B
            return E.get([int(x) for x in i], [int(x) for x in j])
        ref = [expect(int(I), int(J)) for I, J in pairs]
        results = []
        for nthreads in (1, 2, 3, 16):
            for order in (('forward', 'reverse', 'odd-even') if nthreads > 1 else ('forward',)):
                Threads.n = nthreads; Threads.order = order
                out = (asm.multi_blocks(arr) if vector else asm.multi_entries(arr))
                out = np.asarray(out, dtype=object)
                ok = []
                for k in range(len(pairs)):
                    got = out[k]
                    ok.append(sx.eq_arrays(got, ref[k]) if vector else (z3.BoolVal(False) if got is None else lift(got) == lift(ref[k])))
                c.check(z3.And(*ok), '%s(indices) with %d threads (%s chunk order): entry k belongs to index pair k; pairs outside the sparsity pattern give 0'
                        % ('multi_blocks' if vector else 'multi_entries', nthreads, order))
        Threads.n = 1; Threads.order = 'forward'
        if not vector:
            for k, (I, J) in enumerate(pairs[:4]):
                c.check(lift(asm.entry(int(I), int(J))) == lift(ref[k]), 'entry(i,j) = the same value as multi_entries')
            # list / iterator argument forms
            out2 = np.asarray(asm.multi_entries(iter([tuple(map(int, p)) for p in pairs])), dtype=object)
            c.check(z3.And(*[lift(out2[k]) == lift(ref[k]) for k in range(len(pairs))]), 'multi_entries(iterator of pairs) = multi_entries(ndarray)')
        c.witness('subset')
    return run


def chunk_harness(atc):
    """chunk_tasks(tasks, k): consecutive, non-empty, in order, covering every task exactly once (n <= 40, k <= 16: n and k are solver-driven forks)"""
    def run(c):
        n = Sym(z3.Int('n')); k = Sym(z3.Int('k'))
        c.assume(z3.And(n.t >= 0, n.t <= 40, k.t >= 1, k.t <= 16))
        nn = int(n); kk = int(k)
        tasks = np.arange(nn)
        chunks = [np.asarray(ch) for ch in atc['chunk_tasks'](tasks, kk)]
        flat = [int(x) for ch in chunks for x in ch]
        c.check(z3.BoolVal(flat == list(range(nn)) and all(len(ch) > 0 for ch in chunks) and len(chunks) <= max(kk, 1) + (1 if nn else 0)),
                'chunk_tasks: chunks are consecutive slices covering every task exactly once, in order')
        # two-array form used by multi_entries: index chunks and output chunks are cut at the same places
        out = np.zeros(nn)
        c.check(z3.BoolVal([len(a) for a in atc['chunk_tasks'](tasks, kk)] == [len(b) for b in atc['chunk_tasks'](out, kk)]), 'index chunks and output chunks have equal lengths')
        c.witness('chunk')
    return run


# write-set tracking for the prange kernels ------------------------------------------------------
class Tracker:
    def __init__(self, arr): self.arr = arr; self.shape = arr.shape; self.writes = set(); self.reads = set()
    def _flat(self, idx):
        o = 0
        for k, n in zip(idx, self.shape): o = o * n + int(k)
        return o
    def __getitem__(self, idx): self.reads.add(self._flat(idx)); return self.arr[tuple(int(k) for k in idx)]
    def __setitem__(self, idx, v): self.writes.add(self._flat(idx)); self.arr[tuple(int(k) for k in idx)] = v


class TPtr:
    def __init__(self, tr, ofs): self.tr = tr; self.ofs = ofs
    def __getitem__(self, k): self.tr.reads.add(self.ofs + k); return self.tr.arr.reshape(-1)[self.ofs + k]
    def __setitem__(self, k, v): self.tr.writes.add(self.ofs + k); self.tr.arr.reshape(-1)[self.ofs + k] = v


def schedule_harness(an, atc, cfg0, nc):
    """every outer (prange) iteration of the symmetric vector kernel writes a set of locations disjoint from all other iterations and reads only what it
    wrote itself or immutable inputs; the order of the outer iterations is then irrelevant -- checked by running them in reversed order as well"""
    def run(c):
        kvs0 = real_kvs(cfg0); dim = len(kvs0)
        E = Entries(True)
        asm = make_vector_asm(atc, kvs0, kvs0, E, nc, nc)
        kname = '_asm_core_vec_%dd_kernel' % dim
        orig = atc[kname]; orig_ptr = atc['_ptr']; orig_prange = atc['prange']
        log = {}
        def ptr(a, idx=0):
            if isinstance(a, Tracker):
                return TPtr(a, a._flat(idx))
            return orig_ptr(a, idx)
        def kernel(*args):
            args = list(args)
            # entries is the only ndarray argument with ndim == dim + 1
            pos = [k for k, a in enumerate(args) if isinstance(a, np.ndarray) and a.ndim == dim + 1 and a.dtype == object][0]
            tr = Tracker(args[pos]); args[pos] = tr
            orig(*args)
            log.setdefault(int(args[-1]), []).append((tr.writes, tr.reads))
        results = []
        try:
            atc[kname] = kernel; atc['_ptr'] = ptr
            for order in ('forward', 'reverse'):
                atc['prange'] = (lambda *a, **kw: range(*a)) if order == 'forward' else (lambda *a, **kw: reversed(range(*a)))
                S = an['MLStructure'].from_kvs(kvs0, kvs0)
                results.append(np.asarray(atc['generic_assemble_core_vec_%dd' % dim](asm, S.bidx[:dim], True), dtype=object).copy())
        finally:
            atc[kname] = orig; atc['_ptr'] = orig_ptr; atc['prange'] = orig_prange
        ws = {mu: set().union(*[w for w, r in v]) for mu, v in log.items()}
        rs = {mu: set().union(*[r for w, r in v]) for mu, v in log.items()}
        disjoint = all(not (ws[a] & ws[b]) for a in ws for b in ws if a < b)
        own = all(rs[a] <= ws[a] for a in rs)
        c.check(z3.BoolVal(disjoint), 'prange kernel: write sets of distinct outer iterations are pairwise disjoint')
        c.check(z3.BoolVal(own), 'prange kernel: an outer iteration reads only locations it wrote itself')
        c.check(sx.eq_arrays(results[0], results[1]), 'prange kernel: same result for forward and reversed order of the outer iterations')
        c.witness('schedule')
    return run


REPLAY = r'''
import sys, json, itertools, numpy as np
w = json.load(sys.stdin)
import pyiga
from pyiga import assemble, bspline, geometry, vform, compile as pc
bad = []
def kvs_of(cfg): return tuple(bspline.make_knots(p, 0.0, 1.0, n, mult=m) for (p, n, m) in cfg)
def D(X):
    if hasattr(X, 'asmatrix'): X = X.asmatrix()
    return np.asarray(X.toarray() if hasattr(X, 'toarray') else X)
kind = w['kind']
if kind in ('scalar', 'subset', 'schedule', 'vector'):
    kvs = kvs_of(w['cfg0']); dim = len(kvs)
    geo = geometry.unit_square() if dim == 2 else (geometry.unit_cube() if dim == 3 else geometry.line_segment(0.0, 1.0))
    if kind == 'scalar':
        ref = D(assemble.assemble(vform.stiffness_vf(dim), kvs, geo=geo, symmetric=False))
        for fmt in ('csr', 'csc', 'coo'):
            for s in (False, True):
                try:
                    A = D(assemble.assemble(vform.stiffness_vf(dim), kvs, geo=geo, symmetric=s, format=fmt))
                except AssertionError as e:
                    if 'not implemented' in str(e): continue
                    raise
                if not np.allclose(A, ref, rtol=1e-12, atol=1e-14): bad.append('scalar symmetric=%s format=%s' % (s, fmt))
    if kind == 'subset':
        Asm = pc.compile_vform(vform.mass_vf(dim)); asm = Asm(kvs, geo=geo)
        N = int(np.prod([k.numdofs for k in kvs])); ref = D(assemble.assemble(asm, symmetric=False)) if False else None
        full = D(assemble.assemble_entries(asm))
        rng = np.random.RandomState(3)
        idx = np.column_stack((rng.randint(0, N, 50), rng.randint(0, N, 50))).astype(np.uintp)
        for nt in (1, 2, 3, 16):
            pyiga.set_max_threads(nt)
            junk = np.full(50, 7.0); del junk        # recycle memory of the same size with non-zero contents
            out = asm.multi_entries(idx)
            if not np.array_equal(out, full[idx[:, 0], idx[:, 1]]): bad.append('multi_entries threads=%d' % nt)
        pyiga.set_max_threads(1)
    if kind in ('vector', 'schedule'):
        nct, ncs = w.get('nc', [2, 2])
        V = vform.VForm(dim); u, v = V.basisfuns(components=(nct, ncs))
        pick = lambda e, k, n: e if n == 1 else e[k]
        expr = sum((1.0 + r + 2 * c_) * pick(u, c_, nct) * pick(v, r, ncs) for r in range(ncs) for c_ in range(nct))
        V.add(expr * vform.dx)
        results = {}
        for layout in ('packed', 'blocked'):
            for fmt in ('csr', 'bsr', 'mlb'):
                for nt in (1, 4):
                    pyiga.set_max_threads(nt)
                    try:
                        results[(layout, fmt, nt)] = D(assemble.assemble(V, kvs, geo=geo, format=fmt, layout=layout))
                    except Exception as e:
                        bad.append('vector layout=%s format=%s: %s: %s' % (layout, fmt, type(e).__name__, str(e)[:80]))
        pyiga.set_max_threads(1)
        for layout in ('packed', 'blocked'):
            base = results.get((layout, 'csr', 1))
            for k, A in results.items():
                if k[0] == layout and base is not None and (A.shape != base.shape or not np.array_equal(A, base)): bad.append('vector %s differs from csr/1 thread' % (k,))
        if ('packed', 'csr', 1) in results and ('blocked', 'csr', 1) in results:
            P = results[('packed', 'csr', 1)]; B = results[('blocked', 'csr', 1)]
            N1 = P.shape[0] // ncs; N0 = P.shape[1] // nct
            perm_r = [I * ncs + r for r in range(ncs) for I in range(N1)]; perm_c = [J * nct + c_ for c_ in range(nct) for J in range(N0)]
            if not np.array_equal(P[np.ix_(perm_r, perm_c)], B): bad.append('blocked is not the documented permutation of packed')
        if nct == ncs:
            Vs = vform.VForm(dim); u, v = Vs.basisfuns(components=(nct, nct)); Vs.add(vform.inner(u, v) * vform.dx)
            def asm_(**kw):
                try:
                    return D(assemble.assemble(Vs, kvs, geo=geo, **kw))
                except AssertionError as e:
                    if 'not implemented' in str(e): return None
                    bad.append('vector symmetric form %s: AssertionError' % (kw,)); return None
                except Exception as e:
                    bad.append('vector symmetric form %s: %s: %s' % (kw, type(e).__name__, str(e)[:60])); return None
            refs = asm_(format='bsr', layout='packed')
            for fmt in ('csr', 'bsr', 'mlb'):
                for symm in (False, True):
                    A = asm_(format=fmt, layout='packed', symmetric=symm)
                    if A is not None and refs is not None and not np.allclose(A, refs, rtol=1e-12, atol=1e-14): bad.append('vector symmetric=%s format=%s differs' % (symm, fmt))
if kind == 'chunk':
    # the real chunk_tasks on every (length, thread count) of a large range: consecutive slices covering every task exactly once
    from pyiga import assemble_tools_cy as atc_
    for k in range(1, 33):
        for n in list(range(0, 1200)) + [2047, 2048, 4999, 10007, 20000]:
            t = np.arange(n); ch = [np.asarray(c) for c in atc_.chunk_tasks(t, k)]
            if (np.concatenate(ch).tolist() if ch else []) != t.tolist() or any(len(c) == 0 for c in ch) or [len(c) for c in atc_.chunk_tasks(np.zeros(n), k)] != [len(c) for c in ch]:
                bad.append('chunk_tasks(%d tasks, %d chunks): chunks %s do not cover 0..%d exactly once' % (n, k, [len(c) for c in ch], n - 1)); break
        if bad: break
print(json.dumps({'reproduced': bool(bad), 'bad': bad[:8]}))
'''


def main():
    run = Run(PID, level='other', description='Index arithmetic of the assembly drivers (symmetric mirroring, formats, layouts, subsets, chunking) on symbolic entry tables.')
    thorough = run.tier == 'thorough'
    enc = srcload.Encoded()
    from checks import C03
    C03.real_pyiga()
    an, atc, mls = load_code(enc)
    run.add_encoded(enc)
    run.stubs += ['entry_impl -> contract of generated assemblers (C01): writes the symbolic (block) entry for overlapping supports, returns without writing otherwise',
                  'thread pool -> sequential execution of the chunk tasks in forward / reversed / odd-even order; OpenMP prange -> forward and reversed loop',
                  'scipy.sparse -> symsparse (+ real scipy for the integer-valued COO->CSR permutation helper, BSR block placement with scipy\'s block-shape check)',
                  'knot vectors: real pyiga KnotVector objects (concrete)']
    run.assumptions += ['entries are exact reals (summation order inside one entry is sequential in one thread)', 'symmetry contract e[i,j,r,c] = e[j,i,c,r] where symmetric=True is compared',
                        'schedule independence is derived from: disjoint write sets + reads of own writes only (checked) => any interleaving gives the same memory contents']
    run.bounds = {'spaces': '1D-3D, degrees 1-2, 2-3 spans, also two different spaces (Petrov-Galerkin)', 'components': '1..3, square and non-square blocks',
                  'index subsets': '1-2 symbolic pairs (solver-driven forking over all N^2 values each) + fixed corner/duplicate/out-of-pattern pairs', 'threads': '1, 2, 3, 16; chunk orders forward/reverse/odd-even', 'chunk_tasks': 'n <= 40, k <= 16 (forked)'}
    run.out_of_scope += ['the OpenMP runtime and real threads', 'scipy format conversions', 'update()/update_params (C01)', 'bit-level rounding']

    def do(group, h, payload, bound, max_paths=20000):
        st = sx.explore(h, timeout_ms=60000, stop_at_first=False, max_paths=max_paths)
        run.absorb(st, group, bound=bound, sample={'obligation': group, **bound})
        if st.cex:
            names = sorted({cx['name'] for cx in st.cex})
            r = realbuild.run_real(REPLAY, payload, timeout=1800)
            run.report('%s:%s' % (group, ';'.join(sorted({b.split(':')[0][:40] for b in r['bad']}))[:100]), '%s %s: solver: %s; real build: %s' % (group, bound, names[:3], r['bad'][:5]), payload, r['reproduced'])

    c1 = [(1, 3, 1)]; c2 = [(1, 2, 1), (2, 2, 1)]; c2b = [(2, 2, 1), (1, 2, 1)]; c3 = [(1, 2, 1), (1, 1, 1), (1, 2, 1)]
    if run.want('scalar'):
        for cfg0, cfg1 in [(c1, None), (c2, None), (c3, None), ([(2, 3, 2)], None), (c1, [(2, 3, 1)]), (c2, c2b)]:
            do('scalar-driver', scalar_harness(an, atc, cfg0, cfg1), {'kind': 'scalar', 'cfg0': cfg0}, {'trial space': cfg0, 'test space': cfg1 or 'same'})
    if run.want('vector'):
        vcfg = [(c1, None, 2, 2), (c2, None, 2, 2), (c1, None, 2, 3), (c2, None, 3, 1), (c1, [(2, 3, 1)], 2, 2), (c3, None, 2, 2)]
        if thorough: vcfg += [(c2, None, 1, 3), (c2, c2b, 2, 2), (c3, None, 1, 2), ([(2, 2, 1), (1, 2, 1)], None, 3, 3)]
        for cfg0, cfg1, nct, ncs in vcfg:
            do('vector-driver', vector_harness(an, atc, cfg0, cfg1, nct, ncs), {'kind': 'vector', 'cfg0': cfg0, 'nc': [nct, ncs]}, {'trial space': cfg0, 'test space': cfg1 or 'same', 'components (trial, test)': [nct, ncs]})
    if run.want('subset'):
        for cfg0, vec in [(c1, False), (c2, False), (c1, True)] + ([(c3, False), (c2, True)] if thorough else []):
            do('index-subsets', subset_harness(an, atc, cfg0, vec), {'kind': 'subset', 'cfg0': cfg0}, {'space': cfg0, 'vector': vec}, max_paths=200000)
        do('chunking', chunk_harness(atc), {'kind': 'chunk'}, {'n': '0..40', 'k': '1..16'}, max_paths=200000)
    if run.want('schedule'):
        for cfg0, nc in [(c1, 2), (c2, 2), (c3, 1)] + ([(c2, 3)] if thorough else []):
            do('schedule-independence', schedule_harness(an, atc, cfg0, nc), {'kind': 'schedule', 'cfg0': cfg0, 'nc': [nc, nc]}, {'space': cfg0, 'components': nc})

    if not run.args.no_canaries and run.args.only is None:
        def canary(name, file, pat, rep, mk):
            src = open('/repo/' + file).read()
            if file.endswith('.pyx') and pat not in src: src = open('/repo/pyiga/genericasm.pxi').read()
            if pat not in src: run.canary(name, False, skipped=True); return
            key = {'pyiga/assemble.py': 'assemble', 'pyiga/assemble_tools_cy.pyx': 'assemble_tools_cy'}[file]
            a2, t2, m2 = load_code(None, {key: (lambda s: s.replace(pat, rep, 1))})
            st = sx.explore(mk(a2, t2), timeout_ms=60000, max_paths=5000)
            run.canary(name, bool(st.cex))
        canary('symmetric scalar assembly doubles the diagonal', 'pyiga/assemble.py', 'off_diag = np.nonzero(I != J)[0]    # indices of off-diagonal entries', 'off_diag = np.nonzero(I >= J)[0]    # indices of off-diagonal entries',
               lambda a, t: scalar_harness(a, t, c2, None))
        canary('bsr path: mirrored blocks not transposed', 'pyiga/assemble.py', 'blocks_T = np.swapaxes(blocks[off_diag][permut], -1, -2)  # transpose the blocks', 'blocks_T = blocks[off_diag][permut]  # transpose the blocks',
               lambda a, t: vector_harness(a, t, c2, None, 2, 2))
        canary('blocked layout: wrong axis permutation', 'pyiga/assemble.py', 'axes = (dim,) + tuple(range(dim))   # bring last axis to the front', 'axes = tuple(range(dim)) + (dim,)   # bring last axis to the front',
               lambda a, t: vector_harness(a, t, c1, None, 2, 2))
        canary('vector kernel: mirrored block written without transposition', 'pyiga/assemble_tools_cy.pyx', 'entries[transp0[mu0], transp1[mu1], col*numcomp[0] + row] = entries[mu0, mu1, row*numcomp[0] + col]',
               'entries[transp0[mu0], transp1[mu1], row*numcomp[0] + col] = entries[mu0, mu1, row*numcomp[0] + col]', lambda a, t: vector_harness(a, t, c2, None, 2, 2))
        canary('multi_entries: result buffer not zero-initialised', 'pyiga/assemble_tools_cy.pyx', '        _result = np.zeros(idx_arr.shape[0])\n        cdef double[::1] result = _result\n\n        num_threads = pyiga.get_max_threads()\n        if num_threads <= 1:\n            self.multi_entries_chunk(idx_arr, result)',
               '        _result = np.empty(idx_arr.shape[0])\n        cdef double[::1] result = _result\n\n        num_threads = pyiga.get_max_threads()\n        if num_threads <= 1:\n            self.multi_entries_chunk(idx_arr, result)', lambda a, t: subset_harness(a, t, c1, False))
        canary('chunk_tasks: overlapping chunks', 'pyiga/assemble_tools_cy.pyx', 'yield tasks[i:i+n]', 'yield tasks[i:i+n+1]', lambda a, t: chunk_harness(t))
    run.extra['explicitly_rejected_configurations'] = sorted(REJECTED)
    run.finish()


def replay_file(path):
    w = json.load(open(path))['witness']
    r = realbuild.run_real(REPLAY, w, timeout=1800)
    print(json.dumps(r)); print('REPRODUCED' if r['reproduced'] else 'NOT-REPRODUCED')
    sys.exit(1 if r['reproduced'] else 0)


if __name__ == '__main__':
    if '--replay' in sys.argv:
        replay_file(sys.argv[sys.argv.index('--replay') + 1])
    main_wrapper(main)
