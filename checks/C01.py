"""C01 -- compiled assemblers compute exactly the integrand the variational form denotes (per-program translation validation).

Two-step argument (DESIGN 4/C01):
  (A) D[[original form]] = D[[finalised form]] for all environments with independent jets        -> property C06 (same corpus/grammar)
  (B) generated code = sum over the quadrature nodes of D[[finalised form]](sigma env)              -> THIS check
where sigma instantiates the atoms with what the generated assembler really consumes: basis jets are products of univariate jets
(parametric coordinate k <-> knot-vector axis d-1-k), field/geometry jets are the array entries the constructor loads, Gauss weights
the per-axis weights, parameters the constants array.

Encoded per program: the text returned by the real pyiga.compile.generate(vf) (vform.finalize + codegen/cython.py of /repo), transliterated
as a whole class (__init__, update_params, precompute_fields, combine, entry_impl) on top of the transliterated base classes of
assemble_tools_cy.pyx/genericasm.pxi, instantiated SYMBOLICALLY: real KnotVector objects (1-2 spans per axis, mixed degrees), basis jets from
a stub of compute_values_derivs (fresh symbol per (axis, function, node, order), zero outside the function's mesh support), geometry and
input fields as objects whose grid_eval/grid_jacobian/grid_hessian return one symbol per node/component/derivative, symbolic Gauss weights
and parameters.  Oracle: vfsem.eval_finalized (own denotational semantics) at every node.
"""
import itertools, json, os, re, sys, time, traceback
import numpy as np
import z3

from checks.common import Run, main_wrapper, jsonable
from checks import realbuild
from symx import core as sx
from symx.core import Sym, lift
from symx.symnp import SymNP, math_namespace
from symx import srcload
from cyx.load import load_pyx
from vfsem import sem, gen

PID = 'C01'
EXPLICIT = (TypeError, NotImplementedError, ValueError, RuntimeError)


class Unsupported(Exception):
    pass


def digits(D): return ''.join(map(str, D))


def R(name): return Sym(z3.Real(name))


# ------------------------------------------------------------------------------------------------ stubs (environment of the generated class)
class World:
    def __init__(self):
        self.kvname = {}
    def kvid(self, kv):
        return self.kvname.setdefault(id(kv), 'K%d' % len(self.kvname))


def node_tag(idx): return '_'.join(map(str, idx))


class Field:
    """input field / geometry: one symbol per node, component and derivative, named like the vfsem atom + '@node'"""
    def __init__(self, name, shape, sdim, physical=False):
        self.name = name; self.shape = tuple(shape); self.sdim = sdim; self.physical = physical
        self.dim = self.shape[0] if len(self.shape) == 1 else (1 if not self.shape else self.shape)
        self.support = tuple((0.0, 1.0) for _ in range(sdim))
    def _arr(self, grid, derivs):
        N = tuple(len(g) for g in grid)
        out = np.empty(N + self.shape + ((len(derivs),) if derivs is not None else ()), dtype=object)
        for n in np.ndindex(*N):
            for I in np.ndindex(*self.shape) if self.shape else [()]:
                for k, D in enumerate(derivs if derivs is not None else [None]):
                    Dd = digits(D) if D is not None else '0' * self.sdim
                    tag = 'inP' if (self.physical and D is not None and sum(D) > 0) else 'in'
                    nm = '%s_%s_I%s_D%s@%s' % (tag, self.name, '_'.join(map(str, I)), Dd, node_tag(n))
                    idx = n + tuple(I) + ((k,) if derivs is not None else ())
                    out[idx] = R(nm)
        return out
    def grid_eval(self, grid): return self._arr(grid, None)
    def grid_jacobian(self, grid):
        d = self.sdim
        return self._arr(grid, [sem.e1(d, j) for j in range(d)])
    def grid_hessian(self, grid):
        d = self.sdim
        return self._arr(grid, [sem.e2(d, i, j) for i in range(d) for j in range(i, d)])


def make_namespace(atc, world, boundary=None):
    """names the generated module imports, bound to stubs AFTER its body ran"""
    snp = SymNP(ints_object=False)
    def make_tensor_quadrature(meshes, nqp):
        nq = [int(nqp) * (len(m) - 1) for m in meshes]
        grid = tuple(np.arange(n) for n in nq)
        weights = tuple(np.array([R('gw%d@%d' % (k, q)) for q in range(n)] + [None], dtype=object)[:-1] for k, n in enumerate(nq))
        world.nq = nq; world.nqp = int(nqp)
        return grid, weights
    def compute_values_derivs(kv, grid, derivs):
        kid = world.kvid(kv)
        ms = kv.mesh_support_idx_all()
        nqp = world.nqp
        out = np.empty((kv.numdofs, len(grid), derivs + 1), dtype=object); out[...] = 0
        for f in range(kv.numdofs):
            for q in range(len(grid)):
                if ms[f, 0] * nqp <= q < ms[f, 1] * nqp:
                    for k in range(derivs + 1): out[f, q, k] = R('B%s_%d_%d_%d' % (kid, f, q, k))
        return out
    ns = dict(math_namespace())
    ns.update(np=snp, make_tensor_quadrature=make_tensor_quadrature, compute_values_derivs=compute_values_derivs,
              grid_eval=lambda f, grid: f.grid_eval(grid), grid_eval_transformed=lambda f, grid, geo: f.grid_eval(grid))
    return ns


def base_namespace(atc):
    names = ['BaseAssembler1D', 'BaseAssembler2D', 'BaseAssembler3D', 'BaseVectorAssembler1D', 'BaseVectorAssembler2D', 'BaseVectorAssembler3D',
             'IntInterval', 'make_intv', 'intersect_intervals', '_Ptr', '_ptr', '_base', '_CyObject', '_CyStruct', 'prange', '_sint']
    return {k: atc[k] for k in names if k in atc}


# ------------------------------------------------------------------------------------------------ oracle environment
class NodeEnv(sem.Env):
    """vfsem environment at one quadrature node of the symbolic assembler instance"""
    def __init__(self, vfmod, V, node, funcs, world, kvs_by_space, rename=None):
        sem.Env.__init__(self, vfmod, V)
        self.node = tuple(node); self.funcs = funcs; self.world = world; self.kvs_by_space = kvs_by_space
        self.rename = rename or {}
        self.abstract_jacinv = False          # the finalised form's own JacInv expressions are evaluated (same DAG as the code)
        self.record_denoms = False
    def sym(self, name):
        if name in self.atoms: return self.atoms[name]
        d = self.d
        m = re.match(r'^gw(\d+)$', name)
        if m:
            k = int(m.group(1)); t = z3.Real('gw%d@%d' % (k, self.node[k]))
        elif name.startswith('bf_'):
            mm = re.match(r'^bf_(\w+?)(?:_c(\d+))?_D(\d+)$', name)
            bname, comp, Dd = mm.group(1), mm.group(2), mm.group(3)
            D = [int(ch) for ch in Dd]
            space, findex = self.funcs[bname]
            kvs = self.kvs_by_space[space]
            t = None
            for axis in range(d):
                k = D[d - 1 - axis]                 # parametric coordinate c (x = 0) lives on knot-vector axis d-1-c
                kv = kvs[axis]
                f = findex[axis]; q = self.node[axis]
                ms = kv.mesh_support_idx_all()
                if not (ms[f, 0] * self.world.nqp <= q < ms[f, 1] * self.world.nqp):
                    t = z3.RealVal(0); break
                b = z3.Real('B%s_%d_%d_%d' % (self.world.kvid(kv), f, q, k))
                t = b if t is None else t * b
        elif name.startswith('in_') or name.startswith('inP_'):
            nm2 = name
            for old, new in self.rename.items():          # a field that was replaced through update(): its atoms carry the new name
                nm2 = re.sub(r'^(inP?_)%s(_I)' % re.escape(old), lambda mm: mm.group(1) + new + mm.group(2), nm2)
            t = z3.Real(nm2 + '@' + node_tag(self.node))
        elif name.startswith('par_'):
            t = z3.Real(name)
        else:
            raise Unsupported('atom ' + name)
        self.atoms[name] = t
        return t


# ------------------------------------------------------------------------------------------------ one program
def spaces_for(V, variant):
    """real knot vectors for every space of the form; variant selects degrees/spans"""
    from pyiga import bspline
    d = V.dim
    cfgs = [[(1, 1, 1), (2, 1, 1), (1, 2, 1)], [(2, 2, 2), (1, 1, 1), (2, 1, 1)], [(1, 2, 1), (1, 2, 1), (1, 1, 1)]][variant % 3]
    ns = V.num_spaces() if hasattr(V, 'num_spaces') else 1
    out = []
    for s in range(max(ns, 1)):
        kvs = []
        for ax in range(d):
            p, n, m = cfgs[ax % 3]
            if s == 1: p = p + 1            # the second space (test functions) has HIGHER degree on the same mesh
            kvs.append(bspline.make_knots(p, 0.0, 1.0, n, mult=min(m, p)))
        out.append(tuple(kvs))
    return out


def analyse(args):
    spec, variant, atc_cache = args
    t0 = time.time()
    out = {'spec': spec, 'variant': variant, 'queries': {'unsat': 0, 'sat': 0, 'unknown': 0}, 'solver_s': 0.0}
    try:
        from checks import C03
        C03.real_pyiga()
        from pyiga import vform as vf, compile as pc
        try:
            r = gen.make_form(vf, spec)
        except EXPLICIT + (AssertionError, gen.Skip) as e:
            out['status'] = 'reject-build'; out['detail'] = type(e).__name__; return out
        V = r['V']; out['desc'] = r.get('desc', '')
        if V.is_boundary: out['status'] = 'unsupported'; out['detail'] = 'boundary form'; return out
        if V.geo_dim != V.dim: out['status'] = 'unsupported'; out['detail'] = 'surface form'; return out
        try:
            text = pc.generate(V, 'GenAsm')
        except EXPLICIT as e:
            out['status'] = 'reject-generate'; out['detail'] = '%s: %s' % (type(e).__name__, str(e)[:80]); return out
        except AssertionError as e:
            if 'not implemented' in str(e): out['status'] = 'reject-generate'; out['detail'] = 'AssertionError: %s' % str(e)[:80]; return out
            out['status'] = 'crash-generate'; out['detail'] = 'AssertionError: %s' % str(e)[:120]; return out
        except Exception as e:
            out['status'] = 'crash-generate'; out['detail'] = '%s: %s' % (type(e).__name__, str(e)[:120]); return out
        if any(inp.physical and any(v.deriv for v in V.vars.values() if v.src is inp) for inp in V.inputs):
            out['status'] = 'unsupported'; out['detail'] = 'derivatives of a physical field'; return out
        if atc_cache is not None:          # canary: in-memory edit of the generated text (what a code-generator defect would emit)
            pat, rep = atc_cache
            if pat not in text: out['status'] = 'canary-skipped'; return out
            text = text.replace(pat, rep, 1)
        atc = load_atc()
        world = World()
        ns_over = make_namespace(atc, world)
        try:
            mod = load_pyx('<generated %s>' % spec, src=text, pre_ns=base_namespace(atc), overrides=ns_over, name='gen')
        except Exception as e:
            out['status'] = 'harness-error'; out['detail'] = 'transliteration: %s: %s' % (type(e).__name__, str(e)[:200]); return out
        Asm = mod['GenAsm']
        d = V.dim
        kvs_by_space = spaces_for(V, variant)
        twospace = len(kvs_by_space) > 1
        kw = {}
        for inp in V.inputs:
            shape = inp.shape if isinstance(inp.shape, tuple) else ((inp.shape,) if inp.shape else ())
            kw[inp.name] = Field(inp.name, shape, d, physical=inp.physical)
        for par in V.params:
            shape = par.shape if isinstance(par.shape, tuple) else ((par.shape,) if par.shape else ())
            if shape == ():
                kw[par.name] = R('par_%s_I' % par.name)
            else:
                a = np.empty(shape, dtype=object)
                for I in np.ndindex(*shape): a[I] = R('par_%s_I%s' % (par.name, '_'.join(map(str, I))))
                kw[par.name] = a
        try:
            asm = Asm(*kvs_by_space, **kw) if twospace else Asm(kvs_by_space[0], **kw)
        except ValueError as e:
            if 'math domain error' in str(e):
                out['status'] = 'unsupported'; out['detail'] = 'constant subexpression outside the domain of a builtin function (e.g. log(0.0))'; return out
            out['status'] = 'harness-error'; out['detail'] = 'instantiation: ValueError: %s' % str(e)[:200]; return out
        except Exception as e:
            out['status'] = 'harness-error'; out['detail'] = 'instantiation: %s: %s\n%s' % (type(e).__name__, str(e)[:200], traceback.format_exc()[-600:]); return out
        # quadrature: max degree over ALL spaces + 1 nodes per span
        pmax = max(kv.p for kvs in kvs_by_space for kv in kvs)
        problems = []
        if int(asm.nqp) != pmax + 1:
            problems.append('nodes per span = %d, but max degree + 1 = %d (trial degrees %s, test degrees %s)' % (asm.nqp, pmax + 1, [kv.p for kv in kvs_by_space[0]], [kv.p for kv in kvs_by_space[-1]]))
        world_nqp = world.nqp
        arity = V.arity
        bfs = V.basis_funs
        ncomp = len(sem.flat([0 for _ in V.exprs])) if False else None
        kv_u = kvs_by_space[bfs[0].space]
        kv_v = kvs_by_space[bfs[1].space] if arity == 2 else None
        nfun = lambda kvs: [kv.numdofs for kv in kvs]
        # finalised-form values per node (V was finalised by generate())
        nexpr = None
        pairs_checked = 0
        neqs = []; where = []
        I_list = list(itertools.product(*[range(n) for n in (nfun(kv_v) if arity == 2 else nfun(kv_u))]))
        J_list = list(itertools.product(*[range(n) for n in nfun(kv_u)])) if arity == 2 else [None]
        # keep the instance small: all pairs on tiny spaces, else a spread sample
        pairs = [(i, j) for i in I_list for j in J_list]
        if len(pairs) > 40:
            step = max(1, len(pairs) // 40); pairs = pairs[::step][:40]
        upd = [inp for inp in V.inputs if getattr(inp, 'updatable', False)]
        phases = [({}, 'fresh assembler')]
        if upd and hasattr(asm, 'update'):
            phases.append(({inp.name: inp.name + 'UPD' for inp in upd}, 'after update() of the updatable fields'))
        out['phases'] = len(phases)
        for rename, phase in phases:
          if rename:
            try:
                asm.update(**{inp.name: Field(inp.name + 'UPD', inp.shape if isinstance(inp.shape, tuple) else ((inp.shape,) if inp.shape else ()), d, physical=inp.physical) for inp in upd})
            except Exception as e:
                out['status'] = 'violation'; out['which'] = 'update() raised %s: %s' % (type(e).__name__, str(e)[:120]); return out
          for (i, j) in pairs:
              funcs = {bfs[0].name: (bfs[0].space, j if arity == 2 else i)}
              if arity == 2: funcs[bfs[1].name] = (bfs[1].space, i)
              # node range = intersection of the mesh supports (in units of nodes), per axis
              rng = []
              for ax in range(d):
                  lo, hi = 0, world.nq[ax]
                  for nm, (sp, fi) in funcs.items():
                      ms = kvs_by_space[sp][ax].mesh_support_idx_all()
                      lo = max(lo, ms[fi[ax], 0] * world_nqp); hi = min(hi, ms[fi[ax], 1] * world_nqp)
                  rng.append(range(int(lo), int(hi)))
              nodes = list(itertools.product(*rng))
              # code
              size = 64
              result = [None] * size
              Iarr = list(i) + [0]; Jarr = (list(j) + [0]) if j is not None else None
              try:
                  asm.entry_impl(Iarr, Jarr, result)
              except ValueError as e:
                  if 'math domain error' in str(e):
                      out['status'] = 'unsupported'; out['detail'] = 'constant subexpression outside the domain of a builtin function (e.g. log(0.0))'; return out
                  out['status'] = 'violation'; out['which'] = 'entry_impl raised ValueError: %s' % str(e)[:120]; return out
              except Exception as e:
                  out['status'] = 'violation'; out['which'] = 'entry_impl raised %s: %s' % (type(e).__name__, str(e)[:120]); out['pair'] = [list(i), list(j) if j else None]
                  return out
              written = [k for k, v in enumerate(result) if v is not None]
              if not nodes:
                  if written: problems.append('entry (%s,%s) with disjoint supports was written' % (i, j))
                  continue
              tot = None
              for node in nodes:
                  env = NodeEnv(vf, V, node, funcs, world, kvs_by_space, rename)
                  try:
                      vals, pr = sem.eval_finalized(V, env)
                  except NotImplementedError as e:
                      out['status'] = 'sem-unsupported'; out['detail'] = str(e)[:100]; return out
                  problems += [p for p in pr if p not in problems]
                  fl = sem.flat(vals)
                  tot = fl if tot is None else [a + b for a, b in zip(tot, fl)]
              if len(written) != len(tot) or written != list(range(len(tot))):
                  problems.append('entry (%s,%s): %d values written, form has %d components' % (i, j, len(written), len(tot)))
                  continue
              for k, ref in enumerate(tot):
                  got = result[k]
                  g = sx._toreal(lift(got)); rr = ref if z3.is_expr(ref) else sem.rv(ref)
                  if not (z3.is_expr(rr) and g.eq(rr)):
                      neqs.append(g != rr); where.append((i, j, k, phase))
              pairs_checked += 1
        out['pairs'] = pairs_checked
        out['structural'] = problems
        # discharge: entry by entry through the division-free normal form, then the general solver
        from symx import ratnorm
        bad = None
        budget = float(os.environ.get('VERIF_C01_PROGRAM_BUDGET_S', '300' if os.environ.get('VERIF_TIER') == 'thorough' else '150'))
        if spec[0] != 'rand': budget = max(budget, 900.0)          # programs of the fixed corpus are claimed: they get a generous budget
        for q, wh in zip(neqs, where):
            if time.time() - t0 > budget:
                # wall budget per program: the remaining entries stay undecided (never counted as holding)
                out['queries']['unknown'] += 1; out['detail'] = 'per-program wall budget of %g s exhausted' % budget; break
            F, divs = ratnorm.clear([q])
            g = z3.Goal(); g.add(*(F + [dd != 0 for dd in divs]))
            t1 = time.time()
            res = 'unknown'
            try:
                rr = z3.TryFor(z3.Then(z3.With('simplify', som=True), 'solve-eqs', z3.With('simplify', som=True)), 20000).apply(g)
                if len(rr) == 1 and len(rr[0]) == 1 and z3.is_false(rr[0][0]): res = 'unsat'
            except z3.Z3Exception:
                pass
            if res == 'unknown':
                # counterexample search on full random instantiations (every free constant fixed by an equality: the solver only has to evaluate)
                import random
                consts = {}
                def walk(e, seen):
                    if e.get_id() in seen: return
                    seen.add(e.get_id())
                    if z3.is_const(e) and e.decl().kind() == z3.Z3_OP_UNINTERPRETED and z3.is_real(e): consts[e.get_id()] = e
                    for ch in e.children(): walk(ch, seen)
                seen = set()
                for f in F + divs: walk(f, seen)
                rnd = random.Random(17)
                for attempt in range(4):
                    sv = z3.Solver(); sv.set('timeout', 5000); sv.add(*(F + [dd != 0 for dd in divs]))
                    for e in consts.values(): sv.add(e == z3.RealVal('%d/%d' % (rnd.randint(1, 9) * rnd.choice([-1, 1]), rnd.choice([1, 2, 3]))))
                    if sv.check() == z3.sat:
                        res = 'sat'; bad = (wh, sv.model()); break
            if res == 'unknown':
                s = z3.Solver(); s.set('timeout', 15000); s.add(*(F + [dd != 0 for dd in divs]))
                res = str(s.check())
                if res == 'sat': bad = (wh, s.model())
            out['solver_s'] += time.time() - t1
            out['queries'][res] += 1
            if res == 'sat': break
        if not neqs: out['queries']['unsat'] += 1
        if bad is not None:
            out['status'] = 'violation'; out['which'] = 'entry %s component %d differs from the sum of the integrand over the quadrature nodes (%s)' % (bad[0][:2], bad[0][2], bad[0][3]); return out
        if problems:
            out['status'] = 'violation'; out['which'] = '; '.join(problems[:3]); return out
        out['status'] = 'undecided' if out['queries']['unknown'] else 'holds'
        out['wall_s'] = time.time() - t0
        return out
    except Unsupported as e:
        out['status'] = 'unsupported'; out['detail'] = str(e)[:100]; return out
    except Exception as e:
        out['status'] = 'harness-error'; out['detail'] = '%s: %s\n%s' % (type(e).__name__, str(e)[:200], traceback.format_exc()[-800:]); return out


_ATC = [None, None]


def load_atc(transform=None):
    if _ATC[0] is None or _ATC[1] is not transform:
        atc = load_pyx('pyiga/assemble_tools_cy.pyx', transform=transform)
        atc['np'] = SymNP(ints_object=False)
        _ATC[0] = atc; _ATC[1] = transform
    return _ATC[0]


REPLAY = r'''
import sys, json, re, itertools, numpy as np
w = json.load(sys.stdin)
sys.path.insert(0, w['verif'])
from pyiga import vform as vf, compile as pc, bspline, geometry, assemble
from pyiga.quadrature import make_tensor_quadrature
from vfsem import gen, sem
spec = w['spec']; variant = w['variant']
V = gen.make_form(vf, spec)['V']
d = V.dim
cfgs = [[(1, 1, 1), (2, 1, 1), (1, 2, 1)], [(2, 2, 2), (1, 1, 1), (2, 1, 1)], [(1, 2, 1), (1, 2, 1), (1, 1, 1)]][variant % 3]
spaces = []
for s_ in range(max(V.num_spaces(), 1)):
    kvs = []
    for ax in range(d):
        p, n, m = cfgs[ax % 3]
        if s_ == 1: p += 1
        kvs.append(bspline.make_knots(p, 0.0, 1.0, n, mult=min(m, p)))
    spaces.append(tuple(kvs))
rng = np.random.RandomState(2)
kvg = tuple(bspline.make_knots(2, 0.0, 1.0, 1) for _ in range(d))
NG = tuple(kv.numdofs for kv in kvg)
base = geometry.unit_cube(dim=d) if d > 1 else geometry.line_segment(0.0, 1.0)
Cg = np.asarray(base.grid_eval([kv.greville() for kv in kvg])).reshape(NG + (d,)) + 0.07 * rng.rand(*(NG + (d,)))
args = {'geo': bspline.BSplineFunc(kvg, Cg if d > 1 else Cg[..., 0])}       # (1D geometries are scalar-valued in pyiga)
for inp in V.inputs:
    if inp.name == 'geo': continue
    shape = inp.shape if isinstance(inp.shape, tuple) else ((inp.shape,) if inp.shape else ())
    args[inp.name] = bspline.BSplineFunc(kvg, rng.rand(*(NG + shape)) + 0.5)
for par in V.params:
    shape = par.shape if isinstance(par.shape, tuple) else ((par.shape,) if par.shape else ())
    args[par.name] = (rng.rand(*shape) + 0.5) if shape else 1.3
bad = []
try:
    if any(inp.physical for inp in V.inputs): raise RuntimeError('replay does not cover physical input fields')
    kv_arg = spaces[0] if len(spaces) == 1 else tuple(spaces)
    A = assemble.assemble(gen.make_form(vf, spec)['V'], kv_arg, args=dict(args), layout='packed')
    A = A.toarray() if hasattr(A, 'toarray') else np.asarray(A)
    # independent numeric reference: denotation of the ORIGINAL (un-finalised) form at max-degree+1 Gauss nodes per span, real spline data
    pmax = max(kv.p for kvs in spaces for kv in kvs)
    grid, weights = make_tensor_quadrature([kv.mesh for kv in spaces[0]], pmax + 1)
    C = {(s_, ax): [m.toarray() for m in bspline.collocation_derivs(spaces[s_][ax], grid[ax], derivs=2)] for s_ in range(len(spaces)) for ax in range(d)}
    fld = {}
    for nm, f in args.items():
        if hasattr(f, 'grid_eval'):
            fld[nm] = (np.asarray(f.grid_eval(grid)), np.asarray(f.grid_jacobian(grid)), np.asarray(f.grid_hessian(grid)) if (np.isscalar(f.dim) and d > 0) else None)
            if nm == 'geo' and d == 1:
                n0 = len(grid[0]); v_, j_, h_ = fld[nm]
                fld[nm] = (np.asarray(v_).reshape(n0, 1), np.asarray(j_).reshape(n0, 1, 1), None if h_ is None else np.asarray(h_).reshape(n0, 1, 1))
    bfs = V.basis_funs; arity = V.arity
    pairs2 = [(i, j) for i in range(d) for j in range(i, d)]
    def atom(name, node, funcs):
        m = re.match(r'^gw(\d+)$', name)
        if m: k = int(m.group(1)); return weights[k][node[k]]
        if name.startswith('bf_'):
            mm = re.match(r'^bf_(\w+?)(?:_c(\d+))?_D(\d+)$', name); D = [int(ch) for ch in mm.group(3)]
            sp, fi = funcs[mm.group(1)]; v = 1.0
            for ax in range(d): v *= C[(sp, ax)][D[d - 1 - ax]][node[ax], fi[ax]]
            return v
        if name.startswith('in_'):
            mm = re.match(r'^in_(\w+)_I([\d_]*)_D(\d+)$', name); nm = mm.group(1); I = tuple(int(t) for t in mm.group(2).split('_') if t != ''); D = [int(ch) for ch in mm.group(3)]
            val, jac, hes = fld[nm]
            if sum(D) == 0: return val[node + I] if I else val[node]
            if sum(D) == 1: return jac[node + I + (D.index(1),)]
            idx = [k for k, n_ in enumerate(D) for _ in range(n_)]; return hes[node + I + (pairs2.index((idx[0], idx[1])),)]
        if name.startswith('par_'):
            mm = re.match(r'^par_(\w+)_I([\d_]*)$', name); I = tuple(int(t) for t in mm.group(2).split('_') if t != '')
            return np.asarray(args[mm.group(1)])[I] if I else float(args[mm.group(1)])
        raise KeyError(name)
    V0 = gen.make_form(vf, spec)['V']
    nI = [kv.numdofs for kv in spaces[bfs[-1].space if arity == 2 else bfs[0].space]]
    nJ = [kv.numdofs for kv in spaces[bfs[0].space]] if arity == 2 else None
    nodes = list(itertools.product(*[range(len(g)) for g in grid]))
    maxdev = 0.0
    for i in itertools.product(*[range(n) for n in nI]):
        for j in (itertools.product(*[range(n) for n in nJ]) if arity == 2 else [None]):
            funcs = {bfs[0].name: (bfs[0].space, j if arity == 2 else i)}
            if arity == 2: funcs[bfs[1].name] = (bfs[1].space, i)
            tot = None
            for node in nodes:
                env = sem.NumEnv(vf, V0, lambda name, node=node, funcs=funcs: atom(name, node, funcs))
                vals = sem.flat([sem.ev(e, env) for e in V0.exprs])
                tot = vals if tot is None else [a + b for a, b in zip(tot, vals)]
            I = int(np.ravel_multi_index(i, nI))
            if arity == 2:
                J = int(np.ravel_multi_index(j, nJ)); nct = bfs[0].numcomp or 1; ncs = bfs[1].numcomp or 1
                got = [A[I * ncs + r, J * nct + c] for r in range(ncs) for c in range(nct)] if (nct > 1 or ncs > 1) else [A[I, J]]
            else:
                nc = bfs[0].numcomp or 1
                got = list(np.asarray(A).reshape(tuple(nI) + ((nc,) if nc > 1 else ()))[i].reshape(-1))
            for a, b in zip(got, tot): maxdev = max(maxdev, abs(float(a) - float(b)) / (1 + abs(float(b))))
    if maxdev > 1e-9: bad.append('compiled assembler differs from the denotation of the original form at max-degree+1 nodes per span (relative deviation %.3g)' % maxdev)
    # updatable input fields: one Assembler object, fields replaced through update(): must equal a freshly assembled matrix for the new fields
    upd = [inp.name for inp in V.inputs if getattr(inp, 'updatable', False)]
    if upd and arity == 2:
        from pyiga.assemble import Assembler
        asmobj = Assembler(gen.make_form(vf, spec)['V'], kv_arg, updatable=upd, **dict(args))
        A0 = asmobj.assemble(); A0 = A0.toarray() if hasattr(A0, 'toarray') else np.asarray(A0)
        if not np.allclose(A0, A, rtol=1e-10, atol=1e-12): bad.append('Assembler object: first assembly differs from assemble()')
        args2 = dict(args)
        for nm in upd:
            shape = np.asarray(args[nm].coeffs).shape
            args2[nm] = bspline.BSplineFunc(kvg, rng.rand(*shape) + 0.25)
        asmobj.update(**{nm: args2[nm] for nm in upd})
        A1 = asmobj.assemble(); A1 = A1.toarray() if hasattr(A1, 'toarray') else np.asarray(A1)
        Af = assemble.assemble(gen.make_form(vf, spec)['V'], kv_arg, args=dict(args2), layout='packed'); Af = Af.toarray() if hasattr(Af, 'toarray') else np.asarray(Af)
        if not np.allclose(A1, Af, rtol=1e-10, atol=1e-12): bad.append('after update() of %s the reused Assembler differs from a fresh assembly with the new fields (max deviation %.3g)' % (upd, np.abs(A1 - Af).max()))
except Exception as e:
    import traceback
    bad.append('exception %s: %s' % (type(e).__name__, str(e)[:200]))
print(json.dumps({'reproduced': any(not b.startswith('exception') for b in bad) or (bool(bad) and w.get('solver_found_exception', False)), 'bad': bad}))
'''


def main():
    run = Run(PID, level='translation_validation', description='Generated assembler text (transliterated, symbolically instantiated) vs the denotation of the finalised form at every quadrature node.')
    thorough = run.tier == 'thorough'
    from checks import C03
    C03.real_pyiga()
    from pyiga import vform as vf
    enc = srcload.Encoded()
    for fpath in ('pyiga/vform.py', 'pyiga/codegen/cython.py', 'pyiga/compile.py', 'pyiga/assemble_tools_cy.pyx', 'pyiga/genericasm.pxi'):
        src = open(os.path.join('/repo', fpath)).read()
        enc.add(os.path.join('/repo', fpath), '(whole file)', 1, src.count('\n') + 1, src)
    run.add_encoded(enc)
    run.stubs += ['compute_values_derivs -> fresh symbol per (knot vector, function, node, derivative order), zero outside the mesh support (contract of C02 + KnotVector.mesh_support_idx_all of the real class)',
                  'make_tensor_quadrature -> nqp nodes per span with one symbolic weight per node and axis', 'geometry / input fields -> objects returning one symbol per node, component and derivative',
                  'grid_eval / grid_eval_transformed -> the field stub\'s values', 'libc.math functions -> uninterpreted (abs as ite)', 'base assembler classes -> transliterated genericasm.pxi']
    run.assumptions += ['doubles as reals; divisions are cleared (inputs with a vanishing divisor, e.g. det J = 0, are outside the claim)',
                        'step (A) original = finalised is C06; this check covers step (B) generated code = finalised form, and the number of nodes per span',
                        'coordinate convention: parametric coordinate c (x = 0) <-> knot-vector axis d-1-c; field Jacobians/Hessians in coordinate order']
    run.out_of_scope += ['random programs that the solver does not decide within its budget are listed (undecided_random_programs) and not counted', 'that gcc/Cython/the loader accept the generated module (exercised only by the replay of violations)', 'boundary and surface forms, derivatives of physical input fields (listed as unsupported, not counted)',
                         'on-demand (bbox) variants', 'rounding, -ffast-math']
    corpus = [['corpus', name] for name, _ in gen.corpus(vf)]
    ngram = 60 if not thorough else 240
    base = 1000003 * run.seed
    progs = corpus + [['rand', base + k, 2 if k % 4 else 1] for k in range(ngram)]
    jobs = [(spec, (k % 3), None) for k, spec in enumerate(progs)]
    # every two-space form also on the other space configurations
    import multiprocessing as mp
    os.environ['VERIF_TIER'] = run.tier          # (the workers read their per-program wall budget from it)
    with mp.get_context('fork').Pool(12 if thorough else 8) as pool:
        results = pool.map(analyse, jobs, chunksize=2)
    counts = {}
    programs = 0
    for r in results:
        st = r.get('status', 'harness-error')
        counts[st] = counts.get(st, 0) + 1
        if st == 'undecided' and r['spec'][0] == 'rand':
            # a program of the seeded random sample that the solver did not decide in its budget: listed in the evidence, not counted, not a verdict
            # (the fixed corpus is different: an undecided corpus program makes the run inconclusive)
            run.extra.setdefault('undecided_random_programs', []).append({'program': r['spec'], 'desc': r.get('desc', '')[:120]})
            continue
        if st in ('holds', 'violation', 'undecided'):
            programs += 1
            run.record_queries('generated-code-vs-finalised-form', {('%s/%d' % (r['spec'], k)): v for k, v in enumerate(sum(([a] * n for a, n in r['queries'].items()), []))} if False else
                               {'%s' % (r['spec'],): ('unsat' if st == 'holds' else ('sat' if st == 'violation' else 'unknown'))},
                               solver_s=r['solver_s'], bound={'program': r['spec'], 'desc': r.get('desc', '')[:80], 'space variant': r['variant'], 'index pairs': r.get('pairs')},
                               sample={'program': r['spec'], 'desc': r.get('desc', '')[:120], 'status': st})
        if st == 'violation' and run.nreplay >= 3:
            run.extra.setdefault('further_violations_not_replayed', []).append({'program': r['spec'], 'which': r.get('which')})
        elif st == 'violation':
            rp = realbuild.run_real(REPLAY, {'spec': r['spec'], 'variant': r['variant'], 'verif': os.path.dirname(os.path.dirname(os.path.abspath(__file__))),
                                             'solver_found_exception': 'raised' in r.get('which', '')}, timeout=1800)
            run.report('codegen:%s' % (r.get('which', '')[:60]), 'program %s (%s): %s; real build: %s' % (r['spec'], r.get('desc', '')[:80], r.get('which'), rp['bad']), {'spec': r['spec'], 'variant': r['variant']}, rp['reproduced'])
        elif st == 'harness-error':
            run.inconclusive_msg('program %s: %s' % (r['spec'], r.get('detail', '')[:400]))
    if not run.args.no_canaries:
        for name, spec, pat, rep in (('generated kernel reads the wrong univariate table', ['corpus', 'laplace(2)'], 'VDv0[', 'VDv1['),
                                     ('generated constructor uses one Gauss node too few', ['corpus', 'mass_vf(2)'], 'for kv in kvs0]) + 1', 'for kv in kvs0]) + 0'),
                                     ('generated kernel drops the accumulation', ['corpus', 'stiffness_vf(2)'], 'r += ', 'r = '),
                                     ('generated entry_impl intersects the wrong supports', ['corpus', 'two_space(2,mass)'], 'make_intv(self.S1_meshsupp1[i[1],0], self.S1_meshsupp1[i[1],1])', 'make_intv(self.S0_meshsupp1[i[1],0], self.S0_meshsupp1[i[1],1])')):
            r = analyse((spec, 1, (pat, rep)))
            run.canary(name, r.get('status') == 'violation', skipped=(r.get('status') == 'canary-skipped'))
    run.extra['programs'] = programs
    run.extra['status_counts'] = counts
    run.extra['unsupported'] = [{'program': r['spec'], 'why': r.get('detail')} for r in results if r.get('status') in ('unsupported', 'sem-unsupported')][:40]
    run.extra['undecided'] = [r['spec'] for r in results if r.get('status') == 'undecided'][:40]
    run.paths = programs
    run.bounds = {'programs': len(progs), 'spaces': '1-2 spans per axis, degrees 1-3, repeated knots, second space one degree higher', 'index pairs': 'all (<= 40 per program)',
                  'nodes': 'all quadrature nodes in the support intersection'}
    run.finish()


if __name__ == '__main__':
    main_wrapper(main)
