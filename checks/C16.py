"""C16 -- linear-operator building blocks equal their dense definitions.

Encoded (exec'd from source; the scipy LinearOperator base class is the real one): pyiga/operators.py
NullOperator, IdentityOperator, DiagonalOperator, KroneckerOperator, BaseBlockOperator, _sizes_to_ranges,
BlockDiagonalOperator, BlockOperator, SubspaceOperator; pyiga/kronecker.py apply_kronecker,
_apply_kronecker_linops, _apply_kronecker_dense; pyiga/tensor.py apply_tprod, _modek_tensordot_sparse,
modek_tprod, matricize.  Operands: dense object arrays, symsparse matrices, abstract LinearOperators
with symbolic matrices; arguments: vectors, (n,1) and multi-column arrays.
"""
import itertools, json, sys
import numpy as np
import scipy.sparse.linalg
import z3

from checks.common import Run, main_wrapper, jsonable
from checks import realbuild
from symx import core as sx
from symx.core import Sym, lift
from symx.symnp import SymNP
from symx.symsparse import sparse_facade, SpMat
from symx import srcload

PID = 'C16'


class _NS:
    def __init__(self, **kw): self.__dict__.update(kw)


class LinOp(scipy.sparse.linalg.LinearOperator):
    """abstract operator with a symbolic matrix (what scipy.sparse.linalg.aslinearoperator(M) denotes)"""
    def __init__(self, M):
        self.M = np.asarray(M, dtype=object)
        super().__init__(shape=self.M.shape, dtype=np.dtype(object))
    def _matvec(self, x): return self.M.dot(np.asarray(x, dtype=object).ravel())
    def _matmat(self, X): return self.M.dot(np.asarray(X, dtype=object))
    def _transpose(self): return LinOp(self.M.T)
    def _adjoint(self): return LinOp(self.M.T)


def load_code(enc=None, transforms=None):
    transforms = transforms or {}
    snp = SymNP(int_dtype_model=True)      # integer-typed argument vectors keep numpy's integer semantics (truncating stores)
    real_sc = _NS(sparse=_NS(linalg=_NS(LinearOperator=scipy.sparse.linalg.LinearOperator,
                                       aslinearoperator=lambda B: B if isinstance(B, scipy.sparse.linalg.LinearOperator) else LinOp(B.toarray() if hasattr(B, 'toarray') else B)),
                             issparse=lambda x: isinstance(x, SpMat)))
    tn = {'np': snp, 'scipy': real_sc}
    srcload.load_defs('pyiga/tensor.py', ['apply_tprod', '_modek_tensordot_sparse', 'modek_tprod', 'matricize'], tn, encoded=enc, transform=transforms.get('tensor'))
    kn = {'np': snp, 'scipy': real_sc, 'tensor': _NS(**{k: tn[k] for k in ('apply_tprod',)})}
    srcload.load_defs('pyiga/kronecker.py', ['apply_kronecker', '_apply_kronecker_linops', '_apply_kronecker_dense'], kn, encoded=enc, transform=transforms.get('kronecker'))
    on = {'np': snp, 'scipy': real_sc, 'kronecker': _NS(**{k: kn[k] for k in ('_apply_kronecker_linops', '_apply_kronecker_dense', 'apply_kronecker')}), 'range': range}
    srcload.load_defs('pyiga/operators.py', ['NullOperator', 'IdentityOperator', 'DiagonalOperator', 'KroneckerOperator', 'BaseBlockOperator', '_sizes_to_ranges',
                                             'BlockDiagonalOperator', 'BlockOperator', 'SubspaceOperator'] + (['_adjoint_of'] if '_adjoint_of' in srcload.read('pyiga/operators.py') else []), on, encoded=enc, transform=transforms.get('operators'))
    return on, kn, tn


def wrap(M, kind):
    if kind == 'dense': return M
    if kind == 'sparse': return SpMat(M, 'csr')
    return LinOp(M)


def args_for(n, c, tag):
    """vector, (n,1) column and multi-column arguments"""
    v = sx.symarray(tag + 'v', (n,)); col = sx.symarray(tag + 'c', (n, 1)); mat = sx.symarray(tag + 'm', (n, 2))
    return [('vector', v), ('column', col), ('2 columns', mat)]


def apply_all(c, op, D, label, kinds=('vector', 'column', '2 columns'), check_T=True, check_H=True):
    """op acts like the dense matrix D on every argument kind; so do op.T and op.H"""
    D = np.asarray(D, dtype=object)
    m, n = D.shape
    for nm, x in args_for(n, c, 'x'):
        if nm not in kinds: continue
        y = op.dot(x)
        c.check(sx.eq_arrays(np.asarray(y, dtype=object).reshape(-1), D.dot(x).reshape(-1)) if np.asarray(y).size == D.dot(x).size else z3.BoolVal(False),
                '%s . x = dense matrix . x  (%s)' % (label, nm))
    for attr, on in (('T', check_T), ('H', check_H)):
        if not on: continue
        opT = getattr(op, attr)
        for nm, x in args_for(m, c, 'y'):
            if nm not in kinds: continue
            y = opT.dot(x)
            c.check(sx.eq_arrays(np.asarray(y, dtype=object).reshape(-1), D.T.dot(x).reshape(-1)) if np.asarray(y).size == D.T.dot(x).size else z3.BoolVal(False),
                    '%s.%s . y = dense transpose . y  (%s)' % (label, attr, nm))


def basic_harness(on):
    def run(c):
        d = sx.symarray('d', (3,))
        apply_all(c, on['DiagonalOperator'](d), np.diag(d), 'DiagonalOperator')
        apply_all(c, on['DiagonalOperator'](d.reshape(3, 1)), np.diag(d), 'DiagonalOperator(column diag)', kinds=('vector',))
        apply_all(c, on['IdentityOperator'](3), np.eye(3, dtype=int).astype(object), 'IdentityOperator')
        Z = np.zeros((2, 3), dtype=int).astype(object)
        apply_all(c, on['NullOperator']((2, 3)), Z, 'NullOperator')
        c.witness('basic')
    return run


def kron_harness(on, kn, shapes, kinds):
    def run(c):
        Ms = [sx.symarray('K%d' % i, s) for i, s in enumerate(shapes)]
        ops = [wrap(M, k) for M, k in zip(Ms, kinds)]
        D = Ms[0]
        for M in Ms[1:]: D = np.kron(D, M)
        K = on['KroneckerOperator'](*ops)
        if K.shape != D.shape:
            c.check(z3.BoolVal(False), 'KroneckerOperator shape'); return
        apply_all(c, K, D, 'KroneckerOperator%s%s' % (list(shapes), list(kinds)))
        # functional interface
        if all(s[0] == s[1] for s in shapes) or all(k == 'dense' for k in kinds):
            x = sx.symarray('z', (D.shape[1],))
            y = kn['apply_kronecker'](ops, x)
            c.check(sx.eq_arrays(np.asarray(y, dtype=object).ravel(), D.dot(x)), 'apply_kronecker = dense Kronecker product')
            # an INTEGER-typed argument (e.g. an indicator vector): the result is still the exact product
            from symx.symnp import IntArr
            xi = sx.symarray('zi', (D.shape[1],), sort='int').view(IntArr)
            yi = kn['apply_kronecker'](ops, xi)
            c.check(sx.eq_arrays(np.asarray(yi, dtype=object).ravel(), D.dot(np.asarray(xi.view(np.ndarray), dtype=object))), 'apply_kronecker with an integer-typed argument vector = dense Kronecker product')
        c.witness('kron')
    return run


def block_harness(on, layout):
    """layout: list of rows; entries (m, n, kind) or None / 'null'"""
    def run(c):
        rows = []; Drows = []
        for i, row in enumerate(layout):
            r = []; Dr = []
            for j, e in enumerate(row):
                m, n, kind = e
                if kind in ('none', 'null'):
                    Dr.append(np.zeros((m, n), dtype=int).astype(object))
                    r.append(None if kind == 'none' else on['NullOperator']((m, n)))
                else:
                    M = sx.symarray('B%d%d' % (i, j), (m, n)); Dr.append(M); r.append(wrap(M, kind))
            rows.append(r); Drows.append(np.hstack(Dr))
        D = np.vstack(Drows)
        # the first row/column must carry shapes: BlockOperator reads ops[i][0].shape / ops[0][j].shape
        B = on['BlockOperator'](rows)
        if B.shape != D.shape:
            c.check(z3.BoolVal(False), 'BlockOperator shape'); return
        apply_all(c, B, D, 'BlockOperator%s' % [[e[2] for e in row] for row in layout])
        c.witness('block')
    return run


def blockdiag_harness(on, shapes, kinds):
    def run(c):
        Ms = [sx.symarray('D%d' % i, s) for i, s in enumerate(shapes)]
        D = np.zeros((sum(s[0] for s in shapes), sum(s[1] for s in shapes)), dtype=int).astype(object)
        i = j = 0
        for M in Ms:
            D[i:i + M.shape[0], j:j + M.shape[1]] = M; i += M.shape[0]; j += M.shape[1]
        B = on['BlockDiagonalOperator'](*[wrap(M, k) for M, k in zip(Ms, kinds)])
        apply_all(c, B, D, 'BlockDiagonalOperator%s' % list(shapes))
        c.witness('blockdiag')
    return run


def subspace_harness(on, n, sub, kinds):
    def run(c):
        Ps = [sx.symarray('P%d' % i, (n, k)) for i, k in enumerate(sub)]
        Bs = [sx.symarray('S%d' % i, (k, k)) for i, k in enumerate(sub)]
        D = sum(P.dot(B).dot(P.T) for P, B in zip(Ps, Bs))
        S = on['SubspaceOperator']([wrap(P, 'dense' if kd == 'dense' else 'sparse') for P, kd in zip(Ps, kinds)], [wrap(B, kd) for B, kd in zip(Bs, kinds)])
        apply_all(c, S, D, 'SubspaceOperator', kinds=('vector', 'column'))
        c.witness('subspace')
    return run


def tprod_harness(tn, shapes, kinds, trailing):
    """apply_tprod with None placeholders and trailing axes; modek_tprod; matricize"""
    def run(c):
        ops = []; Ms = []
        for i, (s, k) in enumerate(zip(shapes, kinds)):
            if k == 'none':
                ops.append(None); Ms.append(np.eye(s[1], dtype=int).astype(object))
            else:
                M = sx.symarray('T%d' % i, s); Ms.append(M); ops.append(wrap(M, k))
        in_shape = tuple(s[1] for s in shapes) + trailing
        A = sx.symarray('A', in_shape)
        Y = tn['apply_tprod'](ops, A)
        # oracle: contract each leading axis with its matrix
        ref = A
        for ax, M in enumerate(Ms):
            ref = np.moveaxis(np.tensordot(M, ref, axes=([1], [ax])), 0, ax)
        c.check(sx.eq_arrays(np.asarray(Y, dtype=object), ref), 'apply_tprod = mode-wise products (None = identity, trailing axes untouched)')
        for k in range(len(shapes)):
            if ops[k] is None: continue
            Yk = tn['modek_tprod'](ops[k], k, A)
            refk = np.moveaxis(np.tensordot(Ms[k], A, axes=([1], [k])), 0, k)
            c.check(sx.eq_arrays(np.asarray(Yk, dtype=object), refk), 'modek_tprod = mode-k product')
            Mk = tn['matricize'](A, k)
            refm = np.moveaxis(A, k, 0)
            # matricize uses swapaxes(0,k): rows indexed by axis k; columns enumerate the remaining axes with axis 0 in place of k
            c.check(z3.BoolVal(Mk.shape == (A.shape[k], A.size // A.shape[k])), 'matricize shape')
            sw = np.swapaxes(A, 0, k).reshape(A.shape[k], -1)
            c.check(sx.eq_arrays(Mk, sw), 'matricize = mode-k unfolding')
        c.witness('tprod')
    return run


REPLAY = r'''
import sys, json, numpy as np, scipy.sparse, scipy.sparse.linalg
w = json.load(sys.stdin)
from pyiga import operators as O, kronecker, tensor
rng = np.random.RandomState(4)
def wrap(M, kind):
    if kind == 'dense': return M
    if kind == 'sparse': return scipy.sparse.csr_matrix(M)
    return scipy.sparse.linalg.aslinearoperator(M)
bad = []
def test(op, D, label, kinds=('vector', 'column', '2 columns')):
    m, n = D.shape
    for attr, Dm, k in ((None, D, n), ('T', D.T, m), ('H', D.T, m)):
        for nm, x in (('vector', rng.rand(k)), ('column', rng.rand(k, 1)), ('2 columns', rng.rand(k, 2))):
            if nm not in kinds: continue
            try:
                o = op if attr is None else getattr(op, attr)
                y = np.asarray(o.dot(x))
                if y.size != (Dm @ x).size or not np.allclose(y.reshape(-1), (Dm @ x).reshape(-1)):
                    bad.append('%s%s (%s): wrong result' % (label, '.' + attr if attr else '', nm))
            except Exception as e:
                bad.append('%s%s (%s): %s: %s' % (label, '.' + attr if attr else '', nm, type(e).__name__, str(e)[:60]))
kind = w['kind']
if kind == 'basic':
    d = rng.rand(3)
    test(O.DiagonalOperator(d), np.diag(d), 'DiagonalOperator'); test(O.IdentityOperator(3), np.eye(3), 'IdentityOperator'); test(O.NullOperator((2, 3)), np.zeros((2, 3)), 'NullOperator')
elif kind == 'kron':
    Ms = [rng.rand(*s) for s in w['shapes']]; D = Ms[0]
    for M in Ms[1:]: D = np.kron(D, M)
    test(O.KroneckerOperator(*[wrap(M, k) for M, k in zip(Ms, w['kinds'])]), D, 'KroneckerOperator')
    if all(s[0] == s[1] for s in w['shapes']) or all(k == 'dense' for k in w['kinds']):
        from pyiga import kronecker
        ops_ = [wrap(M, k) for M, k in zip(Ms, w['kinds'])]
        for nm, xv in (('float', rng.rand(D.shape[1])), ('integer', np.arange(1, D.shape[1] + 1)), ('integer 2 columns', np.arange(2 * D.shape[1]).reshape(D.shape[1], 2))):
            y = np.asarray(kronecker.apply_kronecker(ops_, xv))
            if not np.allclose(y.reshape(np.shape(D @ xv)), D @ xv): bad.append('apply_kronecker with a %s argument differs from the dense Kronecker product' % nm)
elif kind == 'blockdiag':
    Ms = [rng.rand(*s) for s in w['shapes']]
    import scipy.linalg
    test(O.BlockDiagonalOperator(*[wrap(M, k) for M, k in zip(Ms, w['kinds'])]), scipy.linalg.block_diag(*Ms), 'BlockDiagonalOperator')
elif kind == 'block':
    rows = []; Dr = []
    for row in w['layout']:
        r = []; dr = []
        for (m, n, k) in row:
            if k in ('none', 'null'):
                dr.append(np.zeros((m, n))); r.append(None if k == 'none' else O.NullOperator((m, n)))
            else:
                M = rng.rand(m, n); dr.append(M); r.append(wrap(M, k))
        rows.append(r); Dr.append(np.hstack(dr))
    test(O.BlockOperator(rows), np.vstack(Dr), 'BlockOperator')
elif kind == 'subspace':
    Ps = [rng.rand(w['n'], k) for k in w['sub']]; Bs = [rng.rand(k, k) for k in w['sub']]
    D = sum(P @ B @ P.T for P, B in zip(Ps, Bs))
    test(O.SubspaceOperator([wrap(P, 'dense' if kd == 'dense' else 'sparse') for P, kd in zip(Ps, w['kinds'])], [wrap(B, kd) for B, kd in zip(Bs, w['kinds'])]), D, 'SubspaceOperator', kinds=('vector', 'column'))
elif kind == 'tprod':
    ops = []; Ms = []
    for s_, k in zip(w['shapes'], w['kinds']):
        if k == 'none': ops.append(None); Ms.append(np.eye(s_[1]))
        else:
            M = rng.rand(*s_); Ms.append(M); ops.append(wrap(M, k))
    A = rng.rand(*(tuple(s_[1] for s_ in w['shapes']) + tuple(w['trailing'])))
    ref = A
    for ax, M in enumerate(Ms):
        ref = np.moveaxis(np.tensordot(M, ref, axes=([1], [ax])), 0, ax)
    try:
        Y = np.asarray(tensor.apply_tprod(ops, A))
        if Y.shape != ref.shape or not np.allclose(Y, ref): bad.append('apply_tprod: wrong result')
    except Exception as e:
        bad.append('apply_tprod: %s: %s' % (type(e).__name__, str(e)[:60]))
    for k_, op in enumerate(ops):
        if op is None: continue
        try:
            Yk = np.asarray(tensor.modek_tprod(op, k_, A)); refk = np.moveaxis(np.tensordot(Ms[k_], A, axes=([1], [k_])), 0, k_)
            if Yk.shape != refk.shape or not np.allclose(Yk, refk): bad.append('modek_tprod: wrong result')
        except Exception as e:
            bad.append('modek_tprod: %s' % type(e).__name__)
print(json.dumps({'reproduced': bool(bad), 'bad': bad[:8]}))
'''


# ------------------------------------------------------------------------------------------------ CSR row slices / subsets
class StubCSR:
    """what utils.CSRRowSlice/CSRRowSubset use of a scipy CSR matrix: indptr/indices (concrete pattern) and data (symbolic)"""
    def __init__(self, dense_pattern, tag='a'):
        m, n = dense_pattern.shape
        self.shape = (m, n); self.dtype = np.dtype(object)
        indptr = [0]; indices = []; data = []
        self.dense = np.empty((m, n), dtype=object); self.dense[...] = 0
        for i in range(m):
            for j in range(n):
                if dense_pattern[i, j]:
                    indices.append(j); v = Sym(z3.Real('%s_%d_%d' % (tag, i, j))); data.append(v); self.dense[i, j] = v
            indptr.append(len(indices))
        self.indptr = np.array(indptr, dtype=np.int32); self.indices = np.array(indices, dtype=np.int32)
        self.data = np.array(data + [None], dtype=object)[:-1]


def _full_indptr(Ap, n_row):
    """C semantics of passing `indptr[r:r+1]` as a pointer: the callee reads n_row+1 entries starting there"""
    if len(Ap) >= n_row + 1: return Ap
    base = Ap.base
    ofs = (Ap.__array_interface__['data'][0] - base.__array_interface__['data'][0]) // Ap.itemsize
    return base[ofs:ofs + n_row + 1]


def _csr_matvecs(M, N, n_vecs, Ap, Aj, Ax, X, Y):
    Ap = _full_indptr(Ap, M)
    for i in range(M):
        for k in range(int(Ap[i]), int(Ap[i + 1])):
            for v in range(n_vecs):
                Y[i * n_vecs + v] = Y[i * n_vecs + v] + Ax[k] * X[int(Aj[k]) * n_vecs + v]


def _csr_matvec(M, N, Ap, Aj, Ax, x, y):
    Ap = _full_indptr(Ap, M)
    for i in range(M):
        for k in range(int(Ap[i]), int(Ap[i + 1])):
            y[i] = y[i] + Ax[k] * x[int(Aj[k])]


def load_rows(enc=None, transform=None):
    sc = _NS(sparse=_NS(csr_matrix=StubCSR, _sparsetools=_NS(csr_matvecs=_csr_matvecs, csr_matvec=_csr_matvec)))
    ns = {'np': SymNP(), 'scipy': sc}
    srcload.load_defs('pyiga/utils.py', ['CSRRowSlice', 'CSRRowSubset'], ns, encoded=enc, transform=transform)
    return ns


def rows_harness(rn, pattern, K):
    """row slices [r0, r1) with symbolic bounds and row subsets of K symbolic rows (any order, repetitions allowed) of a CSR matrix with symbolic data"""
    def run(c):
        A = StubCSR(np.array(pattern)); m, n = A.shape
        x = sx.symarray('x', (n,)); X = sx.symarray('X', (n, 2))
        full = A.dense.dot(x); fullX = A.dense.dot(X)
        r0 = Sym(z3.Int('r0')); r1 = Sym(z3.Int('r1'))
        c.assume(z3.And(r0.t >= 0, r0.t <= r1.t, r1.t <= m))
        a, b = int(r0), int(r1)
        S = rn['CSRRowSlice'](A, (a, b))
        c.check(z3.And(z3.BoolVal(S.shape == (b - a, n)), sx.eq_arrays(np.asarray(S.dot(x), dtype=object), full[a:b]), sx.eq_arrays(np.asarray(S.dot(X), dtype=object), fullX[a:b])),
                'CSRRowSlice(A, (r0, r1)) . x = rows r0..r1-1 of A x (vector and 2 columns)')
        rows = []
        for k in range(K):
            rk = Sym(z3.Int('row%d' % k)); c.assume(z3.And(rk.t >= 0, rk.t < m)); rows.append(int(rk))
        for form in (list(rows), np.array(rows, dtype=int)):
            T = rn['CSRRowSubset'](A, form)
            c.check(z3.And(z3.BoolVal(T.shape == (K, n)), sx.eq_arrays(np.asarray(T.dot(x), dtype=object), full[np.array(rows, dtype=int)] if K else full[:0])),
                    'CSRRowSubset(A, rows) . x = (A x)[rows] for every row list (unsorted, repeated)')
        c.witness('rows')
    return run


REPLAY_ROWS = r"""
import sys, json, itertools, numpy as np, scipy.sparse
w = json.load(sys.stdin)
from pyiga import utils
rng = np.random.RandomState(1)
A = scipy.sparse.random(9, 7, density=0.5, format='csr', random_state=rng); x = rng.rand(7); X = rng.rand(7, 2)
bad = []
for a in range(10):
    for b in range(a, 10):
        S = utils.CSRRowSlice(A, (a, b))
        if not np.allclose(S.dot(x), (A @ x)[a:b]) or not np.allclose(S.dot(X), (A @ X)[a:b]): bad.append('CSRRowSlice (%d,%d)' % (a, b)); break
for rows in itertools.chain(itertools.product(range(9), repeat=3), [[3, 5, 4, 6], [7, 7, 8], [8, 7, 6, 5], [2, 4, 4, 3, 6], [0, 2, 1], []]):
    rows = list(rows)
    T = utils.CSRRowSubset(A, rows)
    try:
        if not np.allclose(T.dot(x), (A @ x)[rows] if rows else np.zeros(0)): bad.append('CSRRowSubset %s' % rows)
    except Exception as e:
        bad.append('CSRRowSubset %s: %s' % (rows, type(e).__name__))
    if len(bad) > 5: break
print(json.dumps({'reproduced': bool(bad), 'bad': bad[:6]}))
"""


def main():
    run = Run(PID, level='other', description='Operator classes and Kronecker/tensor-product application routines against explicit dense definitions on symbolic operands.')
    thorough = run.tier == 'thorough'
    enc = srcload.Encoded()
    on, kn, tn = load_code(enc)
    run.add_encoded(enc)
    run.stubs += ['np allocation -> object arrays', 'sparse operands -> symsparse dense-object model', 'abstract operands -> scipy LinearOperator subclass with a symbolic matrix',
                  'scipy.sparse.linalg.LinearOperator base class: the real scipy class (dispatch of dot/T/H)']
    run.assumptions += ['reals for doubles (real dtypes: adjoint = transpose)']
    run.out_of_scope += ['make_solver / make_kronecker_solver / fastdiag_solver (LAPACK, SuperLU, eigh behind FFI): not applicable',
                         'more than 3 factors, shapes > 3']
    run.bounds = {'factors': '1..3', 'shapes': '<= 3 per factor (square and rectangular)', 'operand kinds': 'dense / sparse / abstract operator', 'arguments': 'vector, (n,1), 2 columns'}
    jobs = []
    jobs.append(('basic', basic_harness(on), {'kind': 'basic'}))
    kron_cfgs = [([(2, 2)], ['dense']), ([(2, 3)], ['sparse']), ([(2, 2), (2, 2)], ['dense', 'dense']), ([(2, 3), (3, 2)], ['dense', 'dense']),
                 ([(2, 2), (3, 3)], ['sparse', 'sparse']), ([(2, 2), (2, 2)], ['linop', 'sparse']), ([(2, 3), (1, 2)], ['sparse', 'sparse']),
                 ([(2, 1), (2, 2), (1, 2)], ['dense', 'dense', 'dense']), ([(2, 2), (1, 1), (2, 2)], ['linop', 'dense', 'sparse']),
                 # rectangular factors whose Kronecker product happens to be square, non-dense operands
                 ([(2, 3), (3, 2)], ['sparse', 'sparse']), ([(3, 2), (2, 3)], ['linop', 'dense']), ([(2, 3), (3, 2), (2, 2)], ['sparse', 'dense', 'linop'])]
    if thorough:
        kron_cfgs += [([(3, 2), (2, 3)], ['linop', 'linop']), ([(2, 2), (2, 2), (2, 2)], ['sparse', 'sparse', 'sparse']), ([(3, 3), (2, 2)], ['dense', 'linop']),
                      ([(1, 3), (3, 1)], ['dense', 'sparse']), ([(2, 2), (3, 2)], ['sparse', 'dense'])]
    for shapes, kinds in kron_cfgs:
        jobs.append(('kron', kron_harness(on, kn, shapes, kinds), {'kind': 'kron', 'shapes': [list(s) for s in shapes], 'kinds': kinds}))
    bd = [([(2, 2), (1, 1)], ['dense', 'dense']), ([(2, 3), (1, 2)], ['sparse', 'linop']), ([(1, 2), (2, 1), (1, 1)], ['dense', 'sparse', 'dense'])]
    for shapes, kinds in bd:
        jobs.append(('blockdiag', blockdiag_harness(on, shapes, kinds), {'kind': 'blockdiag', 'shapes': [list(s) for s in shapes], 'kinds': kinds}))
    layouts = [[[(2, 2, 'dense'), (2, 1, 'sparse')], [(1, 2, 'linop'), (1, 1, 'null')]],
               [[(1, 2, 'dense'), (1, 2, 'dense')], [(2, 2, 'sparse'), (2, 2, 'none')]],
               [[(2, 1, 'dense')], [(1, 1, 'dense')]], [[(1, 2, 'sparse'), (1, 1, 'null'), (1, 2, 'dense')]]]
    for lay in layouts:
        jobs.append(('block', block_harness(on, lay), {'kind': 'block', 'layout': lay}))
    for (n, sub, kinds) in [(3, [2], ['dense']), (3, [1, 2], ['dense', 'sparse']), (3, [2, 2], ['linop', 'dense'])]:
        jobs.append(('subspace', subspace_harness(on, n, sub, kinds), {'kind': 'subspace', 'n': n, 'sub': sub, 'kinds': kinds}))
    tp = [([(2, 2), (2, 3)], ['dense', 'dense'], ()), ([(2, 2), (3, 2)], ['sparse', 'none'], ()), ([(2, 3), (2, 2)], ['dense', 'linop'], (2,)),
          ([(2, 2), (1, 2), (2, 1)], ['none', 'dense', 'sparse'], ()), ([(3, 2)], ['sparse'], (2, 1)),
          # identity placeholders TOGETHER with trailing axes (vector-valued coefficients / several right-hand sides), distinct sizes everywhere
          ([(2, 2), (3, 4)], ['none', 'dense'], (5,)), ([(3, 2), (4, 4)], ['sparse', 'none'], (2,)), ([(2, 2), (3, 3), (2, 4)], ['none', 'none', 'dense'], (3, 2)),
          ([(3, 3)], ['none'], (2,))]
    for shapes, kinds, tr in tp:
        jobs.append(('tprod', tprod_harness(tn, shapes, kinds, tr), {'kind': 'tprod', 'shapes': [list(s) for s in shapes], 'kinds': kinds, 'trailing': list(tr)}))
    for grp, h, w in jobs:
        if not run.want(grp): continue
        st = sx.explore(h, timeout_ms=60000, stop_at_first=False)
        run.absorb(st, grp, bound={k: v for k, v in w.items() if k != 'kind'}, sample={'obligation': grp, **w})
        if st.cex:
            names = sorted({cx['name'] for cx in st.cex})
            if grp == 'tprod':
                r = realbuild.run_real(REPLAY, w, only=[])
                run.report('tensor:' + names[0][:40], '%s fails for %s; real run: %s' % (names, w, r['bad']), w, r['reproduced'])
            else:
                r = realbuild.run_real(REPLAY, w, only=[])
                # key: which class / which route (T, H, plain)
                fam = {('.H' in b) for b in r['bad']}
                key = '%s:%s' % (grp, 'adjoint' if r['bad'] and all('.H' in b for b in r['bad']) else 'apply')
                run.report(key, '%s: solver: %s; real run: %s' % (w, names[:4], r['bad']), w, r['reproduced'])
    if run.want('rows'):
        enc4 = srcload.Encoded(); rn = load_rows(enc4); run.add_encoded(enc4)
        run.stubs += ['scipy.sparse._sparsetools.csr_matvec(s) -> their documented loops (C pointer semantics of a one-element indptr slice emulated through the base array)',
                      'scipy.sparse.csr_matrix -> record with concrete indptr/indices and symbolic data']
        for pattern, K in [([[1, 0, 1], [0, 1, 1], [1, 1, 0], [0, 0, 1]], 3), ([[1, 1], [0, 0], [1, 0], [0, 1], [1, 1]], 3)] + ([([[1, 0, 1, 1], [0, 1, 0, 0], [1, 1, 1, 0], [0, 0, 0, 1], [1, 0, 0, 1], [0, 1, 1, 0]], 4)] if thorough else []):
            st = sx.explore(rows_harness(rn, pattern, K), timeout_ms=60000, stop_at_first=False, max_paths=100000)
            run.absorb(st, 'csr-rows', bound={'matrix': '%dx%d pattern' % (len(pattern), len(pattern[0])), 'row subset size': K}, sample={'obligation': 'CSRRowSlice / CSRRowSubset', 'rows': K})
            if st.cex:
                r = realbuild.run_real(REPLAY_ROWS, {}, only=[])
                run.report('utils.CSRRow*:%s' % ','.join(sorted({b.split(' ')[0] for b in r['bad']})), 'solver: %s; real run: %s' % (sorted({cx['name'] for cx in st.cex})[:2], r['bad'][:4]), {'kind': 'rows'}, r['reproduced'])
    if not run.args.no_canaries:
        def canary(name, file, pat, rep, harness_fn):
            src = srcload.read('pyiga/%s.py' % file)
            if pat not in src: run.canary(name, False, skipped=True); return
            on2, kn2, tn2 = load_code(transforms={file: lambda s: s.replace(pat, rep, 1)})
            st = sx.explore(harness_fn(on2, kn2, tn2), timeout_ms=30000)
            run.canary(name, bool(st.cex))
        canary('kronecker linops: factor order', 'kronecker', 'for i in reversed(range(len(ops))):\n        sz_i = ops[i].shape[1]', 'for i in range(len(ops)):\n        sz_i = ops[i].shape[1]',
               lambda o, k, t: kron_harness(o, k, [(2, 2), (3, 3)], ['sparse', 'sparse']))
        canary('block operator: transposed ranges', 'operators', "return BaseBlockOperator(shape_T, tuple(op.T for op in self.ops),\n                self.ran_in, self.ran_out)", "return BaseBlockOperator(shape_T, tuple(op.T for op in self.ops),\n                self.ran_out, self.ran_in)",
               lambda o, k, t: blockdiag_harness(o, [(2, 3), (1, 2)], ['dense', 'dense']))
        canary('apply_tprod: identity placeholder axis', 'tensor', 'A = np.rollaxis(A, n-1, 0)   # bring this axis to the front', 'A = A   # bring this axis to the front',
               lambda o, k, t: tprod_harness(t, [(2, 2), (3, 2)], ['sparse', 'none'], ()))
        canary('subspace transpose ignores flag', 'operators', 'y += P_j.dot(self.Bs[j].T.dot(P_j.T.dot(x)))', 'y += P_j.dot(self.Bs[j].dot(P_j.T.dot(x)))',
               lambda o, k, t: subspace_harness(o, 3, [2], ['dense']))
    run.finish()


def replay_file(path):
    w = json.load(open(path))['witness']
    r = realbuild.run_real(REPLAY_ROWS if w.get('kind') == 'rows' else REPLAY, w, only=[])
    print(json.dumps(r)); print('REPRODUCED' if r['reproduced'] else 'NOT-REPRODUCED')
    sys.exit(1 if r['reproduced'] else 0)


if __name__ == '__main__':
    if '--replay' in sys.argv:
        replay_file(sys.argv[sys.argv.index('--replay') + 1])
    main_wrapper(main)
