"""Replay support: run counterexamples on the REAL pyiga build.

The compiled extensions in /repo are git-ignored build products; if a .pyx/.pxi/.cc is newer than
its .so (e.g. a patch was applied), the .so no longer corresponds to the working tree.  In that
case the package is copied to a scratch directory outside /repo and /verif, the stale extensions
are rebuilt there with the flags of /repo/setup.py, and replay subprocesses import that copy.
The scratch directory is removed at exit.
"""
import atexit, glob, os, shutil, subprocess, sys, tempfile, json

REPO = os.environ.get('VERIF_REPO', '/repo')
VERIF = os.path.dirname(os.path.dirname(os.path.abspath(__file__)))

EXT_SOURCES = {
    'bspline_cy': ['bspline_cy.pyx'],
    'lowrank_cy': ['lowrank_cy.pyx'],
    'mlmatrix_cy': ['mlmatrix_cy.pyx'],
    'assemble_tools_cy': ['assemble_tools_cy.pyx', 'genericasm.pxi'],
    'assemblers': ['assemblers.pyx', 'assemble_tools_cy.pyx', 'genericasm.pxi'],
    'fast_assemble_cy': ['fast_assemble_cy.pyx', 'fastasm.cc', 'fast_assemble_cy.pxd'],
    'relaxation_cy': ['relaxation_cy.pyx'],
}

_scratch = None


def stale_extensions():
    out = []
    for mod, srcs in EXT_SOURCES.items():
        sos = glob.glob(os.path.join(REPO, 'pyiga', mod + '.*.so'))
        if not sos:
            out.append(mod); continue
        so_m = max(os.path.getmtime(s) for s in sos)
        for s in srcs:
            p = os.path.join(REPO, 'pyiga', s)
            if os.path.exists(p) and os.path.getmtime(p) > so_m:
                out.append(mod); break
    return out


def _cleanup():
    global _scratch
    if _scratch and os.path.isdir(_scratch):
        shutil.rmtree(_scratch, ignore_errors=True)
    _scratch = None


def real_pythonpath(only=None):
    """-> PYTHONPATH prefix under which `import pyiga` gives code matching /repo's working tree"""
    global _scratch
    stale = stale_extensions()
    if only is not None:
        stale = [m for m in stale if m in only]
    if not stale:
        return REPO
    if _scratch is None:
        _scratch = tempfile.mkdtemp(prefix='verif_realbuild_', dir='/tmp')
        atexit.register(_cleanup)
        dst = os.path.join(_scratch, 'pyiga')
        shutil.copytree(os.path.join(REPO, 'pyiga'), dst,
                        ignore=shutil.ignore_patterns('__pycache__', '*.c', '*.cpp', '*.html'))
        shutil.copy(os.path.join(REPO, 'setup.py'), _scratch)
        # remove the stale .so files so that nothing can import them
        for m in stale:
            for s in glob.glob(os.path.join(dst, m + '.*.so')):
                os.unlink(s)
        # build only the stale extensions
        setup = open(os.path.join(_scratch, 'setup.py')).read()
        setup = setup.replace('ext_modules = cythonize(extensions,',
                              'ext_modules = cythonize([e for e in extensions if e.name.split(".")[-1] in %r],' % stale)
        with open(os.path.join(_scratch, 'setup.py'), 'w') as f:
            f.write(setup)
        r = subprocess.run([os.path.join(VERIF, '.venv', 'bin', 'python'), 'setup.py', 'build_ext', '--inplace', '-j', '8'],
                           cwd=_scratch, capture_output=True, text=True)
        if r.returncode != 0:
            raise RuntimeError('scratch rebuild of %s failed:\n%s' % (stale, r.stderr[-3000:]))
        shutil.rmtree(os.path.join(_scratch, 'build'), ignore_errors=True)
    return _scratch


_CACHE_HOME = None
def _cache_home():
    global _CACHE_HOME
    if _CACHE_HOME is None:
        import atexit, tempfile
        _CACHE_HOME = tempfile.mkdtemp(prefix='verif_pyiga_cache_')
        atexit.register(shutil.rmtree, _CACHE_HOME, ignore_errors=True)
    return _CACHE_HOME


def run_real(code, payload, timeout=600, only=None):
    """run python `code` (a script reading JSON from stdin, printing JSON to stdout as last line) against
    the real build"""
    pp = real_pythonpath(only)
    env = dict(os.environ)
    env['PYTHONPATH'] = pp + os.pathsep + VERIF
    env.pop('PYIGA_VERIF', None)
    # pyiga's on-disk cache of compiled assembler modules (platformdirs user cache) is keyed by the form hash only: a module compiled
    # from an earlier state of the tree would be reused.  Every checking process gets its own empty cache directory.
    env['XDG_CACHE_HOME'] = _cache_home()
    r = subprocess.run([os.path.join(VERIF, '.venv', 'bin', 'python'), '-c', code], input=json.dumps(payload),
                       capture_output=True, text=True, env=env, timeout=timeout, cwd='/tmp')
    if r.returncode != 0:
        raise RuntimeError('replay subprocess failed: %s' % r.stderr[-3000:])
    last = [l for l in r.stdout.strip().splitlines() if l.strip()][-1]
    return json.loads(last)
