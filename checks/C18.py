"""C18 -- low-rank tensor formats are faithful to the full tensor they represent.

Encoded: pyiga/tensor.py (whole module exec'd from source, np -> symnp, scipy.sparse -> symsparse):
CanonicalTensor, TuckerTensor, TensorSum, TensorProd, CanonicalOperator, join_tucker_bases,
_normalize_indices, outer, array_outer, pad, apply_tprod; pyiga/lowrank.py TensorGenerator
(__getitem__, asarray, entry, compute_entries, matrix_at); pyiga/lowrank_cy.pyx rank_1_update,
aca3d_update (transliterated); pyiga/utils.py multi_kron_sparse, cartesian_product.
Obligation: every operation commutes with expansion to the full array (homomorphism), for symbolic entries.
"""
import itertools, json, sys, types
import numpy as np
import z3

from checks.common import Run, main_wrapper, jsonable
from checks import realbuild
from symx import core as sx
from symx.core import Sym, lift
from symx.symnp import SymNP
from symx.symsparse import sparse_facade, SpMat
from symx import srcload
from cyx.load import load_pyx

PID = 'C18'


class _NS:
    def __init__(self, **kw): self.__dict__.update(kw)


def load_code(enc=None, transform=None):
    snp = SymNP(ints_object=False)
    sc = _NS(sparse=sparse_facade(), linalg=_NS())
    un = {'np': snp, 'scipy': sc}
    srcload.load_defs('pyiga/utils.py', ['multi_kron_sparse', 'cartesian_product'], un, encoded=enc)
    T = srcload.load_module('pyiga/tensor.py', 'tensor_sym', encoded=enc, transform=transform)
    T.np = snp; T.scipy = sc; T.utils = _NS(**{k: un[k] for k in ('multi_kron_sparse', 'cartesian_product')})
    ln = {'np': snp, 'tensor': T, 'utils': T.utils}
    srcload.load_defs('pyiga/lowrank.py', ['TensorGenerator'], ln, encoded=enc)
    cy = load_pyx('pyiga/lowrank_cy.pyx', encoded=enc)
    return T, ln['TensorGenerator'], cy


def A(T, x):
    return np.asarray(T.asarray(x), dtype=object)


def eq(a, b):
    a = np.asarray(a, dtype=object); b = np.asarray(b, dtype=object)
    return sx.eq_arrays(a, b)


def canon(T, name, shape, R):
    return T.CanonicalTensor([sx.symarray('%s%d' % (name, j), (n, R)) for j, n in enumerate(shape)])


def tucker(T, name, shape, ranks):
    return T.TuckerTensor([sx.symarray('%sU%d' % (name, j), (n, r)) for j, (n, r) in enumerate(zip(shape, ranks))], sx.symarray(name + 'X', tuple(ranks)))


def mats(name, shape_out, shape_in, kinds):
    out = []
    for j, (m, n, k) in enumerate(zip(shape_out, shape_in, kinds)):
        if k == 'none': out.append(None); continue
        M = sx.symarray('%s%d' % (name, j), (m, n))
        out.append(M if k == 'dense' else SpMat(M))
    return out


def dense_tprod(ops, X):
    ref = X
    for ax, M in enumerate(ops):
        if M is None: continue
        Md = M.toarray() if hasattr(M, 'toarray') else M
        ref = np.moveaxis(np.tensordot(Md, ref, axes=([1], [ax])), 0, ax)
    return ref


def algebra_harness(T, shape, R1, R2, ranks):
    d = len(shape)

    def run(c):
        C1 = canon(T, 'a', shape, R1); C2 = canon(T, 'b', shape, R2)
        K1 = tucker(T, 't', shape, ranks); K2 = tucker(T, 's', shape, tuple(reversed(ranks)) if len(set(ranks)) > 1 else ranks)
        full = sx.symarray('F', shape)
        a1, a2, k1, k2 = A(T, C1), A(T, C2), A(T, K1), A(T, K2)
        # canonical / Tucker definitions
        ref = np.zeros(shape, dtype=int).astype(object)
        for r in range(R1):
            ref = ref + T.outer(*[X[:, r] for X in C1.Xs]) if d > 1 else ref + C1.Xs[0][:, r]
        c.check(eq(a1, ref), 'CanonicalTensor.asarray = sum of outer products of the factor columns')
        c.check(eq(k1, dense_tprod(list(K1.Us), K1.X)), 'TuckerTensor.asarray = core multiplied by the basis matrices along every mode')
        c.check(eq(A(T, C1 + C2), a1 + a2), 'canonical + canonical')
        c.check(eq(A(T, C1 - C2), a1 - a2), 'canonical - canonical')
        c.check(eq(A(T, -C1), -a1), '-canonical')
        c.check(eq(A(T, K1 + K2), k1 + k2), 'tucker + tucker')
        c.check(eq(A(T, K1 - K2), k1 - k2), 'tucker - tucker')
        c.check(eq(A(T, -K1), -k1), '-tucker')
        c.check(eq(A(T, C1 + K1), a1 + k1), 'canonical + tucker')
        c.check(eq(A(T, K1 + C1), a1 + k1), 'tucker + canonical')
        c.check(eq(A(T, K1 - C1), k1 - a1), 'tucker - canonical')
        c.check(eq(C1 + full, a1 + full), 'canonical + ndarray')
        c.check(eq(K1 + full, k1 + full), 'tucker + ndarray')
        c.check(eq(A(T, T.TuckerTensor.from_tensor(C1)), a1), 'TuckerTensor.from_tensor(canonical)')
        c.check(eq(A(T, T.TuckerTensor.from_tensor(full)), full), 'TuckerTensor.from_tensor(ndarray)')
        c.check(eq(A(T, C1.copy()), a1) , 'copy')
        U, X1, X2 = T.join_tucker_bases(K1, K2)
        c.check(z3.And(eq(A(T, T.TuckerTensor(U, X1)), k1), eq(A(T, T.TuckerTensor(U, X2)), k2)), 'join_tucker_bases represents both tensors in the joint basis')
        S = T.TensorSum(C1, K1, full)
        c.check(eq(A(T, S), a1 + k1 + full), 'TensorSum.asarray')
        c.check(eq(A(T, S + C2), a1 + k1 + full + a2), 'TensorSum + tensor')
        c.check(eq(A(T, S - C2), a1 + k1 + full - a2), 'TensorSum - tensor')
        c.check(eq(A(T, -T.TensorSum(C1, K1)), -(a1 + k1)), '-TensorSum')
        terms = list(C1.terms())
        if terms:
            c.check(eq(A(T, T.CanonicalTensor.from_terms(terms)), a1), 'from_terms(terms()) round trip')
        # norm^2 = sum of squares (argument of the square root)
        nv = C1.norm()
        arg = lift(nv).arg(0) if z3.is_app(lift(nv)) and lift(nv).decl().name() == 'uf_sqrt' else None
        c.check(arg == z3.Sum([lift(v) * lift(v) for v in a1.ravel()]) if arg is not None else z3.BoolVal(False), 'canonical norm^2 = sum of squared entries')
        c.check(eq(A(T, T.CanonicalTensor.zeros(shape)), np.zeros(shape, dtype=int)), 'zeros')
        c.check(eq(A(T, T.CanonicalTensor.ones(shape)), np.ones(shape, dtype=int)), 'ones')
        c.check(eq(A(T, T.TuckerTensor.zeros(shape)), np.zeros(shape, dtype=int)), 'tucker zeros')
        c.check(eq(C1.ravel(), a1.ravel()), 'ravel')
        c.witness('algebra')
    return run


def tucker_to_canonical_harness(T, shape, ranks):
    def run(c):
        K = tucker(T, 't', shape, ranks)
        # from_tensor drops core entries with |a| <= 1e-15 ("to rounding"): assume entries are 0 or of size >= 1
        for v in K.X.ravel(): c.assume(z3.Or(lift(v) >= 1, lift(v) <= -1))
        Cn = T.CanonicalTensor.from_tensor(K)
        c.check(eq(A(T, Cn), A(T, K)), 'CanonicalTensor.from_tensor(tucker)')
        c.witness('t2c')
    return run


def nway_harness(T, shape, R, ranks, out_shape, kinds):
    def run(c):
        C = canon(T, 'a', shape, R); K = tucker(T, 't', shape, ranks); full = sx.symarray('F', shape)
        ops = mats('M', out_shape, shape, kinds)
        for nm, X in (('canonical', C), ('tucker', K), ('sum', T.TensorSum(C, K))):
            Y = T.apply_tprod(ops, X)
            c.check(eq(A(T, Y), dense_tprod(ops, A(T, X))), 'apply_tprod/nway_prod commutes with asarray (%s)' % nm)
        short = ops[:-1]
        if all(o is not None for o in short[:1]):
            Y = C.nway_prod(short)
            c.check(eq(A(T, Y), dense_tprod(short + [None], A(T, C))), 'nway_prod with fewer operators than axes')
        # padding
        pw = [(1, 0), None] + [(0, 2)] * (len(shape) - 2) if len(shape) >= 2 else [(1, 1)]
        P = T.pad(C, pw)
        refp = np.pad(A(T, C), [(0, 0) if w is None else w for w in pw], 'constant')
        c.check(eq(A(T, P), refp), 'pad commutes with asarray')
        c.witness('nway')
    return run


def tensorprod_harness(T):
    def run(c):
        C = canon(T, 'a', (2, 2), 2); v = sx.symarray('v', (3,)); K = tucker(T, 't', (2,), (1,))
        P = T.TensorProd(C, v, K)
        ref = np.multiply.outer(np.multiply.outer(A(T, C), v), A(T, K))
        c.check(eq(A(T, P), ref), 'TensorProd.asarray = outer product of the factors')
        c.check(eq(A(T, -P), -ref), '-TensorProd')
        ops = mats('M', (1, 2, 2, 3), (2, 2, 3, 2), ('dense', 'none', 'sparse', 'dense'))
        c.check(eq(A(T, T.apply_tprod(ops, P)), dense_tprod(ops, ref)), 'TensorProd.nway_prod')
        c.check(eq(A(T, P + P), ref + ref), 'TensorProd + TensorProd')
        c.check(eq(A(T, P[1, :, ::2, 0]), ref[1, :, ::2, 0]), 'TensorProd indexing')
        c.check(lift(P[1, 0, 2, 1]) == lift(ref[1, 0, 2, 1]), 'TensorProd scalar indexing')
        c.witness('tprod')
    return run


def index_harness(T, kind, shape):
    """one axis gets a symbolic slice / int / list index (concretised by forking), the others fixed representatives"""
    d = len(shape)
    mode = z3.Int('mode'); ax = z3.Int('ax')
    st, sp, sk, iv = z3.Int('start'), z3.Int('stop'), z3.Int('step'), z3.Int('iv')
    others = z3.Int('others')

    def run(c):
        X = canon(T, 'a', shape, 2) if kind == 'canonical' else (tucker(T, 't', shape, (2,) * d) if kind == 'tucker' else None)
        if kind == 'sum': X = T.TensorSum(canon(T, 'a', shape, 1), tucker(T, 't', shape, (1,) * d))
        full = A(T, X)
        c.assume(z3.And(ax >= 0, ax < d, mode >= 0, mode <= 3, others >= 0, others <= 2))
        a = Sym(ax).__index__(); n = shape[a]; md = Sym(mode).__index__(); oth = Sym(others).__index__()
        if md == 0:      # int index, negative allowed
            c.assume(z3.And(iv >= -n, iv < n)); ik = Sym(iv).__index__()
        elif md == 1:    # slice with optional start/stop/step in [-3,3]; 4 encodes None
            c.assume(z3.And(st >= -3, st <= 4, sp >= -3, sp <= 4, sk >= -2, sk <= 3, sk != 0))
            s0, s1, s2 = Sym(st).__index__(), Sym(sp).__index__(), Sym(sk).__index__()
            ik = slice(None if s0 == 4 else s0, None if s1 == 4 else s1, None if s2 == 3 else s2)
        elif md == 2:    # index list (with repetition)
            c.assume(z3.And(iv >= 0, iv < n)); q = Sym(iv).__index__()
            ik = [q, (q + 1) % n, q]
        else:
            ik = slice(None)
        I = []
        for k in range(d):
            if k == a: I.append(ik)
            else: I.append([slice(None), 0, slice(None, None, -1)][oth] if oth != 1 or k != (a + 1) % d else -1)
        if md == 3:
            I = I[:max(1, d - 1)]       # missing trailing axes
        I = tuple(I)
        try:
            Y = X[I]
        except (IndexError, ValueError) as e:
            # must agree with numpy on what is an invalid index
            try:
                full[tuple(np.asarray(i) if isinstance(i, list) else i for i in I)]
                c.check(z3.BoolVal(False), 'index %r rejected but valid for ndarray' % (I,))
            except (IndexError, ValueError):
                pass
            return
        # numpy semantic for several list indices differs (broadcast); we use at most one list
        ref = full[tuple(np.asarray(i) if isinstance(i, list) else i for i in I)]
        if np.isscalar(Y) or isinstance(Y, Sym):
            c.check(z3.BoolVal(np.ndim(ref) == 0) if not isinstance(ref, Sym) and np.ndim(ref) else lift(Y) == lift(ref), 'scalar index returns the entry')
        else:
            ya = A(T, Y)
            c.check(eq(ya, ref), '%s[%r] commutes with asarray' % (kind, I))
    return run


def operator_harness(T):
    def run(c):
        def term(tag, shapes): return tuple(sx.symarray('%s%d' % (tag, j), s) for j, s in enumerate(shapes))
        sh = [(2, 2), (2, 3)]
        Aop = T.CanonicalOperator([term('p', sh), term('q', sh)]); Bop = T.CanonicalOperator([term('r', sh)])
        def dense(op):
            D = None
            for t in op.terms:
                K = t[0] if not hasattr(t[0], 'toarray') else t[0].toarray()
                for M in t[1:]: K = np.kron(K, M if not hasattr(M, 'toarray') else M.toarray())
                D = K if D is None else D + K
            return D
        DA, DB = dense(Aop), dense(Bop)
        X = sx.symarray('X', (2, 3)); Xc = canon(T, 'x', (2, 3), 2)
        c.check(eq(np.asarray(Aop.apply(X), dtype=object).ravel(), DA.dot(X.ravel())), 'CanonicalOperator.apply = Kronecker-sum matrix times vec(X)')
        c.check(eq(A(T, Aop.apply(Xc)).ravel(), DA.dot(A(T, Xc).ravel())), 'CanonicalOperator.apply on a canonical tensor')
        c.check(eq(dense(Aop + Bop), DA + DB), 'operator +'); c.check(eq(dense(Aop - Bop), DA - DB), 'operator -'); c.check(eq(dense(-Aop), -DA), 'operator neg')
        c.check(eq(dense(Aop.T), DA.T), 'operator transpose')
        Cop = T.CanonicalOperator([term('s', [(2, 2), (3, 1)])])
        c.check(eq(dense(Aop * Cop), DA.dot(dense(Cop))), 'operator composition')
        c.check(eq(dense(Aop @ Cop), DA.dot(dense(Cop))), 'operator @ operator')
        c.check(eq(np.asarray(Aop @ X, dtype=object).ravel(), DA.dot(X.ravel())), 'operator @ tensor')
        c.check(eq(dense(Aop.kron(Bop)), np.kron(DA, DB)), 'operator kron')
        Sq = T.CanonicalOperator([term('u', [(3, 3), (2, 2)])])
        sl = Sq.slice([(1, 3), (0, 1)])
        ref = T.CanonicalOperator([tuple(M[l0:l1, l0:l1] for M, (l0, l1) in zip(Sq.terms[0], [(1, 3), (0, 1)]))])
        c.check(eq(dense(sl), dense(ref)), 'operator slice')
        Asp = T.CanonicalOperator([tuple(SpMat(M) for M in t) for t in Aop.terms])
        c.check(eq(Asp.asmatrix().toarray(), DA), 'asmatrix (sparse terms)')
        E = T.CanonicalOperator.eye((2, 3))
        c.check(eq(np.asarray(E.apply(X), dtype=object), X), 'eye')
        c.witness('operator')
    return run


def generator_harness(T, TG, shape):
    d = len(shape)
    st, sp, sk = z3.Int('start'), z3.Int('stop'), z3.Int('step')

    def run(c):
        E = sx.symarray('e', shape)
        calls = []
        G = TG(shape, entryfunc=lambda I: E[tuple(int(i) for i in I)])
        # compute_entries uses np.empty(n) (float buffer) -> symnp gives an object buffer
        c.check(eq(G.asarray(), E), 'TensorGenerator.asarray returns exactly the wrapped entries')
        c.assume(z3.And(st >= -2, st <= 3, sp >= -2, sp <= 3, sk >= -2, sk <= 3, sk != 0))
        s0, s1, s2 = Sym(st).__index__(), Sym(sp).__index__(), Sym(sk).__index__()
        ik = slice(None if s0 == 3 else s0, None if s1 == 3 else s1, None if s2 == 3 else s2)
        for I in [(ik,) + (slice(None),) * (d - 1), (0,) * (d - 1) + (ik,), (ik,), tuple([-1] * d), ([0, shape[0] - 1, 0],) + (slice(None),) * (d - 1)]:
            try:
                Y = G[I]
            except (IndexError, ValueError):
                continue
            ref = E[tuple(np.asarray(i) if isinstance(i, list) else i for i in I)]
            c.check(eq(Y, ref) if np.ndim(ref) else lift(np.asarray(Y, dtype=object).ravel()[0]) == lift(ref), 'TensorGenerator[%r] = entries of the wrapped array' % (I,))
        if d == 3:
            M = G.matrix_at((1, 0, 1), (0, 2))
            c.check(eq(M.asarray(), E[:, 0, :]), 'matrix_at')
    return run


def update_kernels_harness(cy):
    def run(c):
        X = sx.symarray('X', (2, 3)); u = sx.symarray('u', (2,)); v = sx.symarray('v', (3,)); al = Sym(z3.Real('alpha'))
        Y = X.copy(); cy['rank_1_update'](Y, al, u, v)
        c.check(eq(Y, X + al * np.multiply.outer(u, v)), 'rank_1_update: X += alpha u v^T')
        Z = sx.symarray('Z', (2, 2, 3)); V = sx.symarray('V', (2, 3)); Z2 = Z.copy()
        cy['aca3d_update'](Z2, al, u, V)
        c.check(eq(Z2, Z + al * np.multiply.outer(u, V)), 'aca3d_update: X += alpha u (x) V')
    return run


REPLAY = r'''
import sys, json, numpy as np
w = json.load(sys.stdin)
from pyiga import tensor as T, lowrank
rng = np.random.RandomState(6)
bad = []
def chk(name, a, b):
    try:
        if not np.allclose(np.asarray(a, dtype=float), np.asarray(b, dtype=float)): bad.append(name)
    except Exception as e: bad.append(name + ' (%s)' % type(e).__name__)
shape = tuple(w.get('shape', (2, 3)))
C1 = T.CanonicalTensor([rng.rand(n, 2) for n in shape]); C2 = T.CanonicalTensor([rng.rand(n, 1) for n in shape])
K1 = T.TuckerTensor([rng.rand(n, 2) for n in shape], rng.rand(*([2] * len(shape)))); K2 = T.TuckerTensor([rng.rand(n, 1) for n in shape], rng.rand(*([1] * len(shape))))
a1, a2, k1, k2 = (T.asarray(x) for x in (C1, C2, K1, K2))
try:
    chk('canonical + canonical', T.asarray(C1 + C2), a1 + a2); chk('canonical - canonical', T.asarray(C1 - C2), a1 - a2)
    chk('tucker + tucker', T.asarray(K1 + K2), k1 + k2); chk('tucker - tucker', T.asarray(K1 - K2), k1 - k2)
    chk('tucker - canonical', T.asarray(K1 - C1), k1 - a1); chk('canonical + tucker', T.asarray(C1 + K1), a1 + k1)
    chk('from_tensor', T.asarray(T.CanonicalTensor.from_tensor(K1)), k1)
    U, X1, X2 = T.join_tucker_bases(K1, K2); chk('join', T.asarray(T.TuckerTensor(U, X1)), k1); chk('join2', T.asarray(T.TuckerTensor(U, X2)), k2)
    chk('norm', C1.norm() ** 2, (a1 ** 2).sum())
    S = T.TensorSum(C1, K1); chk('sum', T.asarray(S - C2), a1 + k1 - a2); chk('negsum', T.asarray(-S), -(a1 + k1))
    import itertools
    for X, full, nm in ((C1, a1, 'canonical'), (K1, k1, 'tucker'), (S, a1 + k1, 'sum')):
        for ax in range(len(shape)):
            for ik in [0, -1, slice(None, None, -1), slice(1, None), slice(None, -1), slice(-2, None, 2), [0, shape[ax] - 1, 0], slice(0, 0)]:
                I = tuple(ik if k == ax else slice(None) for k in range(len(shape)))
                try:
                    Y = X[I]; ref = full[tuple(np.asarray(i) if isinstance(i, list) else i for i in I)]
                    chk('%s index %r' % (nm, I), T.asarray(Y) if not np.isscalar(Y) else Y, ref)
                except Exception as e:
                    bad.append('%s index %r: %s' % (nm, I, type(e).__name__))
    Ms = [rng.rand(2, n) for n in shape]
    ref = a1
    for ax, M in enumerate(Ms): ref = np.moveaxis(np.tensordot(M, ref, axes=([1], [ax])), 0, ax)
    chk('nway', T.asarray(T.apply_tprod(Ms, C1)), ref)
    chk('pad', T.asarray(T.pad(C1, [(1, 0)] + [None] * (len(shape) - 1))), np.pad(a1, [(1, 0)] + [(0, 0)] * (len(shape) - 1)))
    A1 = T.CanonicalOperator([(rng.rand(2, 2), rng.rand(2, 3)), (rng.rand(2, 2), rng.rand(2, 3))])
    DA = sum(np.kron(t[0], t[1]) for t in A1.terms); X = rng.rand(2, 3)
    chk('op apply', A1.apply(X).ravel(), DA @ X.ravel()); chk('op T', sum(np.kron(t[0], t[1]) for t in A1.T.terms), DA.T)
    E = rng.rand(2, 3, 2); G = lowrank.TensorGenerator.from_array(E)
    chk('gen asarray', G.asarray(), E); chk('gen slice', G[::-1, 1:, 0], E[::-1, 1:, 0]); chk('gen neg', G[-1, -1, -1], E[-1, -1, -1])
except Exception as e:
    bad.append('exception %s: %s' % (type(e).__name__, e))
print(json.dumps({'reproduced': bool(bad), 'bad': bad[:10]}))
'''


def main():
    run = Run(PID, level='other', description='Homomorphism of tensor-format operations with expansion to the full array, on symbolic entries.')
    thorough = run.tier == 'thorough'
    enc = srcload.Encoded()
    T, TG, cy = load_code(enc)
    run.add_encoded(enc)
    run.stubs += ['np allocation -> object arrays', 'scipy.sparse.lil_matrix/eye/kron -> symsparse', 'np.sqrt -> uninterpreted function (norm checked on its argument)']
    run.assumptions += ['reals for doubles', 'Tucker->canonical conversion: core entries are 0 or |a| >= 1 (the code prunes |a| <= 1e-15)']
    run.out_of_scope += ['orthogonalize / compress / truncate / hosvd (QR, SVD through LAPACK)', 'als / gta / aca convergence and tolerance guarantees (data-dependent pivoting on floats)',
                         'order > 3, chains longer than the composed obligations']
    run.bounds = {'order': '1..3', 'shapes': 'axes of length 1..3 incl. singleton axes', 'ranks': '0..2', 'index expressions': 'ints (negative), slices with start/stop/step in [-3,3] or None, index lists, missing trailing axes - by forking'}
    jobs = []
    jobs.append(('algebra', algebra_harness(T, (2, 3), 2, 1, (2, 1)), {'shape': [2, 3]}))
    jobs.append(('algebra', algebra_harness(T, (2, 1, 2), 1, 0, (1, 1, 2)), {'shape': [2, 1, 2], 'note': 'singleton axis, rank-0 term'}))
    jobs.append(('algebra', algebra_harness(T, (3,), 2, 1, (2,)), {'shape': [3]}))
    jobs.append(('t2c', tucker_to_canonical_harness(T, (2, 2), (2, 1)), {'shape': [2, 2]}))
    jobs.append(('nway', nway_harness(T, (2, 3), 2, (1, 2), (3, 1), ('dense', 'sparse')), {'shape': [2, 3]}))
    jobs.append(('nway', nway_harness(T, (2, 2, 1), 1, (1, 1, 1), (1, 2, 2), ('sparse', 'none', 'dense')), {'shape': [2, 2, 1]}))
    jobs.append(('tensorprod', tensorprod_harness(T), {}))
    jobs.append(('operator', operator_harness(T), {}))
    for kind in ('canonical', 'tucker', 'sum'):
        jobs.append(('index', index_harness(T, kind, (3, 2)), {'kind': kind, 'shape': [3, 2]}))
        if thorough: jobs.append(('index', index_harness(T, kind, (2, 1, 3)), {'kind': kind, 'shape': [2, 1, 3]}))
    jobs.append(('generator', generator_harness(T, TG, (3, 2)), {'shape': [3, 2]}))
    jobs.append(('generator', generator_harness(T, TG, (2, 2, 2)), {'shape': [2, 2, 2]}))
    jobs.append(('kernels', update_kernels_harness(cy), {}))
    for grp, h, w in jobs:
        if not run.want(grp): continue
        st = sx.explore(h, timeout_ms=60000, stop_at_first=False, max_paths=100000)
        run.absorb(st, grp, bound=w, sample={'obligation': grp, **w})
        if st.cex:
            names = sorted({cx['name'] for cx in st.cex})
            r = realbuild.run_real(REPLAY, {'shape': w.get('shape', [2, 3])}, only=['lowrank_cy'])
            run.report('%s:%s' % (grp, names[0][:50]), '%s: %s; real run: %s' % (grp, names[:5], r['bad']), {'group': grp, **w}, r['reproduced'])
    if not run.args.no_canaries:
        src = srcload.read('pyiga/tensor.py')
        def canary(name, pat, rep, hf):
            if pat not in src: run.canary(name, False, skipped=True); return
            T2, TG2, cy2 = load_code(transform=lambda s: s.replace(pat, rep, 1))
            st = sx.explore(hf(T2, TG2), timeout_ms=30000, max_paths=100000)
            run.canary(name, bool(st.cex))
        canary('tucker subtraction of canonical', "            return self + (-T2)\n\n    def __neg__(self):\n        return TuckerTensor(", "            return self + T2\n\n    def __neg__(self):\n        return TuckerTensor(",
               lambda T2, G2: algebra_harness(T2, (2, 3), 2, 1, (2, 1)))
        canary('join_tucker_bases padding side', "X2 = np.pad(T2.X, tuple((n,0) for n in R1), 'constant')", "X2 = np.pad(T2.X, tuple((0,n) for n in R1), 'constant')", lambda T2, G2: algebra_harness(T2, (2, 3), 2, 1, (2, 1)))
        canary('canonical squeeze drops factors', '            Xs = (Xs[0] * factors,) + Xs[1:]', '            Xs = (Xs[0],) + Xs[1:]', lambda T2, G2: index_harness(T2, 'canonical', (3, 2)))
        canary('operator transpose keeps term order only', "            tuple(B.T for B in term) for term in self.terms", "            tuple(B for B in term) for term in self.terms", lambda T2, G2: operator_harness(T2))
    run.finish()


def replay_file(path):
    w = json.load(open(path))['witness']
    r = realbuild.run_real(REPLAY, {'shape': w.get('shape', [2, 3])}, only=['lowrank_cy'])
    print(json.dumps(r)); print('REPRODUCED' if r['reproduced'] else 'NOT-REPRODUCED')
    sys.exit(1 if r['reproduced'] else 0)


if __name__ == '__main__':
    if '--replay' in sys.argv:
        replay_file(sys.argv[sys.argv.index('--replay') + 1])
    main_wrapper(main)
