"""C15 -- multi-level structured matrices behave as the sparse matrices they denote.

Encoded (read from /repo at run time):
  pyiga/mlmatrix_cy.pyx  (transliterated whole file): ml_nonzero_2d/3d/nd, ml_matvec_2d/3d, to_seq,
      from_seq, from_seq2, reindex_from_reordered, reindex_from_multilevel, get_transpose_idx_for_bidx,
      pyx_raveled_cartesian_product, pyx_rowwise_cartesian_product
  pyiga/mlmatrix.py      (definitions exec'd from source): MLStructure, MLMatrix (shim base class), reorder,
      from_seq, to_seq, reindex_to_multilevel, compute_sparsity_ij, compute_banded_sparsity(_ij), compute_dense_ij
  pyiga/utils.py         kron_partial
"""
import itertools, json, sys, time
import numpy as np
import z3

from checks.common import Run, main_wrapper, jsonable
from checks import realbuild
from symx import core as sx
from symx.core import Sym, lift
from symx.symnp import SymNP
from symx import srcload
from cyx.load import load_pyx

PID = 'C15'


# ----------------------------------------------------------------------------------------
def load_kernels(enc=None, transform=None):
    ns = load_pyx('pyiga/mlmatrix_cy.pyx', encoded=enc, transform=transform)
    ns['np'] = SymNP()
    return ns


def sym_pattern(L, nnz, maxdim, tag=''):
    """symbolic per-level patterns: block sizes m_k x n_k in 1..maxdim, nnz distinct positions each"""
    bs = [(z3.Int('%sm%d' % (tag, k)), z3.Int('%sn%d' % (tag, k))) for k in range(L)]
    bz = [[(z3.Int('%si_%d_%d' % (tag, k, s)), z3.Int('%sj_%d_%d' % (tag, k, s))) for s in range(nnz[k])] for k in range(L)]
    pre = []
    for k in range(L):
        m, n = bs[k]
        pre += [m >= 1, m <= maxdim, n >= 1, n <= maxdim]
        for (i, j) in bz[k]:
            pre += [i >= 0, i < m, j >= 0, j < n]
        for s, t in itertools.combinations(range(nnz[k]), 2):
            pre.append(z3.Or(bz[k][s][0] != bz[k][t][0], bz[k][s][1] != bz[k][t][1]))
    return bs, bz, pre


def as_bidx(bz):
    out = []
    for lvl in bz:
        a = np.empty((len(lvl), 2), dtype=object)
        for s, (i, j) in enumerate(lvl):
            a[s, 0] = Sym(i); a[s, 1] = Sym(j)
        out.append(a)
    return tuple(out)


def as_bs(bs):
    a = np.empty((len(bs), 2), dtype=object)
    for k, (m, n) in enumerate(bs):
        a[k, 0] = Sym(m); a[k, 1] = Sym(n)
    return a


def expected_pairs(bs, bz):
    """(I,J) z3 terms of the Kronecker product pattern in C order of the compact data layout"""
    L = len(bs)
    exp = []
    for tup in itertools.product(*[range(len(b)) for b in bz]):
        ei = z3.IntVal(0); ej = z3.IntVal(0)
        for k in range(L):
            ei = ei * bs[k][0] + bz[k][tup[k]][0]
            ej = ej * bs[k][1] + bz[k][tup[k]][1]
        exp.append((ei, ej))
    return exp


def nonzero_harness(fn_name, L, nnz, maxdim, lower, kernels, via_structure=None):
    bs, bz, pre = sym_pattern(L, nnz, maxdim)
    exp = expected_pairs(bs, bz)

    def run(c):
        for p in pre: c.assume(p)
        bidx = as_bidx(bz); bsa = as_bs(bs)
        if via_structure is not None:
            S = via_structure(tuple(tuple(r) for r in bsa), bidx)
            I, J = S.nonzero(lower_tri=lower)
            I = list(I); J = list(J)
        else:
            res = kernels[fn_name](bidx, bsa, lower)
            I = list(res[0]); J = list(res[1])
        if not lower:
            if len(I) != len(exp):
                c.check(z3.BoolVal(False), 'count')
                return
            c.check(z3.And(*[z3.And(lift(a) == ei, lift(b) == ej) for (a, b), (ei, ej) in zip(zip(I, J), exp)]), 'kron-order')
        else:
            nout = len(I)
            keep = [ej <= ei for (ei, ej) in exp]
            props = [z3.Sum([z3.If(kp, 1, 0) for kp in keep]) == nout]
            for t, (ei, ej) in enumerate(exp):
                rank = z3.Sum([z3.If(keep[s], 1, 0) for s in range(t)]) if t else z3.IntVal(0)
                conj = []
                for q in range(nout):
                    conj.append(z3.Implies(rank == q, z3.And(lift(I[q]) == ei, lift(J[q]) == ej)))
                props.append(z3.Implies(keep[t], z3.And(rank < nout, *conj)))
            c.check(z3.And(*props), 'lower-tri-subsequence')
        c.witness(fn_name)
    return run, (bs, bz)


def model_pattern(m, bs, bz):
    cbs = [(int(sx.model_value(m, a)), int(sx.model_value(m, b))) for a, b in bs]
    cbz = [[(int(sx.model_value(m, i)), int(sx.model_value(m, j))) for i, j in lvl] for lvl in bz]
    return cbs, cbz


REPLAY_NONZERO = r'''
import sys, json, itertools, numpy as np
w = json.load(sys.stdin)
from pyiga import mlmatrix
bs = [tuple(b) for b in w['bs']]; bz = [np.array(l, dtype=np.uint32).reshape(-1, 2) for l in w['bz']]
S = mlmatrix.MLStructure(bs, bz)
exp = []
for tup in itertools.product(*[range(len(b)) for b in bz]):
    I = J = 0
    for k in range(len(bs)):
        I = I * bs[k][0] + int(bz[k][tup[k]][0]); J = J * bs[k][1] + int(bz[k][tup[k]][1])
    if not w['lower'] or J <= I: exp.append((I, J))
fn = w.get('fn')
if fn and fn != 'structure':
    res = getattr(mlmatrix, fn)(tuple(bz), np.array(bs), lower_tri=w['lower'])
    got = list(zip(res[0].tolist(), res[1].tolist()))
else:
    I, J = S.nonzero(lower_tri=w['lower']); got = list(zip(I.tolist(), J.tolist()))
print(json.dumps({'reproduced': got != exp, 'got': got, 'expected': exp}))
'''


# ----------------------------------------------------------------------------------------
class SymVec:
    """vector with symbolic-index read / write (ite chains): a stub for a double[::1] buffer"""
    def __init__(self, entries):
        self.e = [lift(x) for x in entries]
    def __len__(self): return len(self.e)
    @property
    def shape(self): return (len(self.e),)
    def __getitem__(self, i):
        it = lift(i)
        r = self.e[-1]
        for p in range(len(self.e) - 2, -1, -1):
            r = z3.If(it == p, self.e[p], r)
        return Sym(r)
    def __setitem__(self, i, v):
        it = lift(i); vt = sx._toreal(lift(v))
        self.e = [z3.If(it == p, vt, old) for p, old in enumerate(self.e)]


def matvec_harness(dim, nnz, conc_bs, kernels):
    L = dim
    bs = [(z3.IntVal(m), z3.IntVal(n)) for m, n in conc_bs]
    _, bz, pre0 = sym_pattern(L, nnz, 99, tag='v')
    pre = []
    for k in range(L):
        for (i, j) in bz[k]:
            pre += [i >= 0, i < conc_bs[k][0], j >= 0, j < conc_bs[k][1]]
        for s, t in itertools.combinations(range(nnz[k]), 2):
            pre.append(z3.Or(bz[k][s][0] != bz[k][t][0], bz[k][s][1] != bz[k][t][1]))
    M = int(np.prod([b[0] for b in conc_bs])); N = int(np.prod([b[1] for b in conc_bs]))
    exp = expected_pairs(bs, bz)

    def run(c):
        for p in pre: c.assume(p)
        X = sx.symarray('X', tuple(nnz))
        xv = [z3.Real('x_%d' % j) for j in range(N)]
        y0 = [z3.Real('y0_%d' % i) for i in range(M)]
        x = SymVec(xv); y = SymVec(y0)
        bsa = np.array(conc_bs)
        kernels['ml_matvec_%dd' % dim](X, as_bidx(bz), bsa, x, y)
        # oracle: y[p] = y0[p] + sum_t [I_t == p] X_t * x[J_t]
        props = []
        Xf = [lift(v) for v in X.ravel()]
        for p in range(M):
            acc = y0[p]
            for t, (ei, ej) in enumerate(exp):
                xj = xv[-1]
                for q in range(N - 2, -1, -1):
                    xj = z3.If(ej == q, xv[q], xj)
                acc = acc + z3.If(ei == p, Xf[t] * xj, 0)
            props.append(y.e[p] == acc)
        c.check(z3.And(*props), 'matvec=dense-definition')
        c.witness('matvec')
    return run, (bs, bz)


# ----------------------------------------------------------------------------------------
def seq_harness(L, maxdim, pyfuncs, kernels):
    dims = [z3.Int('d%d' % k) for k in range(L)]
    I = [z3.Int('I%d' % k) for k in range(L)]
    i = z3.Int('i')

    def run(c):
        total = z3.IntVal(1)
        for k in range(L):
            c.assume(z3.And(dims[k] >= 1, dims[k] <= maxdim, I[k] >= 0, I[k] < dims[k]))
            total = total * dims[k]
        c.assume(z3.And(i >= 0, i < total))
        sd = [Sym(d) for d in dims]
        # python versions
        s = pyfuncs['to_seq']([Sym(v) for v in I], sd)
        back = pyfuncs['from_seq'](s, sd)
        c.check(z3.And(*[lift(b) == v for b, v in zip(back, I)]), 'py:from_seq(to_seq(I))=I')
        c.check(z3.And(lift(s) >= 0, lift(s) < total), 'py:to_seq in range')
        mi = pyfuncs['from_seq'](Sym(i), sd)
        c.check(z3.And(*[z3.And(lift(b) >= 0, lift(b) < d) for b, d in zip(mi, dims)]), 'py:from_seq in range')
        c.check(lift(pyfuncs['to_seq'](mi, sd)) == i, 'py:to_seq(from_seq(i))=i')
        # cython versions
        dl = list(sd)
        s2 = kernels['to_seq'](kernels['_Ptr']([Sym(v) for v in I], 0), kernels['_Ptr'](dl, 0), L)
        c.check(lift(s2) == lift(s), 'cy:to_seq = py:to_seq')
        mi2 = kernels['from_seq'](Sym(i), dl)
        c.check(z3.And(*[lift(a) == lift(b) for a, b in zip(mi, mi2)]), 'cy:from_seq = py:from_seq')
        c.witness('seq')
    return run


def reindex_harness(maxdim, pyfuncs, kernels):
    m1, n1, m2, n2 = (z3.Int(n) for n in ('m1', 'n1', 'm2', 'n2'))
    i, j = z3.Int('i'), z3.Int('j')

    def run(c):
        for d in (m1, n1, m2, n2): c.assume(z3.And(d >= 1, d <= maxdim))
        c.assume(z3.And(i >= 0, i < m1 * n1, j >= 0, j < m2 * n2))
        a, b = kernels['reindex_from_reordered'](Sym(i), Sym(j), Sym(m1), Sym(n1), Sym(m2), Sym(n2))
        a, b = lift(a), lift(b)
        # (i,j) = (bi0*n1+bi1, ii0*n2+ii1)  <->  (bi0*m2+ii0, bi1*n2+ii1)
        bi0, bi1, ii0, ii1 = (z3.Int(n) for n in ('bi0', 'bi1', 'ii0', 'ii1'))
        c.check(z3.And(a >= 0, a < m1 * m2, b >= 0, b < n1 * n2), 'reordered: range')
        c.check(z3.Implies(z3.And(bi0 >= 0, bi0 < m1, bi1 >= 0, bi1 < n1, ii0 >= 0, ii0 < m2, ii1 >= 0, ii1 < n2,
                                  i == bi0 * n1 + bi1, j == ii0 * n2 + ii1),
                           z3.And(a == bi0 * m2 + ii0, b == bi1 * n2 + ii1)), 'reordered: block/inner decomposition')
        a2, b2 = pyfuncs['reindex_from_reordered'](Sym(i), Sym(j), Sym(m1), Sym(n1), Sym(m2), Sym(n2))
        c.check(z3.And(lift(a2) == a, lift(b2) == b), 'reordered: cython = python definition')
        c.witness('reindex')
    return run


def multilevel_harness(L, maxdim, pyfuncs, kernels):
    bs = [(z3.Int('M%d' % k), z3.Int('N%d' % k)) for k in range(L)]
    i, j = z3.Int('i'), z3.Int('j')

    def run(c):
        tm = z3.IntVal(1); tn = z3.IntVal(1)
        for (m, n) in bs:
            c.assume(z3.And(m >= 1, m <= maxdim, n >= 1, n <= maxdim)); tm = tm * m; tn = tn * n
        c.assume(z3.And(i >= 0, i < tm, j >= 0, j < tn))
        bsa = as_bs(bs)
        M = pyfuncs['reindex_to_multilevel'](Sym(i), Sym(j), bsa)
        c.check(z3.And(*[z3.And(lift(M[k]) >= 0, lift(M[k]) < bs[k][0] * bs[k][1]) for k in range(L)]), 'to_multilevel: range')
        ii, jj = kernels['reindex_from_multilevel'](list(M), bsa)
        c.check(z3.And(lift(ii) == i, lift(jj) == j), 'from_multilevel(to_multilevel(i,j)) = (i,j)')
        c.witness('multilevel')
    return run


# ----------------------------------------------------------------------------------------
def sparsity_harness(n1, n2, maxspan, pyfuncs):
    """compute_sparsity_ij on symbolic mesh-support tables (monotone, as produced by open knot vectors)"""
    s1 = [(z3.Int('a1_%d' % i), z3.Int('b1_%d' % i)) for i in range(n1)]
    s2 = [(z3.Int('a2_%d' % i), z3.Int('b2_%d' % i)) for i in range(n2)]

    def table(s):
        t = np.empty((len(s), 2), dtype=object)
        for i, (a, b) in enumerate(s):
            t[i, 0] = Sym(a); t[i, 1] = Sym(b)
        return t

    class KV:
        def __init__(self, s): self.s = s; self.numdofs = len(s)
        def mesh_support_idx_all(self): return table(self.s)

    def run(c):
        for s in (s1, s2):
            for i, (a, b) in enumerate(s):
                c.assume(z3.And(a >= 0, b > a, b <= maxspan))
                if i:
                    c.assume(z3.And(a >= s[i - 1][0], b >= s[i - 1][1]))
        IJ = pyfuncs['compute_sparsity_ij'](KV(s1), KV(s2))
        got = [(int(r[0]), int(r[1])) if not isinstance(r[0], Sym) else (r[0], r[1]) for r in list(IJ)]
        got_set = set(got)
        if len(got_set) != len(got):
            c.check(z3.BoolVal(False), 'sparsity: duplicate pair'); return
        props = []
        for i in range(n2):
            for j in range(n1):
                ov = z3.And(z3.If(s2[i][1] < s1[j][1], s2[i][1], s1[j][1]) > z3.If(s2[i][0] > s1[j][0], s2[i][0], s1[j][0]))
                props.append(ov == z3.BoolVal((i, j) in got_set))
        c.check(z3.And(*props), 'sparsity: (i,j) listed iff supports overlap')
        # lexicographic order of the list (what nonzero()/asmatrix rely on)
        c.check(z3.BoolVal(got == sorted(got)), 'sparsity: lexicographic order')
    return run, (s1, s2)


def searchsorted_stub(arr, v, side='left'):
    """contract of np.searchsorted on a sorted array, by comparison forking"""
    arr = list(arr)
    if isinstance(v, (np.ndarray, list, tuple)):
        return np.array([searchsorted_stub(arr, x, side) for x in v], dtype=object)
    j = 0
    if side == 'right':
        while j < len(arr) and arr[j] <= v: j += 1
    else:
        while j < len(arr) and arr[j] < v: j += 1
    return j


# ----------------------------------------------------------------------------------------
def transpose_idx_harness(nnz, maxdim, kernels):
    """get_transpose_idx_for_bidx on a symmetric symbolic pattern: result[k] is the position of (j,i)"""
    pos = [(z3.Int('ti%d' % s), z3.Int('tj%d' % s)) for s in range(nnz)]

    def run(c):
        for (i, j) in pos: c.assume(z3.And(i >= 0, i < maxdim, j >= 0, j < maxdim))
        for s, t in itertools.combinations(range(nnz), 2):
            c.assume(z3.Or(pos[s][0] != pos[t][0], pos[s][1] != pos[t][1]))
        # symmetric pattern: every (i,j) has its (j,i)
        for s in range(nnz):
            c.assume(z3.Or(*[z3.And(pos[t][0] == pos[s][1], pos[t][1] == pos[s][0]) for t in range(nnz)]))
        bidx = np.empty((nnz, 2), dtype=object)
        for s, (i, j) in enumerate(pos):
            # dict keys must be hashable concrete values: concretise by forking
            bidx[s, 0] = Sym(i).__index__(); bidx[s, 1] = Sym(j).__index__()
        bidx = bidx.astype(np.uint32)
        tr = kernels['get_transpose_idx_for_bidx'](bidx)
        ok = all(tuple(bidx[int(tr[k])]) == (bidx[k][1], bidx[k][0]) for k in range(nnz))
        c.check(z3.BoolVal(bool(ok)), 'get_transpose_idx_for_bidx: entry k is the position of the transposed index pair')
        c.witness('transpose idx')
    return run, pos


# ----------------------------------------------------------------------------------------
def structure_namespace(kernels, enc):
    """exec MLStructure/MLMatrix and helpers from mlmatrix.py source with facade np and kernels"""
    from symx.symsparse import sparse_facade
    snp = SymNP()
    class _Scipy: pass
    sc = _Scipy(); sc.sparse = sparse_facade()
    class _LinOp:
        def __init__(self, shape=None, dtype=None): pass
        def dot(self, x): return self._matvec(x)
    sc.sparse.linalg = _Scipy(); sc.sparse.linalg.LinearOperator = _LinOp
    ns = {'np': snp, 'scipy': sc}
    for k in ('ml_nonzero_2d', 'ml_nonzero_3d', 'ml_nonzero_nd', 'ml_matvec_2d', 'ml_matvec_3d',
              'pyx_rowwise_cartesian_product', 'get_transpose_idx_for_bidx'):
        ns[k] = kernels[k]
    srcload.load_defs('pyiga/mlmatrix.py',
                      ['MLStructure', 'MLMatrix', 'reorder', 'reindex_from_reordered', 'from_seq', 'to_seq',
                       'reindex_to_multilevel', 'compute_banded_sparsity', 'compute_banded_sparsity_ij',
                       'compute_sparsity_ij', 'compute_dense_ij'], ns, encoded=enc)
    return ns


def rows_harness(conc_bs, rows_per_level, row_list, ns):
    """nonzeros_for_rows / nonzeros_for_columns: rows of the stored entries concrete, columns symbolic"""
    L = len(conc_bs)
    cols = [[z3.Int('c_%d_%d' % (k, s)) for s in range(len(rows_per_level[k]))] for k in range(L)]
    f = z3.Function('f', z3.IntSort(), z3.IntSort(), z3.RealSort())

    def run(c):
        for k in range(L):
            for s, col in enumerate(cols[k]):
                c.assume(z3.And(col >= 0, col < conc_bs[k][1]))
            for s, t in itertools.combinations(range(len(cols[k])), 2):
                if rows_per_level[k][s] == rows_per_level[k][t]:
                    c.assume(cols[k][s] != cols[k][t])
        bidx = []
        for k in range(L):
            a = np.empty((len(cols[k]), 2), dtype=object)
            for s in range(len(cols[k])):
                a[s, 0] = rows_per_level[k][s]; a[s, 1] = Sym(cols[k][s])
            bidx.append(a)
        S = ns['MLStructure'](conc_bs, bidx)
        I, J = S.nonzeros_for_rows(list(row_list))
        # oracle: the entries of the full pattern whose row is in row_list
        full = []
        for tup in itertools.product(*[range(len(cols[k])) for k in range(L)]):
            r = 0; cj = z3.IntVal(0)
            for k in range(L):
                r = r * conc_bs[k][0] + rows_per_level[k][tup[k]]
                cj = cj * conc_bs[k][1] + cols[k][tup[k]]
            full.append((r, cj))
        want = [(r, cj) for (r, cj) in full if r in set(row_list)]
        I = list(I); J = list(J)
        if len(I) != len(want):
            c.check(z3.BoolVal(False), 'rows: count'); return
        lhs = z3.Sum([f(lift(a), lift(b)) for a, b in zip(I, J)]) if I else z3.RealVal(0)
        rhs = z3.Sum([f(z3.IntVal(r), cj) for r, cj in want]) if want else z3.RealVal(0)
        c.check(lhs == rhs, 'rows: multiset of (I,J) = filter of the full pattern (for every weight function f)')
        c.witness('rows')
    return run, cols


# ----------------------------------------------------------------------------------------
def object_harness(ns, bs, bw, axes):
    """MLMatrix as an object over a concrete banded structure with symbolic data: expansion, product, data replacement
    (operation sequence product -> assign new data -> product), construction from a matrix, level reordering"""
    def dense(S, X):
        D = np.empty(S.shape, dtype=object); D[...] = 0
        for tup in itertools.product(*[range(len(b)) for b in S.bidx]):
            I = J = 0
            for k in range(S.L):
                I = I * S.bs[k][0] + int(S.bidx[k][tup[k]][0]); J = J * S.bs[k][1] + int(S.bidx[k][tup[k]][1])
            D[I, J] = D[I, J] + X[tup]
        return D
    def run(c):
        S = ns['MLStructure'].multi_banded(tuple(bs), tuple(bw))
        shape = tuple(len(b) for b in S.bidx)
        X1 = sx.symarray('X', shape); X2 = sx.symarray('Z', shape)
        x = sx.symarray('x', (S.shape[1],))
        M = ns['MLMatrix'](S, data=X1)
        D1 = dense(S, X1); D2 = dense(S, X2)
        c.check(sx.eq_arrays(np.asarray(M.asmatrix().toarray(), dtype=object), D1), 'MLMatrix.asmatrix = Kronecker placement of the data tensor')
        c.check(sx.eq_arrays(np.asarray(M.dot(x), dtype=object), D1.dot(x)), 'MLMatrix product = dense definition')
        M.data = X2
        c.check(sx.eq_arrays(np.asarray(M.dot(x), dtype=object), D2.dot(x)), 'after assigning new data the product uses the new data')
        c.check(sx.eq_arrays(np.asarray(M.asmatrix().toarray(), dtype=object), D2), 'after assigning new data asmatrix uses the new data')
        c.check(sx.eq_arrays(np.asarray(M.dot(x), dtype=object), np.asarray(M.asmatrix().toarray(), dtype=object).dot(x)), 'product and asmatrix agree after the sequence')
        from symx.symsparse import SpMat
        M3 = ns['MLMatrix'](S, matrix=SpMat(D1, 'csr'))
        c.check(sx.eq_arrays(np.asarray(M3.data, dtype=object), X1), 'construction from a matrix extracts the stored entries in data-layout order')
        if axes is not None:
            Mr = M3.reorder(axes)
            Sr = Mr.structure
            Dr = dense(Sr, np.transpose(X1, axes))
            c.check(z3.And(z3.BoolVal(tuple(Sr.bs) == tuple(S.bs[a] for a in axes)), sx.eq_arrays(np.asarray(Mr.asmatrix().toarray(), dtype=object), Dr)),
                    'reorder(axes): levels and data axes permuted consistently')
        c.witness('object')
    return run


REPLAY_TRANSP = r'''
import sys, json, numpy as np
w = json.load(sys.stdin)
from pyiga import mlmatrix
b = np.array(w['bidx'], dtype=np.uint32)
bad = []
try:
    T = np.asarray(mlmatrix.get_transpose_idx_for_bidx(b))
    if any(tuple(b[int(T[k])]) != (b[k][1], b[k][0]) for k in range(len(b))): bad.append('map %s' % T.tolist())
except Exception as e:
    bad.append('exception %s: %s' % (type(e).__name__, e))
print(json.dumps({'reproduced': bool(bad), 'bad': bad}))
'''

REPLAY_OBJECT = r'''
import sys, json, itertools, numpy as np
w = json.load(sys.stdin)
from pyiga import mlmatrix
rng = np.random.RandomState(2)
S = mlmatrix.MLStructure.multi_banded(tuple(w['bs']), tuple(w['bw']))
shape = tuple(len(b) for b in S.bidx)
def dense(S, X):
    D = np.zeros(S.shape)
    for tup in itertools.product(*[range(len(b)) for b in S.bidx]):
        I = J = 0
        for k in range(S.L):
            I = I * S.bs[k][0] + int(S.bidx[k][tup[k]][0]); J = J * S.bs[k][1] + int(S.bidx[k][tup[k]][1])
        D[I, J] += X[tup]
    return D
X1 = rng.rand(*shape); X2 = rng.rand(*shape); x = rng.rand(S.shape[1])
bad = []
M = mlmatrix.MLMatrix(S, data=X1)
if not np.allclose(M.asmatrix().toarray(), dense(S, X1)): bad.append('asmatrix')
if not np.allclose(M.dot(x), dense(S, X1) @ x): bad.append('product')
M.data = X2
if not np.allclose(M.dot(x), dense(S, X2) @ x): bad.append('product after data assignment')
if not np.allclose(M.asmatrix().toarray(), dense(S, X2)): bad.append('asmatrix after data assignment')
M3 = mlmatrix.MLMatrix(S, matrix=dense(S, X1))
if not np.allclose(M3.data, X1): bad.append('from matrix')
if w.get('axes') is not None:
    Mr = M3.reorder(tuple(w['axes']))
    if not np.allclose(Mr.asmatrix().toarray(), dense(Mr.structure, np.transpose(X1, w['axes']))): bad.append('reorder')
print(json.dumps({'reproduced': bool(bad), 'bad': bad}))
'''


# ----------------------------------------------------------------------------------------
def main():
    run = Run(PID, level='other', description='Index arithmetic of multi-level matrices over symbolic per-level patterns.')
    thorough = run.tier == 'thorough'
    enc = srcload.Encoded()
    kernels = load_kernels(enc)
    ns = structure_namespace(kernels, enc)
    ns['np_searchsorted_orig'] = None
    run.add_encoded(enc)
    run.stubs += ['np.empty/zeros/array -> object-dtype arrays (symnp)', 'np.searchsorted -> comparison-forking contract',
                  'double[::1] x,y buffers of ml_matvec -> SymVec (ite chains over concrete positions)',
                  'scipy.sparse.csr_matrix/coo_matrix -> dense object matrix with duplicate accumulation (symsparse)',
                  'scipy.sparse.linalg.LinearOperator base class -> empty shim']
    run.assumptions += ['C integer types do not wrap: all sizes bounded by maxdim^L <= 3^4 (quick) so every product < 2^31',
                        'reals for doubles in matvec data',
                        'compute_sparsity_ij precondition: mesh-support tables non-decreasing in both columns, a<b (as produced by open knot vectors)']
    maxdim = 3
    run.bounds = {'levels': '2..4 (nd), 2 (2d), 3 (3d)', 'block sizes': '1..%d symbolic per level' % maxdim,
                  'nnz per level': '<=2 quick, <=3 thorough', 'index maps': 'L<=3, dims<=5 symbolic'}
    run.out_of_scope += ['L>4 levels, blocks >3x3, nnz per level >3', 'from_kvs on real knot vectors (covered via compute_sparsity_ij tables)',
                         'floating-point summation order in matvec']

    # ---- translator validation: transliterated kernels vs compiled kernels on the repo's own test inputs
    if run.want('validate'):
        validate_translation(run)

    # ---- (1) nonzero patterns
    def vstruct(bs, bidx):
        return ns['MLStructure'](bs, bidx)
    cfgs = []
    for lower in (False, True):
        cfgs.append(('ml_nonzero_2d', 2, (2, 2), lower))
        cfgs.append(('ml_nonzero_nd', 2, (2, 2), lower))
        cfgs.append(('ml_nonzero_3d', 3, (2, 1, 2), lower))
        cfgs.append(('ml_nonzero_nd', 3, (2, 2, 1), lower))
        cfgs.append(('ml_nonzero_nd', 4, (1, 2, 1, 2), lower))
        cfgs.append(('structure', 4, (2, 1, 1, 2), lower))
        cfgs.append(('structure', 2, (1, 2), lower))
        if thorough:
            cfgs.append(('ml_nonzero_2d', 2, (3, 2), lower))
            cfgs.append(('ml_nonzero_3d', 3, (2, 2, 2), lower))
            cfgs.append(('ml_nonzero_nd', 3, (2, 2, 2), lower))
            cfgs.append(('ml_nonzero_nd', 4, (2, 2, 1, 2), lower))
            cfgs.append(('ml_nonzero_nd', 2, (3, 3), False) if not lower else ('ml_nonzero_nd', 2, (2, 3), True))
    if run.want('nonzero'):
        for (fn, L, nnz, lower) in cfgs:
            h, (bs, bz) = nonzero_harness(fn, L, nnz, maxdim, lower, kernels, via_structure=vstruct if fn == 'structure' else None)
            st = sx.explore(h, timeout_ms=60000, export_every=7 if thorough else 0)
            bound = {'fn': fn, 'L': L, 'nnz': list(nnz), 'lower_tri': lower, 'maxdim': maxdim}
            run.absorb(st, 'nonzero', bound=bound, sample={'obligation': 'nonzero', **bound})
            if thorough: run.cross_check(st.smt2[:2])
            for cex in st.cex:
                cbs, cbz = model_pattern(cex['model'], bs, bz)
                w = {'bs': cbs, 'bz': cbz, 'lower': lower, 'fn': fn}
                r = realbuild.run_real(REPLAY_NONZERO, w)
                key = '%s:nonzero' % (fn if fn != 'structure' else 'MLStructure.nonzero(L=%d)' % L)
                run.report(key, '%s(lower_tri=%s) on bs=%s bidx=%s returns %s, Kronecker pattern in data-layout order is %s'
                           % (fn, lower, cbs, cbz, r['got'], r['expected']), {'kind': 'nonzero', **w}, r['reproduced'])

    # ---- (2b) MLMatrix objects: expansion, product, data replacement, construction from a matrix, reorder
    if run.want('object'):
        ocfgs = [((3,), (1,), None), ((3, 2), (1, 1), (1, 0)), ((2, 2, 2), (1, 1, 1), (2, 0, 1)), ((2, 2, 2, 2), (1, 1, 1, 1), None)]
        if thorough:
            ocfgs += [((4, 3), (2, 1), None), ((3, 2, 2), (1, 1, 1), (1, 2, 0)), ((2, 2, 2, 2), (1, 1, 1, 1), (3, 1, 0, 2)), ((4,), (2,), None)]
        for bs_, bw_, axes in ocfgs:
            st = sx.explore(object_harness(ns, bs_, bw_, axes), timeout_ms=60000, stop_at_first=False)
            bound = {'levels': len(bs_), 'block sizes (concrete)': list(bs_), 'bandwidths': list(bw_), 'data': 'symbolic', 'reorder': list(axes) if axes else None}
            run.absorb(st, 'mlmatrix-object', bound=bound, sample={'obligation': 'MLMatrix object', **bound})
            if st.cex:
                w = {'kind': 'object', 'bs': list(bs_), 'bw': list(bw_), 'axes': list(axes) if axes else None}
                r = realbuild.run_real(REPLAY_OBJECT, w)
                run.report('MLMatrix:%s' % ','.join(r['bad'])[:60], 'MLMatrix over multi_banded(%s,%s): solver: %s; real build: %s' % (bs_, bw_, sorted({cx['name'] for cx in st.cex})[:4], r['bad']), w, r['reproduced'])

    # ---- (2a) matvec kernels
    if run.want('matvec'):
        mcfgs = [(2, (2, 2), ((2, 2), (2, 3))), (3, (2, 1, 2), ((2, 2), (1, 2), (2, 2))), (3, (1, 2, 2), ((2, 1), (1, 2), (3, 2)))]      # last: non-square innermost block
        if thorough:
            mcfgs += [(2, (3, 2), ((3, 2), (2, 3))), (3, (2, 2, 2), ((2, 2), (2, 2), (2, 2)))]
        for dim, nnz, cbs in mcfgs:
            h, (bs, bz) = matvec_harness(dim, nnz, cbs, kernels)
            st = sx.explore(h, timeout_ms=120000)
            bound = {'fn': 'ml_matvec_%dd' % dim, 'nnz': list(nnz), 'block sizes (concrete)': [list(b) for b in cbs]}
            run.absorb(st, 'matvec', bound=bound, sample={'obligation': 'matvec', **bound})
            for cex in st.cex:
                _, cbz = model_pattern(cex['model'], bs, bz)
                w = {'bs': [list(b) for b in cbs], 'bz': cbz, 'dim': dim}
                r = realbuild.run_real(REPLAY_MATVEC, w)
                run.report('ml_matvec_%dd' % dim, 'ml_matvec_%dd differs from the dense Kronecker definition on bidx=%s' % (dim, cbz),
                           {'kind': 'matvec', **w}, r['reproduced'])

    # ---- (4) index maps
    if run.want('index'):
        pyf = ns
        for nnz, md in [(2, 3), (3, 3), (4, 3)] + ([(3, 4), (2, 5)] if thorough else []):
            h, pos = transpose_idx_harness(nnz, md, kernels)
            st = sx.explore(h, timeout_ms=60000, max_paths=50000)
            run.absorb(st, 'index-maps', bound={'fn': 'get_transpose_idx_for_bidx', 'nnz': nnz, 'indices <': md, 'order': 'any listing order of a structurally symmetric pattern'},
                       sample={'obligation': 'transpose index map', 'nnz': nnz})
            for cex in st.cex:
                m = cex['model']
                bidx = [[int(sx.model_value(m, a)), int(sx.model_value(m, b))] for a, b in pos]
                r = realbuild.run_real(REPLAY_TRANSP, {'bidx': bidx})
                run.report('get_transpose_idx_for_bidx', 'get_transpose_idx_for_bidx(%s): %s' % (bidx, r['bad']), {'kind': 'transp', 'bidx': bidx}, r['reproduced'])
                break
        for L in (1, 2, 3):
            st = sx.explore(seq_harness(L, 5 if L < 3 else 4, pyf, kernels), timeout_ms=60000)
            run.absorb(st, 'index-maps', bound={'fn': 'to_seq/from_seq', 'L': L, 'dims': '1..5 symbolic'},
                       sample={'obligation': 'from_seq(to_seq(I))=I', 'L': L})
            for cex in st.cex:
                run.report('seq:' + cex['name'], cex['name'] + ' fails: ' + json.dumps(jsonable(sx.model_dict(cex['model']))), {}, True)
        st = sx.explore(reindex_harness(4, pyf, kernels), timeout_ms=60000)
        run.absorb(st, 'index-maps', bound={'fn': 'reindex_from_reordered', 'dims': '1..4 symbolic'})
        for cex in st.cex:
            run.report('reindex:' + cex['name'], cex['name'] + ' fails: ' + json.dumps(jsonable(sx.model_dict(cex['model']))), {}, True)
        for L in (1, 2) + ((3,) if thorough else ()):
            st = sx.explore(multilevel_harness(L, 3, pyf, kernels), timeout_ms=120000 if L < 3 else 600000)
            run.absorb(st, 'index-maps', bound={'fn': 'reindex_to/from_multilevel', 'L': L, 'dims': '1..3 symbolic'})
            for cex in st.cex:
                run.report('multilevel:' + cex['name'], cex['name'] + ' fails: ' + json.dumps(jsonable(sx.model_dict(cex['model']))), {}, True)

    # ---- (5) sparsity from knot vectors
    if run.want('sparsity'):
        ns['np'].__dict__['searchsorted'] = searchsorted_stub
        for (n1, n2, ms) in [(2, 2, 3), (3, 2, 3), (2, 3, 3), (3, 3, 4)] + ([(4, 3, 3), (3, 4, 3)] if thorough else []):
            h, (s1, s2) = sparsity_harness(n1, n2, ms, ns)
            st = sx.explore(h, timeout_ms=60000, max_paths=200000)
            run.absorb(st, 'sparsity', bound={'fn': 'compute_sparsity_ij', 'functions': [n1, n2], 'spans<=': ms},
                       sample={'obligation': 'sparsity', 'n1': n1, 'n2': n2})
            for cex in st.cex:
                m = cex['model']
                t1 = [[int(sx.model_value(m, a)), int(sx.model_value(m, b))] for a, b in s1]
                t2 = [[int(sx.model_value(m, a)), int(sx.model_value(m, b))] for a, b in s2]
                r = realbuild.run_real(REPLAY_SPARSITY, {'t1': t1, 't2': t2})
                run.report('compute_sparsity_ij', 'compute_sparsity_ij on support tables %s / %s gives %s, overlapping pairs are %s'
                           % (t1, t2, r['got'], r['expected']), {'kind': 'sparsity', 't1': t1, 't2': t2}, r['reproduced'])
        del ns['np'].__dict__['searchsorted']

    # ---- (3) row/column queries
    if run.want('rows'):
        rcfg = [((2, 2), (2, 3)), ((3, 2), (2, 2))]
        cases = []
        for cbs in rcfg:
            # rows of stored entries per level: every non-decreasing... use two representative layouts
            cases.append((cbs, [[0, 1], [0, 0, 1]], [0, 3]))
            cases.append((cbs, [[1, 0], [1, 0]], [3, 1, 2]))
            cases.append((cbs, [[0, 1], [1, 1]], [2]))
        if thorough:
            cases.append((((2, 2), (2, 2), (2, 2)), [[0, 1], [0, 1], [1, 0]], [7, 0, 5]))
            cases.append((((3, 3), (2, 2)), [[0, 1, 2, 2], [0, 1, 1]], [5, 4, 1, 0]))
        for cbs, rpl, rl in cases:
            h, cols = rows_harness(cbs, rpl, rl, ns)
            st = sx.explore(h, timeout_ms=60000)
            run.absorb(st, 'rows', bound={'fn': 'MLStructure.nonzeros_for_rows', 'bs': [list(b) for b in cbs], 'entry rows': rpl, 'row list': rl},
                       sample={'obligation': 'rows', 'rows': rl})
            for cex in st.cex:
                m = cex['model']
                cc = [[int(sx.model_value(m, x)) for x in lv] for lv in cols]
                w = {'bs': [list(b) for b in cbs], 'rows_per_level': rpl, 'cols': cc, 'row_list': rl}
                r = realbuild.run_real(REPLAY_ROWS, w)
                run.report('nonzeros_for_rows', 'nonzeros_for_rows(%s) on %s is not the row filter of the pattern: got %s want %s'
                           % (rl, w, r['got'], r['expected']), {'kind': 'rows', **w}, r['reproduced'])

    # ---- canaries (vacuity guard): re-introduce known bug shapes into the text read from /repo
    if not run.args.no_canaries and run.want('nonzero'):
        def canary(name, pat, rep, fn, L, nnz, lower):
            src = open('/repo/pyiga/mlmatrix_cy.pyx').read()
            if pat not in src:
                run.canary(name, False, skipped=True); return
            kk = load_kernels(transform=lambda s: s.replace(pat, rep, 1))
            h, _ = nonzero_harness(fn, L, nnz, maxdim, lower, kk)
            st = sx.explore(h, timeout_ms=60000)
            run.canary(name, bool(st.cex))
        canary('nd: block_j initialised from level 0', 'bidx_ptr[i][0], bidx_ptr[i][1]', 'bidx_ptr[i][0], bidx_ptr[0][1]', 'ml_nonzero_nd', 2, (2, 2), False)
        canary('2d: J uses m2', 'J = xi1 * n2 + yi1', 'J = xi1 * m2 + yi1', 'ml_nonzero_2d', 2, (2, 2), False)
        canary('3d: lower_tri uses <', 'if not lower_tri or J <= I:', 'if not lower_tri or J < I:', 'ml_nonzero_2d', 2, (2, 2), True)
    run.finish()


REPLAY_MATVEC = r'''
import sys, json, itertools, numpy as np
w = json.load(sys.stdin)
from pyiga import mlmatrix
bs = [tuple(b) for b in w['bs']]; bz = [np.array(l, dtype=np.uint32).reshape(-1, 2) for l in w['bz']]
rng = np.random.RandomState(0)
shape = tuple(len(b) for b in bz)
X = rng.rand(*shape); M = int(np.prod([b[0] for b in bs])); N = int(np.prod([b[1] for b in bs]))
x = rng.rand(N); y = np.zeros(M)
getattr(mlmatrix, 'ml_matvec_%dd' % w['dim'])(X, tuple(bz), np.array(bs), x, y)
ref = np.zeros(M)
for tup in itertools.product(*[range(n) for n in shape]):
    I = J = 0
    for k in range(len(bs)):
        I = I * bs[k][0] + int(bz[k][tup[k]][0]); J = J * bs[k][1] + int(bz[k][tup[k]][1])
    ref[I] += X[tup] * x[J]
print(json.dumps({'reproduced': bool(not np.allclose(y, ref)), 'got': y.tolist(), 'expected': ref.tolist()}))
'''

REPLAY_SPARSITY = r'''
import sys, json, numpy as np
w = json.load(sys.stdin)
from pyiga import mlmatrix
class KV:
    def __init__(s, t): s.t = np.array(t); s.numdofs = len(t)
    def mesh_support_idx_all(s): return s.t
exp = [(i, j) for i, (a2, b2) in enumerate(w['t2']) for j, (a1, b1) in enumerate(w['t1']) if min(b1, b2) > max(a1, a2)]
try:
    got = [tuple(int(v) for v in r) for r in mlmatrix.compute_sparsity_ij(KV(w['t1']), KV(w['t2']))]
except Exception as e:
    print(json.dumps({'reproduced': True, 'got': 'exception ' + repr(e), 'expected': exp})); sys.exit(0)
print(json.dumps({'reproduced': sorted(got) != exp or len(set(got)) != len(got), 'got': got, 'expected': exp}))
'''

REPLAY_ROWS = r'''
import sys, json, itertools, numpy as np
w = json.load(sys.stdin)
from pyiga import mlmatrix
bs = [tuple(b) for b in w['bs']]
bz = [np.array(list(zip(r, c)), dtype=np.uint32).reshape(-1, 2) for r, c in zip(w['rows_per_level'], w['cols'])]
S = mlmatrix.MLStructure(bs, bz)
I, J = S.nonzeros_for_rows(list(w['row_list']))
got = sorted(zip([int(v) for v in I], [int(v) for v in J]))
full = []
for tup in itertools.product(*[range(len(b)) for b in bz]):
    a = b = 0
    for k in range(len(bs)):
        a = a * bs[k][0] + int(bz[k][tup[k]][0]); b = b * bs[k][1] + int(bz[k][tup[k]][1])
    full.append((a, b))
exp = sorted(p for p in full if p[0] in set(w['row_list']))
print(json.dumps({'reproduced': got != exp, 'got': got, 'expected': exp}))
'''


VALIDATE = r'''
import sys, json, numpy as np
w = json.load(sys.stdin)
from pyiga import mlmatrix
out = []
for bs, bw in w['cases']:
    S = mlmatrix.MLStructure.multi_banded(tuple(bs), tuple(bw))
    fn = {2: mlmatrix.ml_nonzero_2d, 3: mlmatrix.ml_nonzero_3d}.get(len(bs), mlmatrix.ml_nonzero_nd)
    for lower in (False, True):
        out.append([fn(S.bidx, S._bs_arr, lower_tri=lower).tolist(), mlmatrix.ml_nonzero_nd(S.bidx, S._bs_arr, lower_tri=lower).tolist()])
    rng = np.random.RandomState(1)
    if len(bs) in (2, 3):
        X = rng.rand(*[len(b) for b in S.bidx]); x = rng.rand(S.shape[1]); y = np.zeros(S.shape[0])
        getattr(mlmatrix, 'ml_matvec_%dd' % len(bs))(X, S.bidx, S._bs_arr, x, y)
        out.append(y.tolist())
print(json.dumps(out))
'''


def validate_translation(run):
    import pyiga.mlmatrix as real_py   # python-level helpers only (multi_banded); kernels come from the transliteration
    cases = [[[5, 5], [2, 2]], [[4, 3, 3], [2, 1, 1]], [[3, 3, 2, 2], [1, 1, 1, 1]], [[9, 12], [2, 3]]]
    real = realbuild.run_real(VALIDATE, {'cases': cases})
    k = load_pyx('pyiga/mlmatrix_cy.pyx')
    mine = []
    for bs, bw in cases:
        S = real_py.MLStructure.multi_banded(tuple(bs), tuple(bw))
        fn = {2: k['ml_nonzero_2d'], 3: k['ml_nonzero_3d']}.get(len(bs), k['ml_nonzero_nd'])
        for lower in (False, True):
            mine.append([np.asarray(fn(S.bidx, S._bs_arr, lower)).tolist(), np.asarray(k['ml_nonzero_nd'](S.bidx, S._bs_arr, lower)).tolist()])
        rng = np.random.RandomState(1)
        if len(bs) in (2, 3):
            X = rng.rand(*[len(b) for b in S.bidx]); x = rng.rand(S.shape[1]); y = np.zeros(S.shape[0])
            k['ml_matvec_%dd' % len(bs)](X, S.bidx, S._bs_arr, x, y)
            mine.append(y.tolist())
    mism = 0
    for a, b in zip(real, mine):
        if not np.allclose(np.asarray(a, dtype=float), np.asarray(b, dtype=float)):
            mism += 1
    run.translator_validation['cases'] += len(real)
    run.translator_validation['mismatches'] += mism
    if mism:
        run.inconclusive_msg('translator validation: %d of %d concrete cases differ between transliterated and compiled kernels' % (mism, len(real)))


def replay_file(path):
    w = json.load(open(path))['witness']
    code = {'nonzero': REPLAY_NONZERO, 'matvec': REPLAY_MATVEC, 'sparsity': REPLAY_SPARSITY, 'rows': REPLAY_ROWS, 'object': REPLAY_OBJECT, 'transp': REPLAY_TRANSP}[w['kind']]
    r = realbuild.run_real(code, w)
    print(json.dumps(r))
    print('REPRODUCED' if r['reproduced'] else 'NOT-REPRODUCED')
    sys.exit(1 if r['reproduced'] else 0)


if __name__ == '__main__':
    if '--replay' in sys.argv:
        replay_file(sys.argv[sys.argv.index('--replay') + 1])
    main_wrapper(main)
