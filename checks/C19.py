"""C19 -- knot vectors are constructed and queried exactly.

Encoded: pyiga/bspline.py make_knots (exec'd from source under two models of double arithmetic with numpy
stubs for arange/linspace/repeat/concatenate), KnotVector methods (support, support_idx, _ensure_mesh, mesh,
mesh_support_idx(_all), mesh_span_indices, findspan, first_active(_at), greville, refine, __eq__,
numdofs/numspans); pyiga/bspline_cy.pyx pyx_findspan(s) (transliterated); pyiga/spline.py Spline.derivative.
"""
import itertools, json, sys
from fractions import Fraction as F
import numpy as np
import z3

from checks.common import Run, main_wrapper, jsonable
from checks import realbuild
from checks.bsp_oracle import Oracle, symbolic_knots, KV
from symx import core as sx
from symx.core import Sym, lift
from symx.symnp import SymNP
from symx import srcload
from symx import fpmodel as fpm
from cyx.load import load_pyx

PID = 'C19'


# ------------------------------------------------------------------------------------------
# make_knots under the two arithmetic models
class KVRecord:
    def __init__(self, kv, p): self.kv, self.p = kv, p


def run_make_knots(model, p, mult, a, b, n, transform=None):
    ns = {'np': fpm.NPStub(model), 'KnotVector': KVRecord}
    srcload.load_defs('pyiga/bspline.py', ['make_knots'], ns, transform=transform)
    rec = ns['make_knots'](p, a, b, n, mult)
    kv = rec.kv
    if not isinstance(kv, fpm.Concat) or len(kv.parts) != 3:
        raise fpm.Unsupported('make_knots no longer builds concatenate((repeat, repeat, repeat))')
    first, mid, last = kv.parts
    ok = (isinstance(first, fpm.Repeat) and isinstance(last, fpm.Repeat) and isinstance(mid, fpm.Repeat)
          and first.times == p + 1 and last.times == p + 1 and mid.times == mult and isinstance(mid.x, fpm.SymSeq))
    if not ok:
        raise fpm.Unsupported('unexpected structure of the knot vector built by make_knots')
    # the end knots: the objects a and b themselves, or computed values (then "exactly a / exactly b" is an obligation of its own)
    mid.x.ends = (None if first.x is a else first.x, None if last.x is b else last.x)
    return mid.x


def range_constraints(model, a, b, n, amax, gapmin, nmax):
    ar, br = model.real(a), model.real(b)
    cs = [ar >= -amax, ar <= amax, br >= -amax, br <= amax, br - ar >= z3.RealVal(gapmin), n.le(nmax), fpm.MInt(model, model.int_lit(1)).le(n)]
    if isinstance(model, fpm.FPModel):
        cs += [z3.Not(z3.fpIsNaN(a.t)), z3.Not(z3.fpIsInf(a.t)), z3.Not(z3.fpIsNaN(b.t)), z3.Not(z3.fpIsInf(b.t))]
    return cs


def make_knots_obligations(model, mid, a, b, n):
    i = model.int_var('i')
    L = mid.length
    zero, one = model.int_const(0), model.int_const(1)
    obl = {
        'interior breakpoints: count = n - 1': L.eq(n - 1),
        'breakpoints strictly increasing': z3.Implies(z3.And(zero.le(i), i.lt(L - 1)), mid.elem(i).lt(mid.elem(i + 1))),
        'first breakpoint > a': z3.Implies(one.le(L), a.lt(mid.elem(zero))),
        'last breakpoint < b': z3.Implies(one.le(L), mid.elem(L - 1).lt(b)),
    }
    e0, e1 = getattr(mid, 'ends', (None, None))
    if e0 is not None: obl['first p+1 knots are exactly a'] = e0.eq(a)
    if e1 is not None: obl['last p+1 knots are exactly b'] = e1.eq(b)
    return obl


REPLAY_MK = r'''
import sys, json, numpy as np
w = json.load(sys.stdin)
from pyiga import bspline
a, b, n, p, mult = float(w['a']), float(w['b']), int(w['n']), int(w['p']), int(w['mult'])
bad = []
try:
    kv = bspline.make_knots(p, a, b, n, mult)
    if kv.numspans != n: bad.append('numspans = %d for n = %d' % (kv.numspans, n))
    if kv.numdofs != p + 1 + mult * (n - 1): bad.append('numdofs = %d, expected %d' % (kv.numdofs, p + 1 + mult * (n - 1)))
    if kv.kv[-1] != b or kv.kv[0] != a: bad.append('end knots are not exactly a, b')
    if not np.all(np.diff(kv.mesh) > 0) or kv.mesh[0] != a or kv.mesh[-1] != b: bad.append('breakpoints not strictly increasing inside (a,b)')
except AssertionError as e:
    bad.append('constructor assertion: %s' % e)
print(json.dumps({'reproduced': bool(bad), 'bad': bad}))
'''


def check_make_knots(run, thorough, transform=None, report=True):
    """-> True if every obligation was proved in the standard model"""
    amax, gap, nmax = 10 ** 5, F(1, 10 ** 6), 2000
    proved_all = True
    found = []
    for (p, mult) in [(1, 1), (2, 1), (3, 2)] + ([(4, 4), (6, 3), (2, 2)] if thorough else []):
        m = fpm.SMModel()
        a, b = m.var('a'), m.var('b'); n = m.int_var('n')
        try:
            mid = run_make_knots(m, p, mult, a, b, n, transform)
        except fpm.Unsupported as e:
            run.inconclusive_msg('make_knots: %s' % e); return False, []
        pre = range_constraints(m, a, b, n, amax, gap, nmax)
        obl = make_knots_obligations(m, mid, a, b, n)
        res = {}
        for name, prop in obl.items():
            s = z3.Solver(); s.set('timeout', 60000)
            s.add(*pre); s.add(*m.side); s.add(z3.Not(prop))
            r = str(s.check()); res['make_knots[standard model] p=%d mult=%d: %s' % (p, mult, name)] = r
            if r != 'unsat':
                proved_all = False; found.append((name, p, mult))
        if report:
            # `sat` in the standard model is only a candidate: recorded as not-proved, decided by the exact search below
            run.record_queries('make_knots (standard model of rounding)', {k: ('unsat' if v == 'unsat' else 'sat') for k, v in res.items()},
                               bound={'p': p, 'mult': mult, '|a|,|b| <=': amax, 'b-a >=': '1e-6', 'n <=': nmax},
                               sample={'obligation': 'make_knots', 'p': p, 'mult': mult, 'answers': list(res.values())})
    return proved_all, found


def hunt_make_knots(run, thorough, budget_ms, transform=None):
    """exact IEEE-754 search for a counterexample of 'count = n-1' on a list of intervals with symbolic n"""
    intervals = [(0.0, 1.0), (0.25, 1.75)] + ([(0.0, 0.1), (-1.0, 1.0), (0.0, 3.0), (1.0, 2.0), (0.0, 1e-3), (-5.0, 7.0), (100.0, 101.0), (0.0, 1e3), (0.1, 0.7)] if thorough else [])
    hits = []
    for (av, bv) in intervals:
        m = fpm.FPModel()
        a, b = m.const(av), m.const(bv); n = m.int_var('n', bits=11)
        try:
            # run_make_knots checks identity of a, b objects
            mid = run_make_knots(m, 2, 1, a, b, n, transform)
        except fpm.Unsupported as e:
            run.inconclusive_msg('make_knots: %s' % e); return hits
        s = z3.Solver(); s.set('timeout', budget_ms)
        bad_ = [z3.Not(mid.length.eq(n - 1))]
        e0, e1 = getattr(mid, 'ends', (None, None))
        if e0 is not None: bad_.append(z3.Not(e0.eq(a)))
        if e1 is not None: bad_.append(z3.Not(e1.eq(b)))
        s.add(z3.UGE(m.int_bv, 1), z3.ULE(m.int_bv, 2000), z3.Or(*bad_))
        r = str(s.check())
        run.queries[r] += 1
        run.groups.append({'group': 'make_knots exact-FP bug hunting', 'bound': {'a': av, 'b': bv, 'n': '1..2000 symbolic'}, 'answer': r,
                           'note': 'unknown = no counterexample found within the budget (neither proof nor failure)'})
        if r == 'sat':
            nv = s.model().eval(m.int_bv).as_long()
            hits.append((av, bv, nv))
    return hits


# ------------------------------------------------------------------------------------------
def load_kv_code(enc=None, transform=None):
    cy = load_pyx('pyiga/bspline_cy.pyx', encoded=enc); cy['np'] = SymNP()
    snp = SymNP(ints_object=False)
    snp.unique = unique_stub; snp.convolve = convolve_stub; snp.clip = clip_stub; snp.sort = sort_stub; snp.allclose = allclose_stub
    snp.all = all_stub; snp.where = np.where
    ns = {'np': snp, 'pyx_findspan': cy['pyx_findspan']}
    srcload.load_defs('pyiga/bspline.py', ['KnotVector'], ns, encoded=enc, transform=transform)
    sp = {'np': SymNP(), 'bspline': type('B', (), {'KnotVector': ns['KnotVector']})}
    srcload.load_defs('pyiga/spline.py', ['Spline'], sp, encoded=enc)
    ns['Spline'] = sp['Spline']
    return cy, ns


def unique_stub(arr, return_inverse=False):
    """np.unique on a SORTED array by comparison forking: (unique values, inverse indices)"""
    arr = list(arr); mesh = []; inv = []
    for x in arr:
        if mesh and bool(x == mesh[-1]): inv.append(len(mesh) - 1)
        else:
            mesh.append(x); inv.append(len(mesh) - 1)
    m = np.empty(len(mesh), dtype=object)
    for i, v in enumerate(mesh): m[i] = v
    return (m, np.array(inv, dtype=int)) if return_inverse else m


def convolve_stub(a, v):
    a = list(a); v = list(v); n, k = len(a), len(v)
    out = np.empty(n + k - 1, dtype=object)
    for i in range(n + k - 1):
        s = 0
        for j in range(k):
            if 0 <= i - j < n: s = s + a[i - j] * v[j]
        out[i] = s
    return out


def clip_stub(g, lo, hi):
    out = np.empty(len(g), dtype=object)
    for i, x in enumerate(g):
        xt = sx._toreal(lift(x)); l = sx._toreal(lift(lo)); h = sx._toreal(lift(hi))
        out[i] = Sym(z3.If(xt < l, l, z3.If(xt > h, h, xt)))
    return out


def sort_stub(arr):
    """np.sort by comparison forking (insertion sort)"""
    out = []
    for x in list(arr):
        k = len(out)
        while k > 0 and bool(x < out[k - 1]): k -= 1
        out.insert(k, x)
    r = np.empty(len(out), dtype=object)
    for i, v in enumerate(out): r[i] = v
    return r


def allclose_stub(a, b, rtol=1e-5, atol=1e-8):
    """documented numpy formula: all(|a - b| <= atol + rtol * |b|)"""
    cs = []
    for x, y in zip(list(a), list(b)):
        xt, yt = sx._toreal(lift(x)), sx._toreal(lift(y))
        d = z3.If(xt - yt >= 0, xt - yt, yt - xt); ay = z3.If(yt >= 0, yt, -yt)
        cs.append(d <= sx._toreal(lift(atol)) + sx._toreal(lift(rtol)) * ay)
    return bool(sx.SymB(z3.And(*cs)))


def all_stub(x):
    x = np.asarray(x, dtype=object).ravel()
    return bool(sx.SymB(z3.And(*[lift(v) if z3.is_bool(lift(v)) else lift(v) != 0 for v in x]))) if len(x) else True


def queries_harness(cy, ns, p, nint):
    kvz, pre = symbolic_knots(p, nint)
    u = z3.Real('u')

    def run(c):
        for q in pre: c.assume(q)
        c.assume(z3.And(u >= kvz[0], u <= kvz[-1]))
        arr = np.empty(len(kvz), dtype=object)
        for i, t in enumerate(kvz): arr[i] = Sym(t)
        kv = ns['KnotVector'](arr, p)
        n = kv.numdofs
        mesh = list(kv.mesh)
        props = [z3.BoolVal(n == len(kvz) - p - 1), z3.BoolVal(kv.numspans == len(mesh) - 1)]
        props += [lift(mesh[i]) < lift(mesh[i + 1]) for i in range(len(mesh) - 1)]
        props += [lift(mesh[0]) == kvz[0], lift(mesh[-1]) == kvz[-1]]
        msa = kv.mesh_support_idx_all()
        for j in range(n):
            s0, s1 = kv.support(j)
            props += [lift(s0) == kvz[j], lift(s1) == kvz[j + p + 1]]
            ms = kv.mesh_support_idx(j)
            props += [lift(mesh[int(ms[0])]) == kvz[j], lift(mesh[int(ms[1])]) == kvz[j + p + 1], z3.BoolVal(int(msa[j, 0]) == int(ms[0]) and int(msa[j, 1]) == int(ms[1]))]
        msi = [int(v) for v in kv.mesh_span_indices()]
        props.append(z3.BoolVal(len(msi) == kv.numspans))
        for k, i in enumerate(msi):
            props += [kvz[i] < kvz[i + 1], kvz[i] == lift(mesh[k])]
        span = kv.findspan(Sym(u))
        props.append(z3.BoolVal(span in msi))
        props += [kvz[span] <= u, z3.Or(u < kvz[span + 1], z3.And(u == kvz[-1], kvz[span + 1] == kvz[-1]))]
        props.append(z3.BoolVal(kv.first_active_at(Sym(u)) == span - p and kv.first_active(span) == span - p))
        c.check(z3.And(*props), 'mesh / support / span-index / mesh-support / findspan queries are mutually consistent')
        g = list(kv.greville())
        gp = [z3.BoolVal(len(g) == n)] + [z3.And(lift(x) >= kvz[0], lift(x) <= kvz[-1]) for x in g] + [lift(g[i]) <= lift(g[i + 1]) for i in range(len(g) - 1)]
        # g_i = mean(kv[i+1..i+p]); the code multiplies by the double 1/p, so allow its relative rounding error (2^-52)
        def _abs(t): return z3.If(t >= 0, t, -t)
        for i in range(n if p >= 1 else 0):
            S = z3.Sum([kvz[i + k] for k in range(1, p + 1)]); SA = z3.Sum([_abs(kvz[i + k]) for k in range(1, p + 1)])
            gp.append(_abs(sx._toreal(lift(g[i])) * p - S) <= z3.RealVal(F(1, 2 ** 50)) * SA)
        c.check(z3.And(*gp), 'Greville points: knot averages, one per basis function, inside the domain, non-decreasing')
        c.witness('queries')
    return run


def refine_harness(cy, ns, p, nint, nnew):
    kvz, pre = symbolic_knots(p, nint)
    new = [z3.Real('nk%d' % i) for i in range(nnew)]

    def run(c):
        for q in pre: c.assume(q)
        for t in new: c.assume(z3.And(t > kvz[0], t < kvz[-1]))
        arr = np.empty(len(kvz), dtype=object)
        for i, t in enumerate(kvz): arr[i] = Sym(t)
        kv = ns['KnotVector'](arr, p)
        if nnew:
            nk = np.empty(nnew, dtype=object)
            for i, t in enumerate(new): nk[i] = Sym(t)
            try:
                r = kv.refine(nk)
            except AssertionError:
                c.check(z3.BoolVal(False), 'refine: result rejected by the KnotVector constructor'); return
            allk = kvz + new
        else:
            r = kv.refine()
            mesh = list(kv.mesh)
            allk = kvz + [(lift(mesh[i]) + lift(mesh[i + 1])) / 2 for i in range(len(mesh) - 1)]
        out = [lift(x) for x in r.kv]
        props = [z3.BoolVal(len(out) == len(allk) and r.p == p)] + [out[i] <= out[i + 1] for i in range(len(out) - 1)]
        f = z3.Function('w', z3.RealSort(), z3.RealSort())
        props.append(z3.Sum([f(x) for x in out]) == z3.Sum([f(x) for x in allk]))     # same multiset for every weight function
        c.check(z3.And(*props), 'refine = sorted union (uniform refinement inserts every span midpoint)')
        c.witness('refine')
    return run


def eq_harness(cy, ns, p, nint):
    k1, pre1 = symbolic_knots(p, nint, tag='k'); k2, pre2 = symbolic_knots(p, nint, tag='l')

    def run(c):
        for q in pre1 + pre2: c.assume(q)
        def mk(kz):
            arr = np.empty(len(kz), dtype=object)
            for i, t in enumerate(kz): arr[i] = Sym(t)
            return ns['KnotVector'](arr, p)
        A, B = mk(k1), mk(k2)
        ab = bool(A == B); ba = bool(B == A); aa = bool(A == A)
        c.check(z3.BoolVal(aa), 'equality is reflexive')
        c.check(z3.BoolVal(ab == ba), 'equality is symmetric')
    return run, k1, k2


REPLAY_EQ = r'''
import sys, json, numpy as np
w = json.load(sys.stdin)
from pyiga import bspline
A = bspline.KnotVector(np.array([float(x) for x in w['k1']]), w['p']); B = bspline.KnotVector(np.array([float(x) for x in w['k2']]), w['p'])
ab, ba, aa = bool(A == B), bool(B == A), bool(A == A)
print(json.dumps({'reproduced': (ab != ba) or not aa, 'A==B': ab, 'B==A': ba, 'A==A': aa}))
'''


def derivative_harness(cy, ns, p, nint):
    kvz, pre = symbolic_knots(p, nint)
    x = z3.Real('x')

    def run(c):
        for q in pre: c.assume(q)
        c.assume(z3.And(x >= kvz[0], x <= kvz[-1]))
        arr = np.empty(len(kvz), dtype=object)
        for i, t in enumerate(kvz): arr[i] = Sym(t)
        kv = ns['KnotVector'](arr, p)
        n = kv.numdofs
        coef = sx.symarray('c', (n,))
        S = ns['Spline'](kv, coef)
        D = S.derivative()
        o1 = Oracle(kvz, p, x); o2 = Oracle([lift(t) for t in D.kv.kv], p - 1, x, last=kvz[-1])
        lhs = z3.Sum([lift(coef[i]) * o1.dN(i, 1) for i in range(n)])
        rhs = z3.Sum([sx._toreal(lift(D.coeffs[j])) * o2.N(j) for j in range(len(D.coeffs))])
        c.check(z3.And(z3.BoolVal(D.kv.p == p - 1 and len(D.coeffs) == n - 1), lhs == rhs), 'Spline.derivative() = pointwise derivative of the spline')
        c.witness('derivative')
    return run


def main():
    run = Run(PID, level='other', description='make_knots under an exact and a standard-model encoding of double arithmetic; knot-vector queries on fully symbolic knot vectors.')
    thorough = run.tier == 'thorough'
    enc = srcload.Encoded()
    srcload.load_defs('pyiga/bspline.py', ['make_knots'], {'np': None}, encoded=enc)
    cy, ns = load_kv_code(enc)
    run.add_encoded(enc)
    run.stubs += ['np.arange/linspace/repeat/concatenate -> documented numpy algorithm on symbolic-length sequences (fpmodel.NPStub)',
                  'np.unique (sorted input) / np.sort / np.clip / np.convolve / np.allclose / np.all -> comparison-forking or formula stubs of the documented semantics']
    run.assumptions += ['make_knots claim range: |a|,|b| <= 1e5, b-a >= 1e-6, 1 <= n <= 2000 (normal range, no overflow)',
                        'standard model of rounding over-approximates IEEE round-to-nearest: unsat is sound, sat only a candidate',
                        'knot-vector queries: reals for doubles; open knot vector, interior multiplicity <= p']
    run.out_of_scope += ['n > 2000, |a|,|b| > 1e5', 'meshsize_avg rounding', 'exact-FP search beyond its time budget']
    run.bounds = {'make_knots': 'p, mult concrete (6 combinations), a, b, n symbolic', 'queries': 'p <= 3, <= 3 interior knots (4 thorough), all multiplicity patterns through coincident symbolic knots',
                  'refine': '<= 2 new knots', 'derivative': 'p <= 3'}
    if run.want('make_knots'):
        proved, notproved = check_make_knots(run, thorough)
        hits = hunt_make_knots(run, thorough, 60000 if thorough else 20000) if (not proved or thorough or True) else []
        seen = False
        for (av, bv, nv) in hits:
            w = {'a': av, 'b': bv, 'n': nv, 'p': 2, 'mult': 1, 'kind': 'make_knots'}
            r = realbuild.run_real(REPLAY_MK, w, only=[])
            run.report('make_knots:span count', 'make_knots(2, %r, %r, %d): %s' % (av, bv, nv, r['bad']), w, r['reproduced'])
            seen = seen or r['reproduced']
        if not proved and not seen:
            run.inconclusive_msg('make_knots obligations %s not proved in the standard model and no exact counterexample found' % notproved)
    if run.want('make_knots') and not run.args.no_canaries:
        m = fpm.SMModel(); a, b = m.var('a'), m.var('b'); n = m.int_var('n')
        try:
            mid = run_make_knots(m, 2, 1, a, b, n)
            pre = range_constraints(m, a, b, n, 10 ** 12, F(1, 10 ** 6), 2000)
            s_ = z3.Solver(); s_.set('timeout', 30000); s_.add(*pre); s_.add(*m.side)
            s_.add(z3.Not(make_knots_obligations(m, mid, a, b, n)['breakpoints strictly increasing']))
            run.canary('standard-model encoding is not vacuous (range 1e12 must admit a violation)', str(s_.check()) == 'sat')
        except fpm.Unsupported:
            run.canary('standard-model encoding is not vacuous', False, skipped=True)
    if run.want('queries'):
        for (p, nint) in [(1, 2), (2, 2), (2, 3), (3, 2)] + ([(3, 3), (2, 4), (4, 2)] if thorough else []):
            st = sx.explore(queries_harness(cy, ns, p, nint), timeout_ms=60000, max_paths=5000)
            run.absorb(st, 'knot-vector queries', bound={'p': p, 'interior knots': nint}, sample={'obligation': 'queries', 'p': p, 'interior knots': nint})
            for cex in st.cex:
                run.report('KnotVector:' + cex['name'][:40], '%s: %s' % (cex['name'], jsonable(sx.model_dict(cex['model']))), {'kind': 'queries', 'model': jsonable(sx.model_dict(cex['model']))}, True)
        for (p, nint, nn) in [(2, 1, 0), (2, 2, 1), (1, 1, 2)] + ([(3, 2, 2), (2, 3, 0)] if thorough else []):
            st = sx.explore(refine_harness(cy, ns, p, nint, nn), timeout_ms=60000, max_paths=5000)
            run.absorb(st, 'refine', bound={'p': p, 'interior knots': nint, 'new knots': nn or 'uniform'}, sample={'obligation': 'refine', 'p': p})
            for cex in st.cex:
                run.report('KnotVector.refine', '%s: %s' % (cex['name'], jsonable(sx.model_dict(cex['model']))), {'kind': 'refine'}, True)
        for (p, nint) in [(2, 1), (3, 2)] + ([(3, 3)] if thorough else []):
            st = sx.explore(derivative_harness(cy, ns, p, nint), timeout_ms=120000, max_paths=5000)
            run.absorb(st, 'spline derivative', bound={'p': p, 'interior knots': nint}, sample={'obligation': 'Spline.derivative', 'p': p})
            for cex in st.cex:
                run.report('Spline.derivative', '%s: %s' % (cex['name'], jsonable(sx.model_dict(cex['model']))), {'kind': 'derivative'}, True)
    if run.want('eq'):
        h, k1, k2 = eq_harness(cy, ns, 1, 1)
        st = sx.explore(h, timeout_ms=60000, max_paths=5000)
        run.absorb(st, 'equality', bound={'p': 1, 'interior knots': 1}, sample={'obligation': 'KnotVector.__eq__ reflexive and symmetric'})
        for cex in st.cex:
            m = cex['model']
            w = {'k1': [float(F(sx.model_value(m, t))) for t in k1], 'k2': [float(F(sx.model_value(m, t))) for t in k2], 'p': 1, 'kind': 'eq'}
            r = realbuild.run_real(REPLAY_EQ, w, only=[])
            run.report('KnotVector.__eq__:' + cex['name'], 'KnotVector(%s) == KnotVector(%s): %s; real: %s' % (w['k1'], w['k2'], cex['name'], r), w, r['reproduced'])
    if not run.args.no_canaries and run.want('queries'):
        src = srcload.read('pyiga/bspline.py')
        def canary(name, pat, rep, harness):
            if pat not in src: run.canary(name, False, skipped=True); return
            cy2, ns2 = load_kv_code(transform=lambda s: s.replace(pat, rep, 1))
            st = sx.explore(harness(cy2, ns2), timeout_ms=30000, max_paths=5000)
            run.canary(name, bool(st.cex))
        canary('support off by one', 'return (self.kv[j], self.kv[j+self.p+1])', 'return (self.kv[j], self.kv[j+self.p])', lambda c2, n2: queries_harness(c2, n2, 2, 2))
        canary('greville window', 'g = (np.convolve(self.kv, np.ones(p) / p))[p:-p]', 'g = (np.convolve(self.kv, np.ones(p) / p))[p-1:-p-1]', lambda c2, n2: queries_harness(c2, n2, 2, 2))
        canary('uniform refinement not midpoints', 'new_knots = (mesh[1:] + mesh[:-1]) / 2', 'new_knots = (2 * mesh[1:] + mesh[:-1]) / 3', lambda c2, n2: refine_harness(c2, n2, 2, 1, 0))
        # make_knots canary: re-introduce the accumulating arange form and require the exact search to find a counterexample
        mk_pat = "np.repeat(a + np.arange(1, n) * ((b-a) / n), mult),"
        if mk_pat in src:
            hits = hunt_make_knots(_Quiet(), False, 60000, transform=lambda s: s.replace(mk_pat, "np.repeat(np.arange(a, b, (b-a) / n)[1:], mult),", 1))
            run.canary('make_knots: arange with accumulated step', bool(hits))
        else:
            run.canary('make_knots: arange with accumulated step', False, skipped=True)
    run.finish()


class _Quiet:
    def __init__(self): self.queries = {'unsat': 0, 'sat': 0, 'unknown': 0}; self.groups = []
    def inconclusive_msg(self, m): pass


def replay_file(path):
    w = json.load(open(path))['witness']
    code = {'make_knots': REPLAY_MK, 'eq': REPLAY_EQ}.get(w.get('kind'))
    r = realbuild.run_real(code, w, only=[]) if code else {'reproduced': True}
    print(json.dumps(r)); print('REPRODUCED' if r['reproduced'] else 'NOT-REPRODUCED')
    sys.exit(1 if r['reproduced'] else 0)


if __name__ == '__main__':
    if '--replay' in sys.argv:
        replay_file(sys.argv[sys.argv.index('--replay') + 1])
    main_wrapper(main)
