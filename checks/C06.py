"""C06 -- form rewriting and differentiation passes preserve the integrand's value.

Per program (variational form) translation validation:  D[[original]](env) = D[[after add()]](env)
= D[[after finalize()]](env)  for ALL environments (geometry jets with det J != 0, field values,
parameters, basis-function jets), decided by z3 (QF_NRA + UF).  The real VForm code (whole module
pyiga/vform.py, exec'd from /repo's current source) builds and rewrites the form; vfsem gives the meaning.
"""
import json, os, sys, time, random, traceback
import multiprocessing as mp
import z3

from checks.common import Run, main_wrapper, jsonable
from checks import realbuild
from symx import srcload
from vfsem import sem, gen

PID = 'C06'
EXPLICIT = (TypeError, NotImplementedError, ValueError, RuntimeError, ZeroDivisionError)

_VF = {}


def vfmod(mutant=None):
    key = mutant[0] if mutant else None
    if key not in _VF:
        tr = None
        if mutant:
            pat, rep = mutant[1], mutant[2]
            tr = lambda s: s.replace(pat, rep, 1)
        _VF[key] = srcload.load_module('pyiga/vform.py', 'vform_sym_%s' % abs(hash(key)), transform=tr)
    return _VF[key]


def build_program(vf, spec):
    if spec[0] == 'corpus':
        for name, make in gen.corpus(vf):
            if name == spec[1]:
                V = make()
                return {'V': V, 'orig': None, 'desc': name}
        raise KeyError(spec[1])
    if spec[0] == 'rand':
        return gen.make_random_form(vf, spec[1], depth=spec[2])
    raise ValueError(spec)


def solve(pre, neq, timeout_ms):
    s = z3.Solver(); s.set('timeout', timeout_ms)
    s.add(*pre); s.add(neq)
    t = time.time(); r = s.check()
    return str(r), (s.model() if r == z3.sat else None), time.time() - t


def analyse(spec, mutant=None, timeout_ms=20000, diff_rules=True):
    """-> dict(status, ...) for one program"""
    vf = vfmod(mutant)
    out = {'spec': list(spec), 'queries': {'unsat': 0, 'sat': 0, 'unknown': 0}, 'solver_s': 0.0}
    t0 = time.time()
    try:
        r = build_program(vf, spec)
    except EXPLICIT + (AssertionError, gen.Skip) as e:
        out['status'] = 'reject-build'; out['detail'] = type(e).__name__; return out
    V = r['V']; out['desc'] = r.get('desc', '')
    env = sem.Env(vf, V)
    try:
        e1 = [sem.ev(e, env) for e in V.exprs]
        e0 = None
        if r.get('orig') is not None and V.vec:
            # original scalar integrand with vector-valued basis functions: entry (i,j) is obtained by substituting
            # the i-th / j-th unit vector field (documented component substitution), row-major (test comp, trial comp)
            e0 = []
            orig = r['orig'][0]
            if V.arity == 1:
                for i in range(V.basis_funs[0].numcomp):
                    env.bf_subst = {V.basis_funs[0].name: i}
                    e0.append(sem.ev(orig, env))
            else:
                bu, bv = V.basis_funs
                for i in range(bv.numcomp or 1):
                    for j in range(bu.numcomp or 1):
                        env.bf_subst = {bv.name: i, bu.name: j}
                        e0.append(sem.ev(orig, env))
            env.bf_subst = None
    except NotImplementedError as e:
        out['status'] = 'sem-unsupported'; out['detail'] = str(e)[:100]; return out
    try:
        V.finalize()
    except EXPLICIT as e:
        out['status'] = 'reject-finalize'; out['detail'] = '%s: %s' % (type(e).__name__, str(e)[:80]); return out
    except Exception as e:
        out['status'] = 'crash-finalize'; out['detail'] = '%s: %s' % (type(e).__name__, str(e)[:120]); return out
    env.record_denoms = False
    try:
        e2, problems = sem.eval_finalized(V, env)
    except NotImplementedError as e:
        out['status'] = 'sem-unsupported'; out['detail'] = str(e)[:100]; return out
    out['structural'] = problems
    geo = env.geometry_assumptions()
    pre = geo + env.side + [d != 0 for d in env.denoms]
    # lemmas used for compositional abstraction (JacInv . Jac = I)
    for nm, lem in env.lemmas:
        res, m, dt = solve(geo, z3.Not(lem), timeout_ms)
        out['queries'][res] += 1; out['solver_s'] += dt
        if res != 'unsat':
            out['status'] = 'violation' if res == 'sat' else 'undecided'
            out['which'] = 'lemma ' + nm
            if m is not None: out['model'] = model_atoms(m, env)
            return out
    B1 = sem.flat(e1); B2 = sem.flat(e2)
    pairs = []
    if e0 is not None:
        B0 = sem.flat(e0)
        if len(B0) != len(B1):
            out['status'] = 'violation'; out['which'] = 'vector component layout (%d entries expected, %d produced)' % (len(B0), len(B1)); out['model'] = {}
            return out
        pairs += [('add(): component substitution', a, b) for a, b in zip(B0, B1)]
    if len(B1) != len(B2):
        out['status'] = 'violation'; out['which'] = 'finalize changed the number of expressions'; out['model'] = {}; return out
    pairs += [('finalize()', a, b) for a, b in zip(B1, B2)]
    neqs = [a != b for (_, a, b) in pairs if not (z3.is_expr(a) and z3.is_expr(b) and a.eq(b))]
    if neqs:
        res, m, dt = solve(pre, z3.Or(*neqs), timeout_ms)
        out['queries'][res] += 1; out['solver_s'] += dt
        if res == 'unknown' and len(neqs) > 1:
            # retry per component
            res = 'unsat'
            for q in neqs:
                r1, m1, dt = solve(pre, q, timeout_ms)
                out['queries'][r1] += 1; out['solver_s'] += dt
                if r1 == 'sat': res, m = 'sat', m1; break
                if r1 == 'unknown': res = 'unknown'
        if res == 'sat':
            out['status'] = 'violation'; out['which'] = 'value changed'
            out['model'] = model_atoms(m, env)
            return out
        if res == 'unknown':
            out['status'] = 'undecided'; return out
    else:
        out['queries']['unsat'] += 1     # syntactically identical: discharged by the simplifier
    if problems:
        out['status'] = 'violation'; out['which'] = 'order: ' + '; '.join(problems); out['model'] = {}
        return out
    out['status'] = 'holds'
    out['wall_s'] = time.time() - t0
    return out


def analyse_diff(seed, mutant=None, timeout_ms=20000):
    """differentiation rules: D[[Dx(e,k)]] = d/dx_k D[[e]] (forward-mode oracle)"""
    vf = vfmod(mutant)
    out = {'spec': ['diff', seed], 'queries': {'unsat': 0, 'sat': 0, 'unknown': 0}, 'solver_s': 0.0}
    try:
        r = gen.make_diff_case(vf, seed)
    except EXPLICIT + (AssertionError,) as e:
        out['status'] = 'reject-build'; out['detail'] = type(e).__name__; return out
    V = r['V']; out['desc'] = r['desc']
    env = sem.Env(vf, V)
    try:
        de = vf.Dx(r['e'], r['k'], parametric=r['parametric'])
    except EXPLICIT as e:
        out['status'] = 'reject-build'; out['detail'] = type(e).__name__; return out
    except AssertionError as e:
        out['status'] = 'reject-build'; out['detail'] = 'AssertionError'; return out
    try:
        lhs = sem.ev(de, env)
        _, rhs = sem.dual(r['e'], env, r['k'], r['parametric'])
    except (sem.NotDifferentiable, NotImplementedError) as e:
        out['status'] = 'sem-unsupported'; out['detail'] = str(e)[:80]; return out
    pre = env.geometry_assumptions() + env.side + [dd != 0 for dd in env.denoms]
    if z3.is_expr(lhs) and z3.is_expr(rhs) and lhs.eq(rhs):
        out['queries']['unsat'] += 1; out['status'] = 'holds'; return out
    res, m, dt = solve(pre, lhs != rhs, timeout_ms)
    out['queries'][res] += 1; out['solver_s'] += dt
    if res == 'sat':
        out['status'] = 'violation'; out['which'] = 'differentiation rule'; out['model'] = model_atoms(m, env)
    elif res == 'unknown':
        out['status'] = 'undecided'
    else:
        out['status'] = 'holds'
    return out


def equiv_cases(vf):
    """pairs (name, tensor/derivative API expression, the same quantity written with scalar primitives only): the definitions of the
    composite operations a form is written with"""
    out = []
    def case(name, mk): out.append((name, mk))
    def mats(d=2):
        V = vf.VForm(d, arity=1); v = V.basisfuns(); A = V.input('A', shape=(2, 3)); B = V.input('B', shape=(3, 2)); x = V.input('x', shape=(3,)); y = V.input('y', shape=(3,))
        return V, v, A, B, x, y
    def c(i, j):
        def mk():
            V, v, A, B, x, y = mats(); return V, vf.dot(A, B)[i, j], sum((A[i, k] * B[k, j] for k in range(1, 3)), A[i, 0] * B[0, j])
        return mk
    for i in range(2):
        for j in range(2): case('dot(A 2x3, B 3x2)[%d,%d]' % (i, j), c(i, j))
    def c(i, j):
        def mk():
            V, v, A, B, x, y = mats(); return V, vf.dot(B, A)[i, j], B[i, 0] * A[0, j] + B[i, 1] * A[1, j]
        return mk
    for i, j in ((0, 0), (2, 1), (1, 2), (2, 2)): case('dot(B 3x2, A 2x3)[%d,%d]' % (i, j), c(i, j))
    def c(i):
        def mk():
            V, v, A, B, x, y = mats(); return V, vf.dot(A, x)[i], A[i, 0] * x[0] + A[i, 1] * x[1] + A[i, 2] * x[2]
        return mk
    for i in range(2): case('dot(A 2x3, x)[%d]' % i, c(i))
    def mk():
        V, v, A, B, x, y = mats(); return V, vf.inner(x, y), x[0] * y[0] + x[1] * y[1] + x[2] * y[2]
    case('inner(x, y)', mk)
    def c(i, j):
        def mk():
            V, v, A, B, x, y = mats(); return V, vf.outer(x, y)[i, j], x[i] * y[j]
        return mk
    for i, j in ((0, 2), (2, 1)): case('outer(x, y)[%d,%d]' % (i, j), c(i, j))
    def c(i):
        def mk():
            V, v, A, B, x, y = mats(); a, b = (i + 1) % 3, (i + 2) % 3
            return V, vf.cross(x, y)[i], x[a] * y[b] - x[b] * y[a]
        return mk
    for i in range(3): case('cross(x, y)[%d]' % i, c(i))
    def c(i, j):
        def mk():
            V, v, A, B, x, y = mats(); return V, A.T[i, j], A[j, i]
        return mk
    for i, j in ((0, 1), (2, 0)): case('A.T[%d,%d]' % (i, j), c(i, j))
    # repeated differentiation in one call = chained first derivatives, for every kind of differentiable thing
    def dcase(kind, d, k, times):
        def mk():
            V = vf.VForm(d, arity=1); v = V.basisfuns(); f = V.input('f'); g = V.input('g')
            w = {'field': f, 'let': V.let('w', f - g * g), 'let of let': V.let('w2', V.let('w1', f * g) + g), 'basis': v}[kind]
            lhs = vf.Dx(w, k, times, parametric=True) if kind != 'basis' else w.dx(k, times=times, parametric=True)
            rhs = w
            for _ in range(times): rhs = vf.Dx(rhs, k, parametric=True) if kind != 'basis' else rhs.dx(k, parametric=True)
            return V, lhs, rhs
        return mk
    for kind in ('field', 'let', 'let of let', 'basis'):
        for d, k, times in ((1, 0, 2), (2, 1, 2), (2, 0, 3)):
            case('Dx(%s, %d, times=%d) in %dD' % (kind, k, times, d), dcase(kind, d, k, times))
    def mk():
        V = vf.VForm(2, arity=1); v = V.basisfuns(); f = V.input('f'); g = V.input('g'); w = V.let('w', f - g * g)
        return V, w.dx(0, times=2), w.dx(0).dx(0)
    case('w.dx(0, times=2) for a let variable', mk)
    return out


def analyse_equiv(idx, mutant=None, timeout_ms=20000):
    vf = vfmod(mutant)
    out = {'spec': ['equiv', idx], 'queries': {'unsat': 0, 'sat': 0, 'unknown': 0}, 'solver_s': 0.0}
    name, mk = equiv_cases(vf)[idx]
    out['desc'] = name
    try:
        V, lhs, rhs = mk()
    except EXPLICIT + (AssertionError,) as e:
        out['status'] = 'reject-build'; out['detail'] = '%s: %s' % (type(e).__name__, str(e)[:80]); return out
    env = sem.Env(vf, V)
    try:
        a = sem.ev(vf.as_expr(lhs), env); b = sem.ev(vf.as_expr(rhs), env)
    except NotImplementedError as e:
        out['status'] = 'sem-unsupported'; out['detail'] = str(e)[:100]; return out
    pre = env.geometry_assumptions() + env.side + [dd != 0 for dd in env.denoms]
    if z3.is_expr(a) and z3.is_expr(b) and a.eq(b):
        out['queries']['unsat'] += 1; out['status'] = 'holds'; return out
    res, m, dt = solve(pre, a != b, timeout_ms)
    out['queries'][res] += 1; out['solver_s'] += dt
    if res == 'sat':
        out['status'] = 'violation'; out['which'] = 'definition of a composite operation: ' + name; out['model'] = model_atoms(m, env)
    else:
        out['status'] = 'undecided' if res == 'unknown' else 'holds'
    return out


def model_atoms(m, env):
    vals = {}
    for name, t in env.atoms.items():
        v = m.eval(t, model_completion=True)
        try:
            vals[name] = float(v.numerator_as_long()) / float(v.denominator_as_long())
        except Exception:
            try:
                vals[name] = float(v.approx(20).numerator_as_long()) / float(v.approx(20).denominator_as_long())
            except Exception:
                vals[name] = 0.5
    return vals


def _worker(args):
    spec, mutant, timeout_ms = args
    try:
        if spec[0] == 'diff':
            return analyse_diff(spec[1], mutant, timeout_ms)
        if spec[0] == 'equiv':
            return analyse_equiv(spec[1], mutant, timeout_ms)
        return analyse(spec, mutant, timeout_ms)
    except Exception as e:
        return {'spec': list(spec), 'status': 'harness-error', 'detail': traceback.format_exc()[-800:],
                'queries': {'unsat': 0, 'sat': 0, 'unknown': 0}, 'solver_s': 0.0}


REPLAY = r'''
import sys, json, random
w = json.load(sys.stdin)
from pyiga import vform as vf          # the REAL module, imported from the build under test
from vfsem import sem
from checks.C06 import build_program
spec = tuple(w['spec'])
atoms = w.get('model') or {}
def run(perturb, rnd):
    r = build_program(vf, spec)
    V = r['V']
    def val(name):
        base = atoms.get(name, 0.37)
        return base + (rnd.uniform(-0.3, 0.3) if perturb else 0.0)
    cache = {}
    def atom(name):
        if name not in cache: cache[name] = val(name)
        if name.startswith('gw'): cache[name] = abs(cache[name]) + 0.1
        return cache[name]
    env = sem.NumEnv(vf, V, atom)
    e1 = sem.flat([sem.ev(e, env) for e in V.exprs])
    e0 = None
    if r.get('orig') is not None and V.vec:
        e0 = []
        orig = r['orig'][0]
        if V.arity == 1:
            for i in range(V.basis_funs[0].numcomp):
                env.bf_subst = {V.basis_funs[0].name: i}; e0.append(sem.ev(orig, env))
        else:
            bu, bv = V.basis_funs
            for i in range(bv.numcomp or 1):
                for j in range(bu.numcomp or 1):
                    env.bf_subst = {bv.name: i, bu.name: j}; e0.append(sem.ev(orig, env))
        env.bf_subst = None
        e0 = sem.flat(e0)
    V.finalize()
    e2, problems = sem.eval_finalized(V, env)
    e2 = sem.flat(e2)
    bad = []
    def differ(a, b): return abs(a - b) > 1e-7 * (1 + abs(a) + abs(b))
    if e0 is not None and (len(e0) != len(e1) or any(differ(a, b) for a, b in zip(e0, e1))): bad.append('add')
    if len(e1) != len(e2) or any(differ(a, b) for a, b in zip(e1, e2)): bad.append('finalize')
    if problems: bad.append('order')
    return bad, [e1[:4], e2[:4]]
def run_diff(perturb, rnd):
    from vfsem import gen
    r = gen.make_diff_case(vf, spec[1])
    V = r['V']
    cache = {}
    def atom(name):
        if name not in cache:
            cache[name] = atoms.get(name, 0.37) + (rnd.uniform(-0.3, 0.3) if perturb else 0.0)
        return cache[name]
    env = sem.NumEnv(vf, V, atom)
    de = vf.Dx(r['e'], r['k'], parametric=r['parametric'])
    lhs = sem.ev(de, env); _, rhs = sem.dual(r['e'], env, r['k'], r['parametric'])
    bad = ['diffrule'] if abs(lhs - rhs) > 1e-7 * (1 + abs(lhs) + abs(rhs)) else []
    return bad, [[lhs], [rhs]]
def run_equiv(perturb, rnd):
    from checks.C06 import equiv_cases
    name, mk = equiv_cases(vf)[spec[1]]
    V, lhs, rhs = mk()
    cache = {}
    def atom(name):
        if name not in cache:
            cache[name] = atoms.get(name, 0.37) + (rnd.uniform(-0.3, 0.3) if perturb else 0.0)
        return cache[name]
    env = sem.NumEnv(vf, V, atom)
    a = sem.ev(vf.as_expr(lhs), env); b = sem.ev(vf.as_expr(rhs), env)
    bad = ['definition of ' + name] if abs(a - b) > 1e-7 * (1 + abs(a) + abs(b)) else []
    return bad, [[a], [b]]
if spec[0] == 'diff':
    run = run_diff
if spec[0] == 'equiv':
    run = run_equiv
res = None
rnd = random.Random(1)
for k in range(6):
    try:
        bad, vals = run(k > 0, rnd)
    except (ZeroDivisionError, ValueError, OverflowError) as e:
        continue
    if bad:
        res = {'reproduced': True, 'bad': bad, 'values': vals, 'perturbed': k > 0}; break
print(json.dumps(res or {'reproduced': False}))
'''


def key_of(res):
    spec = res['spec']
    return '%s:%s' % ('/'.join(str(s) for s in spec), res.get('which', '').split(':')[0])


def program_specs(tier, seed, n_rand):
    vf = vfmod()
    specs = [('corpus', name) for name, _ in gen.corpus(vf)]
    rng = random.Random(seed)
    base = rng.randrange(10 ** 6) if seed else 0
    for k in range(n_rand):
        specs.append(('rand', base + k, 2 if k % 4 else 1))
    for k in range(n_rand // 2):
        specs.append(('diff', base + k))
    for k in range(len(equiv_cases(vf))):
        specs.append(('equiv', k))
    return specs


def run_programs(specs, mutant=None, timeout_ms=20000, procs=8):
    with mp.Pool(procs) as pool:
        return pool.map(_worker, [(s, mutant, timeout_ms) for s in specs], chunksize=4)


def main():
    run = Run(PID, level='translation_validation',
              description='Per-program equivalence of the variational form before and after VForm.add()/finalize().')
    thorough = run.tier == 'thorough'
    enc = srcload.Encoded()
    srcload.load_module('pyiga/vform.py', 'vform_probe', encoded=enc)
    run.add_encoded(enc)
    n_rand = 3000 if thorough else 300
    specs = program_specs(run.tier, run.seed, n_rand)
    procs = min(16, os.cpu_count() or 4) if thorough else 8
    results = run_programs(specs, timeout_ms=60000 if thorough else 20000, procs=procs)
    tally = {}
    undecided = []
    for res in results:
        tally[res['status']] = tally.get(res['status'], 0) + 1
        for k in run.queries: run.queries[k] += res['queries'][k]
        run.solver_s += res['solver_s']
        if res['status'] == 'harness-error':
            run.inconclusive_msg('harness error on %s: %s' % (res['spec'], res['detail'][-300:]))
        if res['status'] == 'undecided':
            undecided.append(res['spec'])
        if res['status'] in ('violation',):
            w = {'spec': res['spec'], 'model': res.get('model', {}), 'which': res.get('which')}
            rp = realbuild.run_real(REPLAY, w, only=[])
            run.report(key_of(res), 'form %s (%s): %s -- values before/after %s' % (res['spec'], res.get('desc', ''), res.get('which'), rp.get('values')),
                       w, rp['reproduced'])
        if res['status'] == 'crash-finalize':
            # not a value-preservation question; recorded (C01 reports accepted forms that do not build)
            pass
    decided = tally.get('holds', 0) + tally.get('violation', 0)
    run.paths = len(results)
    run.extra['programs'] = decided
    run.extra['program_tally'] = tally
    run.extra['undecided_programs'] = undecided[:50]
    run.samples = [{'program': r['spec'], 'desc': r.get('desc', ''), 'status': r['status']} for r in results[:3] + results[70:76]]
    run.groups.append({'group': 'programs', 'tally': tally, 'n': len(results)})
    run.groups.append({'group': 'random-grammar', 'n': n_rand, 'depth': '1-2'})
    run.groups.append({'group': 'differentiation-rules', 'n': n_rand // 2, 'oracle': 'forward-mode duals over the denotation'})
    run.bounds = {'programs': 'fixed corpus (%d forms) + %d seeded random forms of the bounded grammar (depth<=2, dims 1-3, arity 1-2, '
                              'scalar/vector bases, volume/surface/boundary, space-time)' % (len([s_ for s_ in specs if s_[0] == 'corpus']), n_rand),
                  'environments': 'all real atoms (no bound)'}
    run.assumptions += ['doubles as reals except constant-only subexpressions (evaluated in double arithmetic, as any implementation does)',
                        'det J != 0; denominators of the original form != 0; space-time forms: cylinder geometry (no space/time mixing)',
                        'builtin functions uninterpreted (abs = ite)',
                        'compositional step: the variable JacInv is replaced by an abstract inverse after the lemma JacInv.Jac = I is discharged']
    run.out_of_scope += ['parse_vf string front end', 'forms of depth > 2 (quick)', 'programs reported as undecided (solver timeout): %d' % len(undecided)]
    if len(undecided) > 0.05 * max(decided, 1):
        run.inconclusive_msg('%d of %d programs undecided (>5%%)' % (len(undecided), len(results)))

    # canaries
    if not run.args.no_canaries:
        sub = [('diff', k) for k in range(24)] + [('corpus', n) for n in ('laplace(1)', 'laplace(2)', 'lap_hess(1)', 'lap_hess(2)', 'hess_field(2)', 'quotient(1)', 'quotient(2)',
                                       'convdiff(2)', 'sincos(1)', 'sincos(2)', 'mixed_second(2)', 'gradf(2)', 'folds(1)', 'folds(2)')]
        canaries = [
            ('JacInv transposed in physical gradient', 'return inner(self.JacInv[:, k], grad(e.without_derivs(), parametric=True))',
             'return inner(self.JacInv[k, :], grad(e.without_derivs(), parametric=True))'),
            ('geometry Hessian term sign', "expr = -sum(hess(self.Geo[m], parametric=True)[e,u] * J[a,m] * J[e,i] * J[u,j]",
             "expr = sum(hess(self.Geo[m], parametric=True)[e,u] * J[a,m] * J[e,i] * J[u,j]"),
            ('quotient rule sign', 'return (Dx(self.x, k, times, para) * self.y -', 'return (Dx(self.x, k, times, para) * self.y +'),
            ('fold x-0 -> -x', "            if self.y.is_zero():            # x - 0  -->  x\n                return self.x",
             "            if self.y.is_zero():            # x - 0  -->  x\n                return -self.x"),
            ('CSE merges builtin functions', "    def hash_key(self):\n        return (self.funcname,)", "    def hash_key(self):\n        return ()"),
        ]
        src = srcload.read('pyiga/vform.py')
        for name, pat, rep in canaries:
            if pat not in src:
                run.canary(name, False, skipped=True); continue
            rs = run_programs(sub, mutant=(name, pat, rep), timeout_ms=15000, procs=8)
            run.canary(name, any(r['status'] == 'violation' for r in rs))
    run.finish()


def replay_file(path):
    w = json.load(open(path))['witness']
    r = realbuild.run_real(REPLAY, w, only=[])
    print(json.dumps(r)); print('REPRODUCED' if r['reproduced'] else 'NOT-REPRODUCED')
    sys.exit(1 if r['reproduced'] else 0)


if __name__ == '__main__':
    if '--replay' in sys.argv:
        replay_file(sys.argv[sys.argv.index('--replay') + 1])
    main_wrapper(main)
