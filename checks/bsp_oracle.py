"""Cox-de Boor oracle as z3 terms + knot-vector builders shared by C02 / C05 / C19 / C07.

The oracle is written directly from the textbook recursion (0/0 := 0, right-continuous,
left-continuous at the right end point of the domain); derivatives by the standard difference
formula  N'_{i,p} = p/(t_{i+p}-t_i) N_{i,p-1} - p/(t_{i+p+1}-t_{i+1}) N_{i+1,p-1}  applied recursively.
It shares no code with pyiga.
"""
from fractions import Fraction
import numpy as np
import z3
from symx.core import Sym


class Oracle:
    def __init__(self, kvz, p, u, last=None):
        self.kv = list(kvz); self.p = p; self.u = u
        self.last = self.kv[-1] if last is None else last
        self._memo = {}

    def N(self, i, p=None):
        p = self.p if p is None else p
        key = (i, p, 0)
        if key in self._memo: return self._memo[key]
        kv, u = self.kv, self.u
        if p == 0:
            lo, hi = kv[i], kv[i + 1]
            cond = z3.And(lo <= u, u < hi)
            cond = z3.Or(cond, z3.And(u == self.last, lo < hi, hi == self.last))
            r = z3.If(cond, z3.RealVal(1), z3.RealVal(0))
        else:
            d1 = kv[i + p] - kv[i]; d2 = kv[i + p + 1] - kv[i + 1]
            t1 = z3.If(d1 == 0, z3.RealVal(0), (u - kv[i]) / d1 * self.N(i, p - 1))
            t2 = z3.If(d2 == 0, z3.RealVal(0), (kv[i + p + 1] - u) / d2 * self.N(i + 1, p - 1))
            r = t1 + t2
        self._memo[key] = r
        return r

    def dN(self, i, k, p=None):
        p = self.p if p is None else p
        if k == 0: return self.N(i, p)
        key = (i, p, k)
        if key in self._memo: return self._memo[key]
        if p == 0:
            r = z3.RealVal(0)
        else:
            kv = self.kv
            d1 = kv[i + p] - kv[i]; d2 = kv[i + p + 1] - kv[i + 1]
            t1 = z3.If(d1 == 0, z3.RealVal(0), p / d1 * self.dN(i, k - 1, p - 1))
            t2 = z3.If(d2 == 0, z3.RealVal(0), p / d2 * self.dN(i + 1, k - 1, p - 1))
            r = t1 - t2
        self._memo[key] = r
        return r


def symbolic_knots(p, nint, tag='k'):
    """open knot vector with `nint` symbolic interior knots (coincident knots allowed up to mult p).
    -> (kvz, pre) z3 terms and preconditions"""
    a = z3.Real(tag + 'a'); b = z3.Real(tag + 'b')
    ks = [z3.Real('%s%d' % (tag, i)) for i in range(nint)]
    kvz = [a] * (p + 1) + ks + [b] * (p + 1)
    pre = [a < b]
    seq = [a] + ks + [b]
    for x, y in zip(seq, seq[1:]): pre.append(x <= y)
    if p >= 1:
        # interior multiplicity <= p (and interior knots strictly inside when they would make mult p+1 with an end)
        for i in range(1, len(kvz) - p - 1):
            pre.append(kvz[i] < kvz[i + p])
    else:
        for x, y in zip(seq, seq[1:]): pre.append(x < y)
    return kvz, pre


def concrete_knots(p, breaks, mults):
    kvq = [Fraction(breaks[0])] * (p + 1)
    for bk, m in zip(breaks[1:-1], mults):
        kvq += [Fraction(bk)] * m
    kvq += [Fraction(breaks[-1])] * (p + 1)
    return [z3.RealVal(q) for q in kvq], kvq


class KV:
    """stand-in for pyiga.bspline.KnotVector: .kv is an object ndarray of Sym, .p the degree.
    Methods are bound from the real class source where needed."""
    def __init__(self, kvz, p):
        a = np.empty(len(kvz), dtype=object)
        for i, t in enumerate(kvz): a[i] = Sym(t)
        self.kv = a; self.p = p
    @property
    def numdofs(self): return self.kv.size - self.p - 1
    @property
    def numknots(self): return self.kv.size
    def support(self, j=None):
        assert j is None
        return (self.kv[0], self.kv[-1])
