"""C03 -- hierarchical assembly is the level-wise Galerkin restriction of tensor-product assembly (hybrid check).

Encoded: pyiga/_hdiscr.py (HDiscretization.assemble_matrix, assemble_functional, assemble_rhs, _bbox_for_functions; exec'd from
/repo's source text) running on the REAL HSpace/HMesh/MLStructure/utils code of /repo with concrete hierarchical spaces, while the
tensor-product level matrices/vectors are SYMBOLIC: `_assemble_level(k, rows, bbox)` is replaced by its contract (the level-k
entries A_k[i,j] at the structural nonzeros of exactly the requested rows), the compiled functional assembler by
`multi_entries(rows) = b_k[rows]`.  Spaces (refinement histories) are enumerated -- that part is NOT a solver verdict and is
reported as such; for each space z3 decides the bookkeeping for all level matrices (all forms, geometries, data) at once.
"""
import itertools, json, os, random, sys, time
from fractions import Fraction as F
import numpy as np
import z3

from checks.common import Run, main_wrapper, jsonable
from checks import realbuild
from symx import core as sx
from symx.core import Sym, lift
from symx.symnp import SymNP
from symx import srcload

PID = 'C03'
TOL = F(1, 10**9)


def is_zero(x):
    return (not isinstance(x, Sym)) and x == 0


def clean(x):
    """float entry of a REAL transfer matrix -> the dyadic rational it rounds (|x - q| < 1e-12, denominator <= 2^16), else its exact value.
    The collocation solve behind bspline.prolongation returns 0.7499999999999999 for 3/4; with exact small rationals all differences
    cancel symbolically and the LRA queries take milliseconds instead of 15 s.  A wrong entry (error > 1e-12) is preserved as it is."""
    if isinstance(x, (float, np.floating)):
        fx = F(float(x)); q = fx.limit_denominator(2 ** 16)
        return q if abs(q - fx) < F(1, 10 ** 12) else fx
    return x


def clean_array(a):
    a = np.asarray(a)
    if a.dtype == object: return a
    out = np.empty(a.shape, dtype=object)
    for idx in np.ndindex(*a.shape):
        v = a[idx]
        out[idx] = 0 if v == 0 else clean(v)
    return out


def spdot(A, B):
    """product of object arrays that skips structural zeros (dense object dot would multiply every 0)"""
    A = np.asarray(A, dtype=object); B = np.asarray(B, dtype=object)
    vec = (B.ndim == 1)
    if vec: B = B.reshape(-1, 1)
    m, k = A.shape; n = B.shape[1]
    rowsB = [[(j, B[l, j]) for j in range(n) if not is_zero(B[l, j])] for l in range(k)]
    out = np.empty((m, n), dtype=object); out[...] = 0
    for i in range(m):
        Ai = A[i]
        for l in range(k):
            a = Ai[l]
            if is_zero(a): continue
            for j, b in rowsB[l]:
                out[i, j] = out[i, j] + a * b
    return out[:, 0] if vec else out


class SymVec:
    """object vector that real scipy matrices can multiply (scipy defers to __rmatmul__ for non-array operands)"""
    __array_ufunc__ = None
    __array_priority__ = 10000
    def __init__(self, n):
        self.a = np.empty(n, dtype=object); self.a[...] = 0; self.shape = (n,)
    def __setitem__(self, idx, v): self.a[idx] = v.a if isinstance(v, SymVec) else v
    def __getitem__(self, idx): return self.a[idx]
    def __rmatmul__(self, o):
        r = SymVec(0); r.a = spdot(SpMat.lift(o), self.a); r.shape = r.a.shape; return r


class _HNP(SymNP):
    def zeros(self, shape, dtype=None, **kw):
        if isinstance(shape, (int, np.integer)): return SymVec(int(shape))
        return SymNP.zeros(self, shape, dtype, **kw)


class SpMat:
    """the 40-line stand-in for a scipy sparse matrix holding solver terms (only what _hdiscr.py calls)"""
    __array_ufunc__ = None
    __array_priority__ = 10000
    def __init__(self, a):
        self.a = np.asarray(a, dtype=object); self.shape = self.a.shape
    @staticmethod
    def lift(x):
        import scipy.sparse
        if isinstance(x, SpMat): return x.a
        if scipy.sparse.issparse(x): return clean_array(x.toarray())
        return clean_array(x)
    def __getitem__(self, idx):
        r = self.a[idx]
        return SpMat(r) if isinstance(r, np.ndarray) and r.ndim == 2 else r
    @property
    def T(self): return SpMat(self.a.T)
    def __matmul__(self, o): return SpMat(spdot(self.a, SpMat.lift(o)))
    def __rmatmul__(self, o): return SpMat(spdot(SpMat.lift(o), self.a))
    dot = __matmul__
    def tocsr(self): return self
    def asformat(self, fmt): return self
    def nonzero(self):
        I, J = [], []
        for i in range(self.shape[0]):
            for j in range(self.shape[1]):
                if not is_zero(self.a[i, j]): I.append(i); J.append(j)
        return np.array(I, dtype=int), np.array(J, dtype=int)
    @property
    def data(self):
        I, J = self.nonzero()
        out = np.empty(len(I), dtype=object)
        for k, (i, j) in enumerate(zip(I, J)): out[k] = self.a[i, j]
        return out


class _SparseShim:
    def __getattr__(self, k):
        import scipy.sparse
        return getattr(scipy.sparse, k)
    def csr_matrix(self, arg, shape=None):
        import scipy.sparse
        if isinstance(arg, tuple) and len(arg) == 2 and isinstance(arg[1], tuple) and np.asarray(arg[0]).dtype == object:
            vals, (I, J) = arg
            out = np.empty(shape, dtype=object); out[...] = 0
            for v, i, j in zip(vals, I, J): out[i, j] = out[i, j] + v
            return SpMat(out)
        return scipy.sparse.csr_matrix(arg, shape=shape)


class _ScipyShim:
    sparse = _SparseShim()


def real_pyiga():
    """import pyiga from the tree that matches /repo's sources (scratch rebuild of stale extensions, see checks/realbuild.py)"""
    pp = realbuild.real_pythonpath()
    if pp not in sys.path: sys.path.insert(0, pp)
    for m in [m for m in sys.modules if m == 'pyiga' or m.startswith('pyiga.')]:
        if not getattr(sys.modules[m], '__file__', '').startswith(pp): del sys.modules[m]
    import pyiga
    return pyiga


def load_hd(enc=None, transform=None):
    real_pyiga()
    from pyiga import mlmatrix
    class _Compile:
        @staticmethod
        def compile_vform(vf, on_demand=False): return vf.asm_factory
    ns = {'np': _HNP(ints_object=False), 'scipy': _ScipyShim, 'mlmatrix': mlmatrix, 'compile': _Compile, 'assemble': None}
    srcload.load_defs('pyiga/_hdiscr.py', ['_assemble_partial_rows', 'HDiscretization'], ns, encoded=enc, transform=transform)
    return ns


# ------------------------------------------------------------------------------------------------ spaces
def build_space(spec, between=None):
    """spec: dict(dim, p, n, history=[{level: [cells]}...], truncate, disparity, bdspecs)"""
    from pyiga import bspline, hierarchical
    kvs = tuple(bspline.make_knots(spec['p'], 0.0, 1.0, spec['n'], mult=spec.get('mult', 1)) for _ in range(spec['dim']))
    disp = np.inf if spec['disparity'] in (None, 'inf') else spec['disparity']
    kw = {} if spec['bdspecs'] == 'default' else {'bdspecs': spec['bdspecs']}
    hs = hierarchical.HSpace(kvs, truncate=spec['truncate'], disparity=disp, **kw)
    for step in spec['history']:
        if between is not None: between(hs)
        hs.refine({int(l): set(tuple(c) for c in cells) for l, cells in step.items()}, **({'truncate': True} if spec.get('tadm') else {}))
    return hs


def enumerate_histories(dim, n, maxcalls, rng, limit):
    """refinement histories on an n^dim mesh: each call marks a non-empty set of currently active cells (possibly on several levels)"""
    from pyiga import bspline, hierarchical
    out = []
    def active(hist):
        hs = hierarchical.HSpace(tuple(bspline.make_knots(1, 0.0, 1.0, n) for _ in range(dim)), bdspecs=[])
        for st in hist: hs.refine({l: set(map(tuple, c)) for l, c in st.items()})
        return [(l, c) for l in range(hs.numlevels) for c in sorted(hs.hmesh.active[l])]
    def rec(hist, depth):
        if hist: out.append(hist)
        if depth == maxcalls: return
        cells = active(hist)
        cells = [lc for lc in cells if lc[0] <= 2]          # at most 4 levels
        subsets = []
        for r in range(1, min(len(cells), 3) + 1):
            subsets += list(itertools.combinations(cells, r))
        rng.shuffle(subsets)
        for sub in subsets[:limit]:
            step = {}
            for l, c in sub: step.setdefault(l, []).append(list(c))
            rec(hist + [step], depth + 1)
    rec([], 0)
    return out


def space_list(thorough, seed):
    rng = random.Random(1234 + seed)
    specs = []
    def add(dim, p, n, hist, trunc, disp, bd, interleave=False, tadm=False, mult=1):
        specs.append({'dim': dim, 'p': p, 'n': n, 'history': hist, 'truncate': trunc, 'disparity': disp, 'bdspecs': bd, 'interleave': interleave, **({'tadm': True} if tadm else {}), **({'mult': mult} if mult != 1 else {})})
    # fixed family: the shapes named in the property (corner / nested / isolated cell / multi-level simultaneous marks / level-skipping interaction)
    fixed = [
        (1, 2, 3, [{0: [[0]]}]), (1, 2, 3, [{0: [[1]]}]), (1, 1, 3, [{0: [[0], [2]]}]), (1, 2, 4, [{0: [[0], [1]]}, {1: [[0], [1]]}]),
        (1, 2, 4, [{0: [[2], [3]]}, {1: [[4], [5]]}]), (1, 1, 2, [{0: [[0]]}, {1: [[1]]}, {2: [[2]]}]), (1, 2, 3, [{0: [[1]]}, {0: [[0]], 1: [[2]]}]),
        (2, 1, 2, [{0: [[0, 0]]}]), (2, 2, 2, [{0: [[0, 0]]}]), (2, 1, 2, [{0: [[0, 0]]}, {1: [[0, 0], [1, 1]]}]), (2, 1, 2, [{0: [[1, 1]]}, {1: [[2, 2]]}]),
        (2, 1, 3, [{0: [[1, 1]]}]), (2, 1, 2, [{0: [[0, 0], [1, 1]]}]),
        # level-1 region {x > 1/2}, level-2 region touching its interior edge (coarse functions that meet level 2 only on refined cells)
        (1, 2, 4, [{0: [[2], [3]]}, {1: [[4], [5]]}]), (2, 1, 2, [{0: [[0, 1], [1, 1]]}, {1: [[0, 2], [1, 2], [2, 2], [3, 2]]}]),
        # isolated refinements: the intermediate level has active cells but NO active function (a gap in the chain of interacting levels)
        (1, 2, 5, [{0: [[2]]}, {1: [[4], [5]]}]), (1, 3, 6, [{0: [[2], [3]]}, {1: [[5], [6]]}]), (2, 2, 3, [{0: [[1, 1]]}, {1: [[2, 2], [2, 3], [3, 2], [3, 3]]}]),
        (1, 2, 5, [{0: [[2]]}, {1: [[4], [5]]}, {2: [[9], [10]]}]),
    ]
    for dim, p, n, hist in fixed:
        for trunc in (False, True):
            add(dim, p, n, hist, trunc, 'inf', [])
    add(1, 2, 3, [{0: [[0]]}], False, 'inf', 'default'); add(2, 1, 2, [{0: [[0, 0]]}], True, 'inf', 'default')
    add(1, 2, 4, [{0: [[0], [1]]}, {1: [[0], [1]]}], False, 'inf', [(0, 0)]); add(2, 1, 2, [{0: [[0, 0]]}, {1: [[0, 0]]}], True, 'inf', [(0, 0), (1, 1)])
    add(1, 2, 4, [{0: [[0]]}, {1: [[0]]}], False, 1, []); add(1, 1, 4, [{0: [[0]]}, {1: [[0]]}, {2: [[0]]}], True, 2, []); add(2, 1, 3, [{0: [[0, 0]]}, {1: [[0, 0]]}], False, 1, [])
    # T-admissible refinement (refine(..., truncate=True)) with finite disparity: HB functions interact across more than `disparity` levels
    for trunc in (False, True):
        add(1, 2, 4, [{0: [[0]]}, {1: [[0]]}, {2: [[0]]}], trunc, 1, [], tadm=True)
        add(2, 1, 3, [{0: [[0, 0]]}, {1: [[0, 0]]}, {2: [[0, 0]]}], trunc, 1, [], tadm=True)
    add(1, 3, 5, [{0: [[0]]}, {1: [[0]]}, {2: [[0]]}, {3: [[0]]}], True, 2, [], tadm=True)
    # repeated interior knots (reduced smoothness): more functions per cell than p+1 consecutive cell indices suggest
    for trunc in (False, True):
        add(1, 2, 3, [{0: [[1]]}], trunc, 'inf', [], mult=2)
        add(1, 3, 4, [{0: [[1], [2]]}, {1: [[3], [4]]}], trunc, 'inf', [], mult=2)
    add(2, 2, 2, [{0: [[1, 1]]}], False, 'inf', [], mult=2)
    # assemble - refine - assemble on the same object (caches must follow the refinement)
    add(1, 2, 4, [{0: [[0], [1]]}, {1: [[0], [1]]}, {0: [[3]]}], False, 'inf', [], interleave=True)
    add(2, 1, 3, [{0: [[0, 0], [0, 1], [1, 0], [1, 1]]}, {1: [[0, 0], [0, 1], [1, 0], [1, 1]]}, {1: [[2, 2]]}], False, 'inf', [], interleave=True)
    # ... where the last step activates fine functions WITHOUT deactivating any coarse one (marked patch smaller than a coarse support)
    add(1, 1, 5, [{0: [[0], [1]]}, {1: [[0], [1]]}, {0: [[3]]}], False, 'inf', [], interleave=True)
    add(1, 2, 7, [{0: [[0], [1], [2]]}, {1: [[0], [1], [2]]}, {0: [[4], [5]]}], True, 'inf', [], interleave=True)
    add(2, 1, 3, [{0: [[0, 0]]}, {1: [[0, 0]]}, {0: [[2, 2]]}], False, 'inf', [(0, 0)], interleave=True)
    # ... and the newly activated fine functions sort BEFORE existing ones of their level (positions in the canonical numbering shift)
    add(1, 1, 5, [{0: [[3], [4]]}, {1: [[8], [9]]}, {0: [[1]]}], False, 'inf', [], interleave=True)
    add(1, 2, 7, [{0: [[4], [5], [6]]}, {1: [[11], [12], [13]]}, {0: [[1], [2]]}], True, 'inf', [], interleave=True)
    add(2, 1, 3, [{0: [[2, 2]]}, {1: [[5, 5]]}, {0: [[0, 0]]}], False, 'inf', [], interleave=True)
    add(2, 2, 3, [{0: [[0, 0], [0, 1], [0, 2], [1, 0], [1, 1], [1, 2], [2, 0], [2, 1], [2, 2]]}, {1: [[0, 0], [0, 1], [1, 0], [1, 1]]}, {1: [[3, 3], [3, 4], [4, 3], [4, 4]]}], True, 'inf', [], interleave=True)
    if thorough:
        # exhaustive: <= 2 calls on 1D meshes with <= 3 coarse cells, 1 call on the 2x2 mesh; plus a seeded sample of longer histories
        for n in (2, 3):
            for hist in enumerate_histories(1, n, 2, rng, 10**6):
                for p in (1, 2):
                    add(1, p, n, hist, rng.random() < 0.5, 'inf', [])
        for hist in enumerate_histories(2, 2, 1, rng, 10**6):
            add(2, 1, 2, hist, rng.random() < 0.5, 'inf', [])
        for hist in enumerate_histories(1, 4, 3, rng, 2)[:60]:
            add(1, rng.choice([1, 2, 3]), 4, hist, rng.random() < 0.5, rng.choice(['inf', 1, 2]), rng.choice([[], [(0, 0)], [(0, 0), (0, 1)]]), interleave=rng.random() < 0.3)
        for hist in enumerate_histories(2, 2, 3, rng, 2)[:40]:
            add(2, rng.choice([1, 2]), 2, hist, rng.random() < 0.5, rng.choice(['inf', 1, 2]), rng.choice([[], [(0, 0)], [(1, 1), (0, 0)]]), interleave=rng.random() < 0.3)
    # dedupe
    seen = set(); out = []
    for s in specs:
        k = json.dumps(s, sort_keys=True)
        if k not in seen: seen.add(k); out.append(s)
    return out


# ------------------------------------------------------------------------------------------------ per-space obligations
def level_patterns(hs):
    from pyiga import mlmatrix
    out = []
    for k in range(hs.numlevels):
        kvs = hs.knotvectors(k)
        S = mlmatrix.MLStructure.from_kvs(kvs, kvs)
        I, J = S.nonzero()
        out.append((S.shape[0], list(zip(I.tolist(), J.tolist())), S))
    return out


def sym_levels(hs, mode, symmetric):
    """mode 'independent': every level has its own symbols on its tensor-product pattern;
    mode 'galerkin': only the finest level is free, A_k = P_k^T A_{k+1} P_k"""
    from pyiga import utils
    pats = level_patterns(hs)
    L = hs.numlevels
    As = [None] * L; bs = [None] * L; created = []
    def fresh(k):
        n, nz, S = pats[k]
        A = np.empty((n, n), dtype=object); A[...] = 0
        for i, j in nz:
            if symmetric and j > i: continue
            A[i, j] = Sym(z3.Real('a%d_%d_%d' % (k, i, j))); created.append(A[i, j].t)
            if symmetric: A[j, i] = A[i, j]
        b = np.array([Sym(z3.Real('b%d_%d' % (k, i))) for i in range(n)] + [None], dtype=object)[:-1]
        created.extend(x.t for x in b)
        return A, b
    if mode == 'independent':
        for k in range(L): As[k], bs[k] = fresh(k)
    else:
        As[L - 1], bs[L - 1] = fresh(L - 1)
        for k in reversed(range(L - 1)):
            P = clean_array(utils.multi_kron_sparse(hs.hmesh.P[k]).toarray())
            As[k] = spdot(spdot(P.T, As[k + 1]), P); bs[k] = spdot(P.T, bs[k + 1])
    return As, bs, pats, created


def run_real_code(ns, hs, As, bs, pats, symmetric, what):
    class Asm:
        def __init__(self, k): self.k = k
        def multi_entries(self, rows): return bs[self.k][np.asarray(rows, dtype=int)]
    class VF:
        arity = 1; inputs = []
        def __init__(self): self.asm_factory = lambda kvs, **kw: Asm(self._level(kvs))
        def _level(self, kvs):
            for k in range(hs.numlevels):
                if all(a is b or (a.p == b.p and a.kv.shape == b.kv.shape and np.array_equal(a.kv, b.kv)) for a, b in zip(hs.knotvectors(k), kvs)): return k
            raise RuntimeError('unknown level')
    HD = ns['HDiscretization']
    class HDsym(HD):
        def _assemble_level(self, k, rows=None, bbox=None, symmetric=False):
            n, nz, S = pats[k]
            out = np.empty((n, n), dtype=object); out[...] = 0
            if rows is None: rows = range(n)
            rows = np.asarray(list(rows), dtype=int)
            if len(rows):
                I, J = S.nonzeros_for_rows(rows)
                for i, j in zip(I, J): out[i, j] = As[k][i, j]
            return SpMat(out)
    hd = HDsym(hs, VF(), {})
    if what == 'matrix':
        return SpMat.lift(hd.assemble_matrix(symmetric=symmetric))
    r = hd.assemble_functional(VF())
    return np.asarray(r.a if isinstance(r, SymVec) else r, dtype=object)


def reference(hs, As, bs, mode, what):
    """independent: A_h[i,j] = rep_m(phi_i)^T A_m rep_m(phi_j), m = max(level_i, level_j) (HB); THB = T^T (HB) T
       galerkin:    I^T A_L I with I = represent_fine() of the space's own basis (independent truncation code path)"""
    L = hs.numlevels
    if mode == 'galerkin':
        I = clean_array(hs.represent_fine().toarray())
        return spdot(spdot(I.T, As[L - 1]), I) if what == 'matrix' else spdot(I.T, bs[L - 1])
    na = [len(hs.actfun[k]) for k in range(L)]
    lev = np.concatenate([np.full(na[k], k) for k in range(L)]).astype(int)
    N = sum(na)
    if what == 'matrix':
        ref = np.empty((N, N), dtype=object); ref[...] = 0
        for m in range(L):
            Nm = sum(na[:m + 1])
            R = clean_array(hs.represent_fine(lv=m, truncate=False).toarray())        # TP(level m) x (functions of levels <= m)
            blk = spdot(spdot(R.T, As[m]), R)
            for i in range(Nm):
                for j in range(Nm):
                    if max(lev[i], lev[j]) == m: ref[i, j] = blk[i, j]
    else:
        act = hs.active_indices()
        ref = np.concatenate([bs[k][act[k]] for k in range(L)]) if N else np.empty(0, dtype=object)
    if hs.truncate:
        T = clean_array(hs.thb_to_hb().toarray())
        ref = spdot(spdot(T.T, ref), T) if what == 'matrix' else spdot(T.T, ref)
    return ref


def decide(got, ref, syms):
    """z3: exists symbols in [-1,1] with |got - ref| > 1e-9 somewhere?  (all entries are linear forms)"""
    got = np.asarray(got, dtype=object); ref = np.asarray(ref, dtype=object)
    if got.shape != ref.shape: return 'sat', 0.0, ['shape %s vs %s' % (got.shape, ref.shape)]
    s = z3.Solver(); s.set('timeout', 120000)
    diffs = []; where = []
    tol = z3.RealVal(TOL)
    for idx in np.ndindex(*ref.shape):
        a, b = got[idx], ref[idx]
        if is_zero(a) and is_zero(b): continue
        d = sx._toreal(lift(a)) - sx._toreal(lift(b))
        d = z3.simplify(d)
        if z3.is_rational_value(d) or z3.is_int_value(d):
            v = sx._numval(d)
            if abs(v) <= TOL: continue
        diffs.append(z3.Or(d > tol, d < -tol)); where.append(idx)
    if not diffs: return 'unsat', 0.0, []
    for t in syms: s.add(t >= -1, t <= 1)
    s.add(z3.Or(*diffs))
    t0 = time.time(); r = str(s.check()); dt = time.time() - t0
    bad = []
    if r == 'sat':
        m = s.model()
        bad = [list(idx) for idx, dd in zip(where, diffs) if z3.is_true(m.eval(dd, model_completion=True))][:6]
    return r, dt, bad


def collect_syms(As, bs):
    out = {}
    for A in As:
        for x in np.asarray(A, dtype=object).ravel():
            if isinstance(x, Sym):
                for v in _vars(x.t): out[v.get_id()] = v
    for b in bs:
        for x in np.asarray(b, dtype=object).ravel():
            if isinstance(x, Sym):
                for v in _vars(x.t): out[v.get_id()] = v
    return list(out.values())


def _vars(t, acc=None, seen=None):
    acc = [] if acc is None else acc; seen = set() if seen is None else seen
    if t.get_id() in seen: return acc
    seen.add(t.get_id())
    if z3.is_const(t) and t.decl().kind() == z3.Z3_OP_UNINTERPRETED: acc.append(t)
    for c in t.children(): _vars(c, acc, seen)
    return acc


def check_space(args):
    """worker: returns dict(spec, info, results={name: answer}, solver_s, bad)"""
    spec, transform_key = args
    try:
        ns = load_hd(transform=TRANSFORMS.get(transform_key))
        t0 = time.time()
        res = {}; bad = {}; solver_s = 0.0
        def warm(hs):
            # assemble on the intermediate space (result discarded): every cache of the space object is filled before the next refinement
            if spec.get('interleave') and hs.numlevels >= 1 and sum(len(a) for a in hs.actfun):
                As, bs, pats, _ = sym_levels(hs, 'independent', False)
                run_real_code(ns, hs, As, bs, pats, False, 'matrix')
        hs = build_space(spec, between=warm)
        info = {'numdofs': int(hs.numdofs), 'levels': int(hs.numlevels), 'active per level': [len(a) for a in hs.actfun]}
        for mode in ('independent', 'galerkin'):
            for symmetric in ((False, True) if mode == 'galerkin' else (False,)):
                As, bs, pats, syms = sym_levels(hs, mode, symmetric)
                nm = 'matrix/%s/%s' % (mode, 'symmetric' if symmetric else 'general')
                try:
                    got = run_real_code(ns, hs, As, bs, pats, symmetric, 'matrix')
                    r, dt, b = decide(got, reference(hs, As, bs, mode, 'matrix'), syms)
                except Exception as e:
                    r, dt, b = 'sat', 0.0, ['exception %s: %s' % (type(e).__name__, str(e)[:120])]
                res[nm] = r; solver_s += dt
                if b: bad[nm] = b
                if not symmetric:
                    nm = 'functional/%s' % mode
                    try:
                        got = run_real_code(ns, hs, As, bs, pats, False, 'functional')
                        r, dt, b = decide(got, reference(hs, As, bs, mode, 'functional'), syms)
                    except Exception as e:
                        r, dt, b = 'sat', 0.0, ['exception %s: %s' % (type(e).__name__, str(e)[:120])]
                    res[nm] = r; solver_s += dt
                    if b: bad[nm] = b
        return {'spec': spec, 'info': info, 'results': res, 'bad': bad, 'solver_s': solver_s, 'wall_s': time.time() - t0}
    except Exception as e:
        import traceback
        return {'spec': spec, 'error': '%s: %s' % (type(e).__name__, e), 'traceback': traceback.format_exc()[-1500:]}


TRANSFORMS = {
    None: None,
    'drop second interlevel block': lambda s: s.replace('insert_block(A_hb_interlevel2, new[k], neighbors[k])', 'pass'),
    'interlevel rows only one level below': lambda s: s.replace('for lv in range(max(0, k - hs.disparity), k):', 'for lv in range(max(0, k - 1), k):').replace('                for lv in range(k):\n                    indices |= set(hs.hmesh.function_grandchildren', '                for lv in range(max(0, k - 1), k):\n                    indices |= set(hs.hmesh.function_grandchildren'),
    'functional: THB transform not transposed': lambda s: s.replace('rhs = self.hs.thb_to_hb().T @ rhs', 'rhs = self.hs.thb_to_hb() @ rhs'),
    'symmetric: mirrored block not transposed': lambda s: s.replace('A_hb_interlevel2 = A_hb_interlevel.T', 'A_hb_interlevel2 = A_hb_interlevel'),
}


REPLAY = r'''
import sys, json, numpy as np
w = json.load(sys.stdin)
from pyiga import bspline, hierarchical, assemble, vform, geometry
spec = w['spec']
def build(between=None):
    kvs = tuple(bspline.make_knots(spec['p'], 0.0, 1.0, spec['n'], mult=spec.get('mult', 1)) for _ in range(spec['dim']))
    disp = np.inf if spec['disparity'] in (None, 'inf') else spec['disparity']
    kw = {} if spec['bdspecs'] == 'default' else {'bdspecs': [tuple(b) for b in spec['bdspecs']]}
    hs = hierarchical.HSpace(kvs, truncate=spec['truncate'], disparity=disp, **kw)
    for step in spec['history']:
        if between is not None: between(hs)
        hs.refine({int(l): set(tuple(c) for c in cells) for l, cells in step.items()}, **({'truncate': True} if spec.get('tadm') else {}))
    return hs
geo = geometry.unit_square() if spec['dim'] == 2 else geometry.line_segment(0.0, 1.0)
bad = []
try:
    def warm(hs):
        if spec.get('interleave'): assemble.assemble(vform.stiffness_vf(spec['dim']), hs, geo=geo)
    hs = build(warm)
    I = hs.represent_fine()
    kvf = hs.knotvectors(hs.numlevels - 1)
    for name, mk in (('mass', lambda: vform.mass_vf(spec['dim'])), ('stiffness', lambda: vform.stiffness_vf(spec['dim']))):
        Af = assemble.assemble(mk(), kvf, geo=geo)
        ref = (I.T @ Af @ I).toarray()
        for symmetric in (False, True):
            A = assemble.assemble(mk(), hs, geo=geo, symmetric=symmetric).toarray()
            if A.shape != ref.shape or not np.allclose(A, ref, rtol=1e-9, atol=1e-11): bad.append('%s symmetric=%s: max deviation %.3g' % (name, symmetric, np.abs(A - ref).max() if A.shape == ref.shape else -1))
    # a non-symmetric form (convection): general assembly only
    conv = 'inner(grad(u), (1.0, 2.0)) * v * dx' if spec['dim'] == 2 else 'u.dx(0) * v * dx'
    Af = assemble.assemble(conv, kvf, geo=geo)
    A = assemble.assemble(conv, hs, geo=geo).toarray(); ref = (I.T @ Af @ I).toarray()
    if A.shape != ref.shape or not np.allclose(A, ref, rtol=1e-9, atol=1e-11): bad.append('convection (non-symmetric form): max deviation %.3g' % (np.abs(A - ref).max() if A.shape == ref.shape else -1))
    f = lambda *x: 1.0 + x[0]
    bf = assemble.assemble(vform.L2functional_vf(spec['dim'], physical=True), kvf, geo=geo, f=f).ravel()
    b = assemble.assemble(vform.L2functional_vf(spec['dim'], physical=True), hs, geo=geo, f=f)
    if not np.allclose(b, I.T @ bf, rtol=1e-9, atol=1e-12): bad.append('functional')
except Exception as e:
    # an exception of the replay script itself is NOT a reproduction (unless the solver side reported an exception of the code under test)
    print(json.dumps({'reproduced': bool(bad) or bool(w.get('expect_exception')), 'bad': bad + ['exception %s: %s' % (type(e).__name__, str(e)[:100])]})); sys.exit(0)
print(json.dumps({'reproduced': bool(bad), 'bad': bad}))
'''


def main():
    run = Run(PID, level='other', description='Hybrid: hierarchical spaces are enumerated (not a solver verdict), level matrices/vectors are symbolic; per space z3 decides the '
                                              'assembly bookkeeping of the real HDiscretization for all forms and data at once.')
    thorough = run.tier == 'thorough'
    enc = srcload.Encoded()
    load_hd(enc)
    run.add_encoded(enc)
    run.stubs += ['_assemble_level(k, rows, bbox) -> contract: symbolic level-k entries at the structural nonzeros (MLStructure.from_kvs(...).nonzeros_for_rows, real code) of the requested rows, zero elsewhere',
                  'compile.compile_vform -> stub assembler whose multi_entries(rows) returns the symbolic level vector entries', 'scipy.sparse.csr_matrix((values,(I,J))) with solver terms -> dense object matrix (duplicates summed)',
                  'np.zeros -> object array (assemble_functional)']
    run.assumptions += ['real HSpace/HMesh/utils/mlmatrix code of /repo with concrete spaces; prolongators carry float rounding, hence the tolerance 1e-9 for symbols in [-1,1] (a lost interaction changes a coefficient by O(1))',
                        'the tensor-product assemblers deliver what the contract says (C01/C08)']
    run.out_of_scope += ['the refinement-history quantifier is by enumeration inside the stated family, not by the solver', '3D spaces, vector-valued forms', 'the on-demand bbox inside the compiled assemblers (C01/C08)',
                         'quadrature exactness (obligation 1 assumes nothing about the level matrices)']
    specs = space_list(thorough, run.seed)
    run.bounds = {'spaces': len(specs), 'dims': '1..2', 'degrees': '1..3', 'levels': '<= 4', 'disparity': '1, 2, inf', 'bdspecs': 'default(None), [], faces',
                  'histories': 'fixed family + (thorough) all histories of <= 2 calls on 1D meshes with <= 3 cells and 1 call on 2x2, seeded sample of longer ones; assemble-refine-assemble sequences'}
    import multiprocessing as mp
    nproc = 12 if thorough else 6
    with mp.get_context('fork').Pool(nproc) as pool:
        results = pool.map(check_space, [(s, None) for s in specs], chunksize=1)
    programs = 0
    for r in results:
        spec = r['spec']
        if 'error' in r:
            run.inconclusive_msg('space %s: harness error %s\n%s' % (json.dumps(spec), r['error'], r.get('traceback', '')[-400:])); continue
        programs += 1
        run.record_queries('hierarchical-assembly', r['results'], solver_s=r['solver_s'], bound={'space': spec, **r['info']},
                           sample={'space': spec, **r['info'], 'answers': r['results']})
        if any(v == 'sat' for v in r['results'].values()):
            rp = realbuild.run_real(REPLAY, {'spec': spec, 'expect_exception': any('exception' in str(v) for v in r['bad'].values())}, timeout=1800)
            key = 'assembly:%s' % ('bdspecs=None' if spec['bdspecs'] == 'default' else ','.join(sorted(k for k, v in r['results'].items() if v == 'sat'))[:80])
            run.report(key, 'space %s (%s): solver: %s %s; real assembly vs I^T A I: %s' % (json.dumps(spec), r['info'], {k: v for k, v in r['results'].items() if v == 'sat'}, r['bad'], rp['bad']),
                       {'spec': spec}, rp['reproduced'])
    run.extra['spaces'] = programs
    run.paths = programs
    if not run.args.no_canaries:
        cspec3 = {'dim': 2, 'p': 1, 'n': 2, 'history': [{0: [[0, 0]]}, {1: [[0, 0], [1, 1]]}], 'truncate': False, 'disparity': 'inf', 'bdspecs': [], 'interleave': False}
        cspecT = {'dim': 1, 'p': 2, 'n': 4, 'history': [{0: [[0], [1]]}, {1: [[0], [1]]}], 'truncate': True, 'disparity': 'inf', 'bdspecs': [], 'interleave': False}
        for name, spec in (('drop second interlevel block', cspec3), ('interlevel rows only one level below', cspec3), ('functional: THB transform not transposed', cspecT), ('symmetric: mirrored block not transposed', cspec3)):
            src = srcload.read('pyiga/_hdiscr.py')
            if TRANSFORMS[name](src) == src: run.canary(name, False, skipped=True); continue
            r = check_space((spec, name))
            run.canary(name, 'error' not in r and any(v == 'sat' for v in r['results'].values()))
    run.finish()


def replay_file(path):
    w = json.load(open(path))['witness']
    r = realbuild.run_real(REPLAY, w, timeout=1800)
    print(json.dumps(r)); print('REPRODUCED' if r['reproduced'] else 'NOT-REPRODUCED')
    sys.exit(1 if r['reproduced'] else 0)


if __name__ == '__main__':
    if '--replay' in sys.argv:
        replay_file(sys.argv[sys.argv.index('--replay') + 1])
    main_wrapper(main)
