"""C11 -- relaxation and multigrid are consistent, contractive iterations.

Encoded: pyiga/relaxation_cy.pyx (transliterated: gauss_seidel, gauss_seidel_indexed);
pyiga/solvers.py (exec'd from source): gauss_seidel, OperatorSmoother, GaussSeidelSmoother,
SequentialSmoother, twogrid, local_mg_step, iterative_solve.
"""
import itertools, json, sys, types
from fractions import Fraction as F
import numpy as np
import z3

from checks.common import Run, main_wrapper, jsonable
from checks import realbuild
from symx import core as sx
from symx.core import Sym, lift
from symx.symnp import SymNP
from symx.symsparse import sparse_facade, SpMat
from symx import srcload
from cyx.load import load_pyx

PID = 'C11'


class _NS:
    def __init__(self, **kw): self.__dict__.update(kw)


class CSRStub:
    """CSR matrix with concrete structure and symbolic data"""
    _is_sparse_stub = True
    _is_csr_stub = True
    def __init__(self, n, indptr, indices, data):
        self.shape = (n, n); self.indptr = np.array(indptr, dtype=np.int32); self.indices = np.array(indices, dtype=np.int32); self.data = data
    def dense(self):
        a = np.empty(self.shape, dtype=object); a[...] = 0
        for i in range(self.shape[0]):
            for jj in range(self.indptr[i], self.indptr[i + 1]):
                a[i, self.indices[jj]] = a[i, self.indices[jj]] + self.data[jj]
        return a


class NormStub:
    def __init__(self): self.log = []
    def norm(self, v, *a, **k):
        n = sx.ctx().fresh('norm'); sx.ctx().assume(n.t >= 0)
        self.log.append((np.array(v, dtype=object, copy=True), n)); return n


class SolverStub:
    """make_solver(B) contract: B nonsingular; .dot(r) is the y with B y = r"""
    def __init__(self, B, log=None):
        self.B = B.toarray() if hasattr(B, 'toarray') else np.asarray(B, dtype=object)
        n = self.B.shape[0]
        if n == 1: d = lift(self.B[0, 0])
        elif n == 2: d = lift(self.B[0, 0] * self.B[1, 1] - self.B[0, 1] * self.B[1, 0])
        elif n == 3:
            B = self.B
            d = lift(B[0, 0] * (B[1, 1] * B[2, 2] - B[1, 2] * B[2, 1]) - B[0, 1] * (B[1, 0] * B[2, 2] - B[1, 2] * B[2, 0]) + B[0, 2] * (B[1, 0] * B[2, 1] - B[1, 1] * B[2, 0]))
        else: d = None
        if d is not None and n > 0: sx.ctx().assume(d != 0)
        self.Binv = None
        if d is None and n > 0:
            # larger systems: "B nonsingular" as the existence of a two-sided inverse (fresh symbols with B Binv = Binv B = I)
            c = sx.ctx()
            self.Binv = np.empty((n, n), dtype=object)
            for i in range(n):
                for j in range(n): self.Binv[i, j] = c.fresh('binv')
            P1 = self.B.dot(self.Binv); P2 = self.Binv.dot(self.B)
            for i in range(n):
                for j in range(n):
                    c.assume(lift(P1[i, j]) == (1 if i == j else 0)); c.assume(lift(P2[i, j]) == (1 if i == j else 0))
        self.shape = self.B.shape
    def dot(self, r):
        c = sx.ctx(); r = np.asarray(r, dtype=object).ravel(); n = r.shape[0]
        # a right-hand side that is identically zero has the unique solution zero (B is nonsingular): no fresh symbols needed
        try:
            if all(z3.is_rational_value(t) and t.numerator_as_long() == 0 for t in (z3.simplify(sx._toreal(lift(v)), som=True) for v in r)):
                y0 = np.empty(n, dtype=object); y0[...] = 0
                ns_log = getattr(self, 'log', None)
                return y0
        except Exception:
            pass
        if self.Binv is not None:
            y = self.Binv.dot(r)
            if hasattr(self, '_log'): pass
            return y
        y = np.empty(n, dtype=object)
        for i in range(n): y[i] = c.fresh('y')
        By = self.B.dot(y)
        for i in range(n): c.assume(lift(By[i]) == lift(r[i]))
        return y
    __matmul__ = dot
    __mul__ = dot


def load_code(enc=None, cy_transform=None, py_transform=None, int_model=False):
    cy = load_pyx('pyiga/relaxation_cy.pyx', encoded=enc, transform=cy_transform)
    pkg = types.ModuleType('cyx_pkg_c11'); pkg.__path__ = []
    mod = types.ModuleType('cyx_pkg_c11.relaxation_cy'); mod.__dict__.update({k: v for k, v in cy.items() if not k.startswith('__')})
    pkg.relaxation_cy = mod
    sys.modules['cyx_pkg_c11'] = pkg; sys.modules['cyx_pkg_c11.relaxation_cy'] = mod
    norm = NormStub()
    snp = SymNP(int_dtype_model=int_model); snp.linalg = norm
    ns = {'np': snp, 'scipy': _NS(sparse=sparse_facade(), linalg=norm), '__package__': 'cyx_pkg_c11', '__name__': 'cyx_pkg_c11.solvers',
          'make_solver': lambda B, symmetric=False, spd=False: SolverStub(B), 'print': lambda *a, **k: None}
    srcload.load_defs('pyiga/solvers.py', ['gauss_seidel', 'OperatorSmoother', 'GaussSeidelSmoother', 'SequentialSmoother', 'twogrid', 'local_mg_step',
                                           'iterative_solve'], ns, encoded=enc, transform=py_transform)
    ns['_norm'] = norm
    ns['_real_gs'] = ns['gauss_seidel']
    return cy, ns


def gs_reference(A, x, b, order, iterations=1):
    """textbook Gauss-Seidel recurrence on z3 terms"""
    n = len(x); x = list(x)
    for _ in range(iterations):
        for i in order:
            s = b[i]
            for j in range(n):
                if j != i: s = s - A[i][j] * x[j]
            x[i] = s / A[i][i]
    return x


def structures(n, thorough):
    """family of CSR structures with full diagonal: dense, tridiagonal, arrow, lower/upper triangular, unsorted columns"""
    fam = []
    def csr(rows, shuffle=False):
        indptr = [0]; indices = []
        for i, cols in enumerate(rows):
            cols = list(cols)
            if shuffle: cols = cols[::-1]
            indices += cols; indptr.append(len(indices))
        return indptr, indices
    full = [list(range(n)) for _ in range(n)]
    tri = [[j for j in range(n) if abs(i - j) <= 1] for i in range(n)]
    arrow = [list(range(n))] + [[0, i] for i in range(1, n)]
    low = [list(range(i + 1)) for i in range(n)]
    fam += [('dense', csr(full)), ('tridiagonal', csr(tri)), ('arrow', csr(arrow)), ('lower', csr(low)), ('dense, unsorted columns', csr(full, True)),
            ('tridiagonal, unsorted columns', csr(tri, True))]
    if thorough:
        up = [list(range(i, n)) for i in range(n)]
        fam += [('upper', csr(up)), ('diagonal', csr([[i] for i in range(n)])), ('arrow, unsorted', csr(arrow, True))]
    return fam


def gs_harness(cy, ns, n, struct, sweep, iterations, indices_len, route):
    indptr, indices = struct
    nnz = len(indices)

    def run(c):
        data = sx.symarray('a', (nnz,))
        A = CSRStub(n, indptr, indices, data)
        D = A.dense()
        for i in range(n): c.assume(lift(D[i, i]) != 0)
        x0 = sx.symarray('x', (n,)); b = sx.symarray('b', (n,))
        x = x0.copy()
        idx = None
        if indices_len is not None:
            iz = [z3.Int('ix%d' % j) for j in range(indices_len)]
            for i in iz: c.assume(z3.And(i >= 0, i < n))
            idx = [Sym(i).__index__() for i in iz]           # arbitrary sequence (repetitions allowed)
        if route == 'sparse':
            ns['gauss_seidel'](A, x, b, iterations=iterations, indices=(np.array(idx, dtype=np.intc) if idx is not None else None), sweep=sweep)
        else:
            ns['gauss_seidel'](D.copy(), x, b, iterations=iterations, indices=idx, sweep=sweep)
        base = list(idx) if idx is not None else list(range(n))
        Dt = [[lift(D[i, j]) for j in range(n)] for i in range(n)]
        xt = [lift(v) for v in x0]; bt = [lift(v) for v in b]
        ref = xt
        for _ in range(iterations):
            if sweep == 'forward': ref = gs_reference(Dt, ref, bt, base)
            elif sweep == 'backward': ref = gs_reference(Dt, ref, bt, base[::-1])
            else:
                ref = gs_reference(Dt, ref, bt, base); ref = gs_reference(Dt, ref, bt, base[::-1])
        c.check(z3.And(*[lift(x[i]) == ref[i] for i in range(n)]), 'Gauss-Seidel = textbook update in the stated order')
        c.witness('gs')
    return run


def fixedpoint_energy_harness(cy, ns, n, route):
    """fixed point and the inductive energy step: one row update of a symmetric matrix with a_ii > 0"""
    def run(c):
        A = np.empty((n, n), dtype=object)
        for i in range(n):
            for j in range(i, n):
                A[i, j] = A[j, i] = Sym(z3.Real('s_%d_%d' % (i, j)))
        xs = sx.symarray('xs', (n,)); x0 = sx.symarray('x', (n,))
        b = A.dot(xs)
        row = z3.Int('row'); c.assume(z3.And(row >= 0, row < n))
        r = Sym(row).__index__()
        c.assume(lift(A[r, r]) > 0)
        x = x0.copy()
        if route == 'sparse':
            ns['gauss_seidel'](SpMat(A, 'csr'), x, b, indices=np.array([r], dtype=np.intc), sweep='forward')
        else:
            ns['gauss_seidel'](A.copy(), x, b, indices=[r], sweep='forward')
        e0 = x0 - xs; e1 = x - xs
        E0 = lift(e0.dot(A.dot(e0))); E1 = lift(e1.dot(A.dot(e1)))
        c.check(E1 <= E0, 'one row update of a symmetric system with a_ii > 0 does not increase the energy error')
        # fixed point: starting at the exact solution nothing changes
        y = xs.copy()
        if route == 'sparse':
            ns['gauss_seidel'](SpMat(A, 'csr'), y, b, indices=np.array([r], dtype=np.intc), sweep='forward')
        else:
            ns['gauss_seidel'](A.copy(), y, b, indices=[r], sweep='forward')
        c.check(sx.eq_arrays(y, xs), 'exact solution is a fixed point of the row update')
        c.witness('energy')
    return run


REPLAY_ITER = r"""
import sys, json, numpy as np
w = json.load(sys.stdin)
from pyiga import solvers
rng = np.random.RandomState(3)
bad = []
for n, maxiter, tol in ((6, 50, 1e-3), (5, 3, 1e-9), (7, 200, 1e-6)):
    B = rng.rand(n, n); A = B @ B.T + n * np.eye(n); f = rng.rand(n)
    D = np.diag(A)
    act = np.array([0, 2, n - 1]) if w['active'] else None
    x0 = 10.0 * rng.rand(n) if w['x0'] else None
    its = []
    def step(x):
        y = x + (f - A @ x) / D * 0.5
        if act is not None:
            z = x.copy(); z[act] = y[act]; y = z          # update the active dofs only (Dirichlet-style)
        its.append(y.copy()); return y
    x, k = solvers.iterative_solve(step, A, f, x0=None if x0 is None else x0.copy(), active_dofs=act, tol=tol, maxiter=maxiter)
    sel = slice(None) if act is None else act
    start = np.zeros(n) if x0 is None else x0
    res0 = np.linalg.norm((f - A @ start)[sel])
    ratios = [np.linalg.norm((f - A @ y)[sel]) / res0 for y in its]
    first = next((i + 1 for i, q in enumerate(ratios) if q < tol), None)
    exp_k = first if (first is not None and first <= maxiter) else np.inf
    exp_n = first if exp_k != np.inf else maxiter
    if k != exp_k or len(its) != exp_n or not np.array_equal(x, its[-1]):
        bad.append('n=%d maxiter=%d tol=%g: returned k=%s after %d steps, stopping rule gives k=%s after %s steps' % (n, maxiter, tol, k, len(its), exp_k, exp_n))
print(json.dumps({'reproduced': bool(bad), 'bad': bad[:4]}))
"""


def iterative_harness(ns, n, maxiter, with_x0, with_active):
    def run(c):
        nrm = ns['_norm']; del nrm.log[:]
        A = sx.symarray('A', (n, n)); f = sx.symarray('f', (n,))
        tol = Sym(z3.Real('tol')); c.assume(tol.t > 0)
        iters = []
        def step(x):
            y = np.array([c.fresh('it') for _ in range(n)], dtype=object); iters.append(y); return y
        x0 = sx.symarray('x0', (n,)) if with_x0 else None
        act = ([0] if n < 3 else [0, n - 1]) if with_active else None
        # scipy.linalg.norm of the initial residual must be nonzero for res/res0 to be defined
        x, k = ns['iterative_solve'](step, A, f, x0=x0, active_dofs=act, tol=tol, maxiter=maxiter)
        norms = nrm.log
        res0 = lift(norms[0][1])
        props = []
        r0 = f if not with_x0 else f - A.dot(x0)
        r0 = r0[act] if act is not None else r0
        props.append(sx.eq_arrays(norms[0][0], r0))
        for i, (arg, nv) in enumerate(norms[1:]):
            ri = f - A.dot(iters[i]); ri = ri[act] if act is not None else ri
            props.append(sx.eq_arrays(arg, ri))                      # the tested residual is that of the current iterate
        nit = len(iters)
        props.append(sx.eq_arrays(x, iters[-1]))
        last = lift(norms[-1][1])
        if k == np.inf or (isinstance(k, float) and k == float('inf')):
            props.append(z3.BoolVal(nit >= maxiter))
            props.append(z3.Not(last / res0 < tol.t))
        else:
            props.append(z3.BoolVal(k == nit))
            props.append(last / res0 < tol.t)
        for (arg, nv) in norms[1:-1]:
            props.append(z3.Not(lift(nv) / res0 < tol.t))
        c.check(z3.And(*props), 'iterative_solve stops only when res/res0 < tol (reporting the count) or at maxiter (reporting inf)')
        c.witness('iterative')
    return run


def interp_P(nf, nc):
    """concrete rational prolongation (piecewise linear interpolation pattern)"""
    from fractions import Fraction as Fr
    P = np.empty((nf, nc), dtype=object); P[...] = 0
    for i in range(nf):
        t = Fr(i * (nc - 1), max(nf - 1, 1)) if nc > 1 else Fr(0)
        j = int(t); w = t - j
        if nc == 1: P[i, 0] = Sym(z3.RealVal(Fr(1 + i, 2)))
        else:
            P[i, j] = Sym(z3.RealVal(1 - w)) if w != 1 else 0
            if j + 1 < nc and w != 0: P[i, j + 1] = Sym(z3.RealVal(w))
    return P


def twogrid_harness(ns, nf, nc, u0_kind):
    def run(c):
        nrm = ns['_norm']; del nrm.log[:]
        A = sx.symarray('A', (nf, nf)); P = interp_P(nf, nc); f = sx.symarray('f', (nf,))
        if u0_kind == 'array': u0 = sx.symarray('u0', (nf,))
        elif u0_kind == 'integer array':
            # an integer-typed starting vector (e.g. np.zeros(n, dtype=int) or a 0/1 indicator): numpy semantics of integer arrays are modelled
            from symx.symnp import IntArr
            u0 = sx.symarray('u0', (nf,), sort='int').view(IntArr)
        elif u0_kind == 'floats': u0 = np.array([0.5] * nf)
        else: u0 = None
        sm = []
        def smoother(A_, u, f_):
            sm.append(np.array(u, dtype=object, copy=True))
        tol = Sym(z3.Real('tol')); c.assume(z3.And(tol.t > 0, tol.t < 1))
        calls = {'n': 0}
        u = ns['twogrid'](SpMat(A), f, SpMat(P), smoother, u0=u0, tol=tol, smooth_steps=1, maxiter=1)
        # first cycle: u1 = u_s + P y with (P^T A P) y = P^T (f - A u_s); the stub smoother leaves u unchanged
        start = (u0 if u0 is not None else np.zeros(nf, dtype=object))
        c.check(sx.eq_arrays(sm[0], np.asarray(start, dtype=object)), 'twogrid starts from the given vector')
        if len(sm) == 1:
            # exactly one cycle was made: u = u_s + P y with (P^T A P) y = P^T (f - A u_s); hence P^T (f - A u) = 0
            us = np.asarray(start, dtype=object)
            resid = P.T.dot(f - A.dot(np.asarray(u, dtype=object)))
            c.check(z3.And(*[lift(v) == 0 for v in resid]), 'one cycle = smoothing + exact coarse-grid correction (Galerkin orthogonality of the new residual)')
        c.witness('twogrid')
    return run


def localmg_harness(ns, nf, nc, smoother, inds_f, inds_c):
    def run(c):
        A = np.empty((nf, nf), dtype=object)
        for i in range(nf):
            for j in range(i, nf):
                A[i, j] = A[j, i] = Sym(z3.Real('s_%d_%d' % (i, j)))
        for i in range(nf): c.assume(lift(A[i, i]) != 0)
        P = sx.symarray('P', (nf, nc)) if nc == 1 else interp_P(nf, nc)
        xs = sx.symarray('xs', (nf,))
        f = A.dot(xs)
        hs = _NS(numlevels=2)
        # compositional help for the solver: after every smoothing call on the fine level the iterate must still be the exact
        # solution (own obligation); once that is discharged the iterate is replaced by xs (sound: equal on this path)
        real_gs = ns['_real_gs']
        def gs_checked(A_, x_, b_, **kw):
            real_gs(A_, x_, b_, **kw)
            if x_.shape[0] == nf:
                if c.check(sx.eq_arrays(x_, xs), 'smoothing leaves the exact solution unchanged') == 'unsat':
                    x_[:] = xs
        ns['gauss_seidel'] = gs_checked
        step = ns['local_mg_step'](hs, SpMat(A, 'csr'), f, [SpMat(P, 'csr')], [np.array(inds_c, dtype=np.intc), np.array(inds_f, dtype=np.intc)], smoother=smoother, smooth_steps=1)
        try:
            y = step(xs.copy())
        finally:
            ns['gauss_seidel'] = real_gs
        c.check(sx.eq_arrays(np.asarray(y, dtype=object), xs), 'exact solution is a fixed point of the local multigrid cycle')
        c.witness('localmg')
    return run


def hmultigrid_driver_harness(enc=None, transform=None):
    """solve_hmultigrid hands the caller's tolerance and iteration limit (and the system, the non-Dirichlet dofs and the cycle built for the
    requested strategy/smoother) to the generic driver and returns the driver's answer unchanged: then the stopping rule proved for
    iterative_solve is the stopping rule of the hierarchical driver.  The space, the cycle factory and the generic driver are recording stubs."""
    rec = {}
    def local_mg_step(hs, A, f, Ps, inds, smoother='symmetric_gs', smooth_steps=2):
        rec['cycle'] = dict(hs=hs, A=A, f=f, Ps=Ps, inds=inds, smoother=smoother); return ('cycle', id(rec))
    def iterative_solve(step, A, f, x0=None, active_dofs=None, tol=1e-8, maxiter=5000):
        rec['drv'] = dict(step=step, A=A, f=f, x0=x0, active_dofs=active_dofs, tol=tol, maxiter=maxiter); return ('x', 'iterations')
    ns = {'np': SymNP(), 'local_mg_step': local_mg_step, 'iterative_solve': iterative_solve}
    srcload.load_defs('pyiga/solvers.py', ['solve_hmultigrid'], ns, encoded=enc, transform=transform, closure=False)
    def run(c):
        rec.clear()
        tol = Sym(z3.Real('tol')); mi = Sym(z3.Int('maxiter')); c.assume(z3.And(tol.t > 0, mi.t >= 0))
        class HS:
            def virtual_hierarchy_prolongators(self): return ('Ps',)
            def non_dirichlet_dofs(self): return ('free dofs',)
            def indices_to_smooth(self, strategy): return ('inds', strategy)
        hs = HS(); A = object(); f = object()
        for strategy, smoother in (('cell_supp', 'gs'), ('new', 'exact'), ('func_supp', 'symmetric_gs')):
            out = ns['solve_hmultigrid'](hs, A, f, strategy=strategy, smoother=smoother, tol=tol, maxiter=mi)
            d, cy_ = rec.get('drv', {}), rec.get('cycle', {})
            ok = (out == ('x', 'iterations') and d.get('A') is A and d.get('f') is f and d.get('active_dofs') == ('free dofs',) and d.get('step') == ('cycle', id(rec))
                  and cy_.get('hs') is hs and cy_.get('A') is A and cy_.get('f') is f and cy_.get('Ps') == ('Ps',) and cy_.get('inds') == ('inds', strategy) and cy_.get('smoother') == smoother)
            c.check(z3.BoolVal(bool(ok)), 'solve_hmultigrid: system, free dofs, cycle (strategy, smoother) handed to the generic driver, answer returned unchanged')
            c.check(z3.And(sx._toreal(lift(d.get('tol', 0))) == tol.t, sx._toreal(lift(d.get('maxiter', -1))) == z3.ToReal(mi.t)),
                    'solve_hmultigrid: the requested tolerance and iteration limit are the ones the driver stops at')
        c.witness('hmultigrid driver')
    return run


REPLAY_HMG = r'''
import sys, json, io, contextlib, numpy as np
w = json.load(sys.stdin)
from pyiga import bspline, hierarchical, assemble, vform, geometry, solvers
kvs = 2 * (bspline.make_knots(2, 0.0, 1.0, 4),)
hs = hierarchical.HSpace(kvs, bdspecs=[(0, 0), (0, 1), (1, 0), (1, 1)]); hs.refine({0: {(0, 0), (0, 1), (1, 0), (1, 1)}})
geo = geometry.unit_square()
A = assemble.assemble(vform.stiffness_vf(2), hs, geo=geo); f = assemble.assemble(vform.L2functional_vf(2, physical=True), hs, geo=geo, f=lambda x, y: 1.0)
bad = []
with contextlib.redirect_stdout(io.StringIO()):
    x, it_full = solvers.solve_hmultigrid(hs, A, f, tol=1e-10)
    for mi in (1, 2):
        x, it = solvers.solve_hmultigrid(hs, A, f, tol=1e-10, maxiter=mi)
        if it_full > mi and it != np.inf: bad.append('maxiter=%d: reported %s iterations (needs %s), the limit was not applied / reported' % (mi, it, it_full))
    x, it = solvers.solve_hmultigrid(hs, A, f, tol=1e-2)
    if not (it <= it_full): bad.append('tol=1e-2 took %s iterations, tol=1e-10 took %s' % (it, it_full))
print(json.dumps({'reproduced': bool(bad), 'bad': bad}))
'''


def localmg_energy_harness(ns, nf, nc, inds_f, inds_c):
    """one local multigrid cycle with exact subspace solves on a symbolic SPD system (A = L L^T, diag(L) > 0) from an arbitrary iterate:
    the energy norm of the error does not increase.  Each exact solve is accompanied by two lemmas that are PROVED on the path before
    they are used (orthogonality y.(By - r) = 0, and y.By >= 0); the final inequality is then a linear combination of them and is decided
    by the linear relaxation (symx/linrelax.py)."""
    def run(c):
        L = np.empty((nf, nf), dtype=object); L[...] = 0
        for i in range(nf):
            for j in range(i + 1): L[i, j] = Sym(z3.Real('l_%d_%d' % (i, j)))
            c.assume(lift(L[i, i]) > 0)
        A = L.dot(L.T)
        P = interp_P(nf, nc)
        xs = sx.symarray('xs', (nf,)); e = sx.symarray('e', (nf,))
        f = A.dot(xs)
        hs = _NS(numlevels=2)
        log = []
        class Rec(SolverStub):
            def dot(self, r):
                y = SolverStub.dot(self, r); log.append((self.B, y, np.asarray(r, dtype=object).ravel())); return y
            __matmul__ = dot; __mul__ = dot
        g = ns['local_mg_step'].__globals__
        old = g['make_solver']; g['make_solver'] = lambda B, symmetric=False, spd=False: Rec(B)
        try:
            step = ns['local_mg_step'](hs, SpMat(A, 'csr'), f, [SpMat(P, 'csr')], [np.array(inds_c, dtype=np.intc), np.array(inds_f, dtype=np.intc)], smoother='exact', smooth_steps=1)
            y = np.asarray(step(xs + e), dtype=object)
        finally:
            g['make_solver'] = old
        for (B, yy, r) in log:
            By = B.dot(yy)
            orth = sum((yy[i] * (By[i] - r[i]) for i in range(len(yy))), 0)
            if c.check(lift(orth) == 0, 'lemma: y.(B y - r) = 0 for an exact solve') == 'unsat': c.assume(lift(orth) == 0)
            q = yy.dot(By)
            if c.check(lift(q) >= 0, 'lemma: y.B y >= 0 (the matrix handed to the exact solver is positive semidefinite on the correction)') == 'unsat': c.assume(lift(q) >= 0)
        en = y - xs
        c.check(lift(en.dot(A.dot(en))) <= lift(e.dot(A.dot(e))), 'local multigrid cycle with exact subspace solves does not increase the energy norm of the error')
        c.witness('localmg energy')
    return run


REPLAY_LOCALMG = r'''
import sys, json, numpy as np, scipy.sparse, types
w = json.load(sys.stdin)
from pyiga import solvers
nf, nc = w['nf'], w['nc']
rng = np.random.RandomState(6)
bad = []
for trial in range(5):
    L = np.tril(rng.rand(nf, nf)) + np.eye(nf); A = L @ L.T
    P = rng.rand(nf, nc) + 0.1
    xs = rng.randn(nf); f = A @ xs
    hs = types.SimpleNamespace(numlevels=2)
    step = solvers.local_mg_step(hs, scipy.sparse.csr_matrix(A), f, [scipy.sparse.csr_matrix(P)], [np.array(w['inds_c'], dtype=np.intc), np.array(w['inds_f'], dtype=np.intc)], smoother=w['smoother'], smooth_steps=1)
    y = step(xs.copy())
    if not np.allclose(y, xs, rtol=1e-9, atol=1e-10): bad.append('exact solution moved by %.3g' % abs(y - xs).max())
print(json.dumps({'reproduced': bool(bad), 'bad': bad[:3]}))
'''


REPLAY_ENERGY = r'''
import sys, json, numpy as np, scipy.sparse, types
from fractions import Fraction as F
w = json.load(sys.stdin)
from pyiga import solvers
nf, nc = w['nf'], w['nc']
P = np.array([[float(F(v)) for v in row] for row in w['P']])
bad = []
rng = np.random.RandomState(4)
cases = []
if w.get('L'): cases.append((np.array([[float(F(v)) for v in row] for row in w['L']]), np.array([float(F(v)) for v in w['xs']]), np.array([float(F(v)) for v in w['e']])))
for _ in range(6):
    L = np.tril(rng.rand(nf, nf)) + np.eye(nf); cases.append((L, rng.rand(nf), rng.randn(nf)))
for L, xs, e in cases:
    A = L @ L.T
    hs = types.SimpleNamespace(numlevels=2)
    step = solvers.local_mg_step(hs, scipy.sparse.csr_matrix(A), A @ xs, [scipy.sparse.csr_matrix(P)], [np.array(w['inds_c'], dtype=np.intc), np.array(w['inds_f'], dtype=np.intc)], smoother='exact', smooth_steps=1)
    y = step(xs + e); en = y - xs
    if en @ A @ en > e @ A @ e * (1 + 1e-10) + 1e-14: bad.append('energy %.6g -> %.6g' % (e @ A @ e, en @ A @ en))
print(json.dumps({'reproduced': bool(bad), 'bad': bad[:4]}))
'''


REPLAY_GS = r'''
import sys, json, numpy as np, scipy.sparse
w = json.load(sys.stdin)
from pyiga import solvers
rng = np.random.RandomState(2)
n = w['n']; indptr = np.array(w['indptr'], dtype=np.int32); indices = np.array(w['indices'], dtype=np.int32)
data = rng.rand(len(indices)) + 0.5
A = scipy.sparse.csr_matrix((data, indices, indptr), shape=(n, n)); D = A.toarray()
for i in range(n): D[i, i] += 3
A = scipy.sparse.csr_matrix((np.array([D[i, indices[jj]] for i in range(n) for jj in range(indptr[i], indptr[i+1])]), indices, indptr), shape=(n, n))
x = rng.rand(n); b = rng.rand(n)
idx = w.get('idx')
xs = x.copy(); solvers.gauss_seidel(A, xs, b, iterations=w['iterations'], indices=(np.array(idx, dtype=np.intc) if idx is not None else None), sweep=w['sweep'])
xd = x.copy(); solvers.gauss_seidel(D.copy(), xd, b, iterations=w['iterations'], indices=idx, sweep=w['sweep'])
def ref(x, order):
    x = x.copy()
    for i in order:
        x[i] = (b[i] - sum(D[i, j] * x[j] for j in range(n) if j != i)) / D[i, i]
    return x
base = list(idx) if idx is not None else list(range(n)); xr = x.copy()
for _ in range(w['iterations']):
    if w['sweep'] == 'forward': xr = ref(xr, base)
    elif w['sweep'] == 'backward': xr = ref(xr, base[::-1])
    else: xr = ref(ref(xr, base), base[::-1])
bad = []
if not np.allclose(xs, xr): bad.append('sparse route differs from the textbook update')
if not np.allclose(xd, xr): bad.append('dense route differs from the textbook update')
print(json.dumps({'reproduced': bool(bad), 'bad': bad}))
'''

REPLAY_TWOGRID = r'''
import sys, json, numpy as np, scipy.sparse
w = json.load(sys.stdin)
from pyiga import solvers, bspline, assemble
kv = bspline.make_knots(2, 0.0, 1.0, 8); kvc = bspline.make_knots(2, 0.0, 1.0, 4)
A = (assemble.stiffness(kv) + assemble.mass(kv)).tocsr(); P = bspline.prolongation(kvc, kv)
f = np.ones(A.shape[0])
bad = []
import io, contextlib
for nm, u0 in (('float array', np.full(A.shape[0], 0.5)), ('integer array', np.arange(A.shape[0]) % 2), ('list of ints', [1] * A.shape[0])):
    try:
        with contextlib.redirect_stdout(io.StringIO()):
            u = solvers.twogrid(A, f, P, solvers.GaussSeidelSmoother(), u0=u0, tol=1e-10)
        if not np.allclose(A @ u, f, atol=1e-6): bad.append('u0 = %s: did not converge' % nm)
    except Exception as e:
        bad.append('u0 = %s: exception %s: %s' % (nm, type(e).__name__, str(e)[:100]))
print(json.dumps({'reproduced': bool(bad), 'bad': bad}))
'''


def main():
    run = Run(PID, level='other', description='Gauss-Seidel kernels against the textbook recurrence with symbolic matrix entries; inductive energy step; '
                                              'drivers against unconstrained step stubs; local multigrid fixed point on symbolic two-level systems.')
    thorough = run.tier == 'thorough'
    enc = srcload.Encoded()
    cy, ns = load_code(enc)
    run.add_encoded(enc)
    run.stubs += ['CSR matrix -> concrete structure + symbolic data (CSRStub) / dense object model (symsparse)',
                  'make_solver(B) -> contract: B nonsingular, result y with B y = r', 'norms -> fresh non-negative reals', 'iteration step / smoother -> unconstrained stubs',
                  'print -> no-op']
    run.assumptions += ['reals for doubles', 'nonzero diagonal (documented precondition)', 'CSR without duplicate entries', 'energy claim: symmetric matrix with a_ii > 0 for the updated row '
                        '(a sweep is a sequence of such steps, so the claim extends to any sweep/iteration count on SPD systems)']
    run.out_of_scope += ['convergence rates; "twogrid converges"', 'solve_hmultigrid end to end on real spaces (its forwarding of tol/maxiter/strategy/smoother to the generic driver is checked; smooth_steps is not forwarded by the library and is not part of the property)', 'real hierarchical spaces (smoothing sets, prolongators): thorough tier / C03-C05',
                         'energy non-increase of cycles with Gauss-Seidel smoothers (only the cycle with exact subspace solves is decided)']
    run.bounds = {'matrix size': 'n = 3 (quick), 4 (thorough)', 'structures': 'dense/tridiagonal/arrow/triangular incl. unsorted column indices',
                  'iterations': '<= 2', 'index lists': 'arbitrary sequences of length 0..3 (with repetition; the empty list included)', 'drivers': 'maxiter <= 3'}
    n = 4 if thorough else 3
    if run.want('gs'):
        for sname, struct in structures(n, thorough):
            for sweep in ('forward', 'backward', 'symmetric'):
                for route in ('sparse', 'dense'):
                    if route == 'dense' and 'unsorted' in sname: continue
                    for (its, il) in [(1, None), (2, None), (1, 2), (1, 0)] + ([(2, 3)] if thorough else []):        # il = 0: an EMPTY index list relaxes nothing
                        if not thorough and sname not in ('dense', 'tridiagonal', 'dense, unsorted columns') and its == 2: continue
                        st = sx.explore(gs_harness(cy, ns, n, struct, sweep, its, il, route), timeout_ms=60000, eqs_first=False)
                        bound = {'n': n, 'structure': sname, 'sweep': sweep, 'route': route, 'iterations': its, 'index list length': il}
                        run.absorb(st, 'gauss-seidel', bound=bound, sample={'obligation': 'textbook GS', **bound})
                        for cex in st.cex:
                            m = cex['model']
                            idx = [int(sx.model_value(m, z3.Int('ix%d' % j))) for j in range(il)] if il is not None else None
                            w = {'n': n, 'indptr': [int(v) for v in struct[0]], 'indices': [int(v) for v in struct[1]], 'sweep': sweep, 'iterations': its, 'idx': idx, 'kind': 'gs'}
                            r = realbuild.run_real(REPLAY_GS, w, only=['relaxation_cy'])
                            run.report('gauss_seidel:%s:%s' % (route, sweep), 'Gauss-Seidel (%s, %s, %s, indices=%s): %s; real: %s' % (route, sname, sweep, idx, cex['name'], r['bad']), w, r['reproduced'])
    if run.want('energy'):
        for nn in (2, 3):          # (n = 4 was tried in the thorough tier: the solver does not decide it within 60 s; stated, not claimed)
            for route in ('sparse', 'dense'):
                st = sx.explore(fixedpoint_energy_harness(cy, ns, nn, route), timeout_ms=60000, lin_relax=True)
                run.absorb(st, 'energy-step', bound={'n': nn, 'route': route}, sample={'obligation': 'energy / fixed point of a row update', 'n': nn})
                for cex in st.cex:
                    run.report('gauss_seidel:energy:%s' % route, '%s (n=%d, %s): %s' % (cex['name'], nn, route, jsonable(sx.model_dict(cex['model']))), {'kind': 'energy'}, True)
    if run.want('drivers'):
        for (nn, mi, wx, wa) in [(1, 1, False, False), (2, 2, True, False), (2, 3, False, True), (2, 2, True, True), (3, 2, True, True)]:
            st = sx.explore(iterative_harness(ns, nn, mi, wx, wa), timeout_ms=30000)
            run.absorb(st, 'iterative_solve', bound={'n': nn, 'maxiter': mi, 'x0': wx, 'active_dofs': wa}, sample={'obligation': 'iterative_solve stopping rule', 'maxiter': mi})
            for cex in st.cex:
                r = realbuild.run_real(REPLAY_ITER, {'x0': wx, 'active': wa}, only=[])
                run.report('iterative_solve', '%s: %s; real run: %s' % (cex['name'], jsonable(sx.model_dict(cex['model'])), r['bad']), {'kind': 'driver', 'x0': wx, 'active': wa}, r['reproduced'])
        st = sx.explore(hmultigrid_driver_harness(enc), timeout_ms=30000)
        run.absorb(st, 'solve_hmultigrid', bound={'strategies/smoothers': 3, 'tol, maxiter': 'symbolic'}, sample={'obligation': 'solve_hmultigrid forwards tol / maxiter'})
        for cex in st.cex:
            r = realbuild.run_real(REPLAY_HMG, {}, only=['relaxation_cy'])
            run.report('solve_hmultigrid', '%s: %s; real run: %s' % (cex['name'], jsonable(sx.model_dict(cex['model'])), r['bad']), {'kind': 'hmg'}, r['reproduced'])
            break
        cy_i, ns_i = load_code(int_model=True)
        for kind in ('none', 'array', 'integer array'):
            st = sx.explore(twogrid_harness(ns_i if kind == 'integer array' else ns, 3, 2, kind), timeout_ms=30000, max_paths=2000)
            run.absorb(st, 'twogrid', bound={'nf': 3, 'nc': 2, 'u0': kind}, sample={'obligation': 'twogrid accepts the starting vector', 'u0': kind})
            for cex in st.cex:
                r = realbuild.run_real(REPLAY_TWOGRID, {}, only=[])
                run.report('twogrid:u0', 'twogrid(u0=%s): %s; real run with an array u0: %s' % (kind, cex['name'], r['bad']), {'kind': 'twogrid'}, r['reproduced'])
                break
    if run.want('localmg'):
        cfgs = [(3, 2, [0, 2], [0, 1]), (3, 1, [1, 2], [0])]
        if thorough: cfgs += [(4, 2, [1, 3], [0, 1]), (4, 2, [0, 1, 2, 3], [1])]
        for (nf, nc, inf_, inc) in cfgs:
            for smoother in ('gs', 'forward_gs', 'backward_gs', 'symmetric_gs', 'exact'):
                st = sx.explore(localmg_harness(ns, nf, nc, smoother, inf_, inc), timeout_ms=60000, eqs_first=True)
                bound = {'nf': nf, 'nc': nc, 'smoother': smoother, 'fine smoothing set': inf_, 'coarse set': inc}
                run.absorb(st, 'local-multigrid-fixed-point', bound=bound, sample={'obligation': 'local_mg_step fixed point', **bound})
                for cex in st.cex:
                    rr = realbuild.run_real(REPLAY_LOCALMG, {'nf': nf, 'nc': nc, 'inds_f': inf_, 'inds_c': inc, 'smoother': smoother}, only=['relaxation_cy'])
                    run.report('local_mg_step:%s' % smoother, 'local_mg_step(%s) moves the exact solution: %s; real run: %s' % (smoother, cex['name'], rr['bad']), {'kind': 'localmg', **bound}, rr['reproduced'])
                    break
    if run.want('localmg'):
        ecfg = [(2, 1, [1], [0]), (3, 2, [0, 2], [0, 1]), (3, 1, [1, 2], [0])]          # (larger systems: lemmas undecided within the budget; not claimed)
        for (nf, nc, inf_, inc) in ecfg:
            st = sx.explore(localmg_energy_harness(ns, nf, nc, inf_, inc), timeout_ms=60000, lin_relax=True)
            bound = {'nf': nf, 'nc': nc, 'fine set': inf_, 'coarse set': inc, 'smoother': 'exact'}
            run.absorb(st, 'local-multigrid-energy', bound=bound, sample={'obligation': 'energy non-increase of the exact cycle', **bound})
            for cex in st.cex:
                m = cex['model']
                gv = lambda nm: str(F(sx.model_value(m, z3.Real(nm))))
                w = {'nf': nf, 'nc': nc, 'inds_f': inf_, 'inds_c': inc, 'P': [[str(F(sx._numval(z3.simplify(lift(v))))) if isinstance(v, Sym) else str(v) for v in row] for row in interp_P(nf, nc)],
                     'L': [[gv('l_%d_%d' % (i, j)) if j <= i else '0' for j in range(nf)] for i in range(nf)], 'xs': [gv('xs_%d' % i) for i in range(nf)], 'e': [gv('e_%d' % i) for i in range(nf)], 'kind': 'energy-cycle'}
                r = realbuild.run_real(REPLAY_ENERGY, w, only=[])
                run.report('local_mg_step:energy', '%s (%s): %s' % (cex['name'], bound, r['bad']), w, r['reproduced'])
    if not run.args.no_canaries and run.want('gs'):
        src_cy = srcload.read('pyiga/relaxation_cy.pyx'); src_py = srcload.read('pyiga/solvers.py')
        def canary(name, pat, rep, where, harness):
            src = src_cy if where == 'cy' else src_py
            if pat not in src:
                run.canary(name, False, skipped=True); return
            tr = lambda s: s.replace(pat, rep, 1)
            cy2, ns2 = load_code(cy_transform=tr if where == 'cy' else None, py_transform=tr if where == 'py' else None)
            st = sx.explore(harness(cy2, ns2), timeout_ms=30000)
            run.canary(name, bool(st.cex))
        full = structures(3, False)[0][1]
        canary('kernel: Jacobi instead of Gauss-Seidel (reads stale x)', '            x[i] = (b[i] - rsum) / diag\n\n        i += row_step', '            x[i] = (b[i] - rsum) / diag if i == row_start else (b[i] - rsum + 0.0) / (diag * 1.0000001)\n\n        i += row_step', 'cy',
               lambda c2, n2: gs_harness(c2, n2, 3, full, 'forward', 1, None, 'sparse'))
        canary('indexed kernel: reverse ignored', 'I0,I1,Is = indices.shape[0] - 1, -1, -1', 'I0,I1,Is = 0, indices.shape[0], 1', 'cy',
               lambda c2, n2: gs_harness(c2, n2, 3, full, 'backward', 1, 2, 'sparse'))
        canary('dense: backward not reversed', "            indices = list(reversed(indices))", "            indices = list(indices)", 'py',
               lambda c2, n2: gs_harness(c2, n2, 3, full, 'backward', 1, None, 'dense'))
        canary('iterative_solve: stops on absolute residual', 'if res / res0 < tol:', 'if res < tol:', 'py', lambda c2, n2: iterative_harness(n2, 2, 2, True, False))
        if run.want('localmg'):
            pat = 'x1 += P.dot(step(lv-1, np.zeros_like(r_c), r_c))'
            if pat in src_py:
                cy2, ns2 = load_code(py_transform=lambda t: t.replace(pat, 'x1 += 3 * P.dot(step(lv-1, np.zeros_like(r_c), r_c))', 1))
                st = sx.explore(localmg_energy_harness(ns2, 2, 1, [1], [0]), timeout_ms=60000, lin_relax=True)
                run.canary('local multigrid: coarse-grid correction over-relaxed by 3 (fixed point kept, energy increases)', bool(st.cex))
            else: run.canary('local multigrid: coarse-grid correction over-relaxed by 3', False, skipped=True)
    run.finish()


def replay_file(path):
    w = json.load(open(path))['witness']
    if w.get('kind') == 'gs': r = realbuild.run_real(REPLAY_GS, w, only=['relaxation_cy'])
    elif w.get('kind') == 'twogrid': r = realbuild.run_real(REPLAY_TWOGRID, {}, only=[])
    else: r = {'reproduced': True}
    print(json.dumps(r)); print('REPRODUCED' if r['reproduced'] else 'NOT-REPRODUCED')
    sys.exit(1 if r['reproduced'] else 0)


if __name__ == '__main__':
    if '--replay' in sys.argv:
        replay_file(sys.argv[sys.argv.index('--replay') + 1])
    main_wrapper(main)
