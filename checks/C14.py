"""C14 -- multipatch gluing is the equivalence closure of the joins, in any order.

Inductive step on a SYMBOLIC PRE-STATE.  The real Multipatch.join_dofs / _new_shared_dof / finalize
(pyiga/assemble.py, exec'd from source) run on an object whose shared_per_patch / shared_dofs are
symbolic containers: class ids are integer variables (-1 = unshared), len(shared_dofs) a bounded
symbolic integer.  Assuming the representation invariant, ONE join with arbitrary arguments must
re-establish the invariant and realise exactly  same' = closure(same + {x1 ~ x2});  finalize must
number the classes gap-free.  One step from every invariant state covers join histories of any
length, order and repetition over the index domain.
"""
import itertools, json, sys
import numpy as np
import z3

from checks.common import Run, main_wrapper, jsonable
from checks import realbuild
from symx import core as sx
from symx.core import Sym, lift
from symx.containers import SymDict, SymSetList
from symx.symnp import SymNP
from symx.symsparse import sparse_facade
from symx import srcload

PID = 'C14'


class _NS:
    def __init__(self, **kw): self.__dict__.update(kw)


def load_code(enc=None, transform=None):
    ns = {'np': np, 'scipy': _NS(sparse=sparse_facade()), 'bspline': None, 'boundary_dofs': None}
    srcload.load_defs('pyiga/assemble.py', ['Multipatch'], ns, encoded=enc, transform=transform)
    return ns['Multipatch']


def same(spp, x, y):
    if x == y: return z3.BoolVal(True)
    (p, i), (q, j) = x, y
    return z3.And(spp[p][i] >= 0, spp[p][i] == spp[q][j])


def pre_state(P, n, K):
    dofs = [(p, i) for p in range(P) for i in range(n)]
    spp0 = [[z3.Int('spp_%d_%d' % (p, i)) for i in range(n)] for p in range(P)]
    L0 = z3.Int('len0')
    inv = [L0 >= 0, L0 <= K]
    for (p, i) in dofs:
        inv += [spp0[p][i] >= -1, spp0[p][i] < L0]
    return dofs, spp0, L0, inv


def class_invariant(dofs, spp, L, K, allow_empty):
    """every class id < L is either empty (only if allow_empty) or has members in at least two different patches"""
    cs = []
    for s in range(K + 1):
        members = [z3.If(spp[p][i] == s, 1, 0) for (p, i) in dofs]
        patches = sorted({p for p, _ in dofs})
        haspatch = [z3.Or(*[spp[p][i] == s for (pp, i) in dofs if pp == p]) for p in patches]
        npatch = z3.Sum([z3.If(h, 1, 0) for h in haspatch])
        ok = npatch >= 2
        if allow_empty:
            ok = z3.Or(ok, z3.Sum(members) == 0)
        cs.append(z3.Implies(s < L, ok))
    return cs


def join_harness(MP, P, n, K, p1, p2, allow_empty):
    dofs, spp0, L0, inv = pre_state(P, n, K)
    i1, i2 = z3.Int('i1'), z3.Int('i2')
    cap = K + 1

    def run(c):
        for q in inv + class_invariant(dofs, spp0, L0, K, allow_empty): c.assume(q)
        c.assume(z3.And(i1 >= 0, i1 < n, i2 >= 0, i2 < n))
        mp = MP.__new__(MP)
        mp.shared_per_patch = [SymDict({i: spp0[p][i] for i in range(n)}) for p in range(P)]
        mem = [{(p, i): (spp0[p][i] == s) for (p, i) in dofs} for s in range(cap)]
        mp.shared_dofs = SymSetList(L0, mem, cap, dofs)
        mp.join_dofs(p1, [Sym(i1)], p2, [Sym(i2)])
        spp1 = [[mp.shared_per_patch[p].vals[i] for i in range(n)] for p in range(P)]
        L1 = mp.shared_dofs.length
        mem1 = mp.shared_dofs.mem
        # closure property
        props = []
        for a in range(n):
            for b in range(n):
                guard = z3.And(i1 == a, i2 == b)
                x1, x2 = (p1, a), (p2, b)
                for y, zz in itertools.combinations(dofs, 2):
                    want = z3.Or(same(spp0, y, zz), z3.And(same(spp0, y, x1), same(spp0, zz, x2)), z3.And(same(spp0, y, x2), same(spp0, zz, x1)))
                    props.append(z3.Implies(guard, same(spp1, y, zz) == want))
        c.check(z3.And(*props), 'join: same-class relation after the join = equivalence closure of (before + new pair)')
        # invariant re-established (empty classes may appear through merging: compacted by finalize)
        inv1 = [L1 >= 0, L1 <= cap]
        for (p, i) in dofs:
            inv1 += [spp1[p][i] >= -1, spp1[p][i] < L1]
            for s in range(cap):
                inv1.append(mem1[s][(p, i)] == (spp1[p][i] == s))       # dict and member sets agree
        inv1 += class_invariant(dofs, spp1, L1, K, allow_empty=True)
        c.check(z3.And(*inv1), 'join: representation invariant re-established')
        c.witness('join')
    return run, (dofs, spp0, L0, i1, i2)


def finalize_harness(MP, P, n, K, allow_empty):
    """finalize + numdofs on a symbolic invariant state: numbering is a gap-free bijection onto the classes"""
    dofs, spp0, L0, inv = pre_state(P, n, K)
    cap = K + 1

    def run(c):
        for q in inv + class_invariant(dofs, spp0, L0, K, allow_empty): c.assume(q)
        mp = MP.__new__(MP)
        mp.N = [n] * P
        mp.N_ofs = np.concatenate(([0], np.cumsum(mp.N)))
        mp.shared_per_patch = [SymDict({i: spp0[p][i] for i in range(n)}) for p in range(P)]
        mem = [{(p, i): (spp0[p][i] == s) for (p, i) in dofs} for s in range(cap)]
        mp.shared_dofs = SymSetList(L0, mem, cap, dofs)
        mp.finalize()
        nd = mp.numdofs
        spp1 = [[mp.shared_per_patch[p].vals[i] for i in range(n)] for p in range(P)]
        L1 = mp.shared_dofs.length if hasattr(mp.shared_dofs, 'length') else z3.IntVal(len(mp.shared_dofs))
        unshared = z3.Sum([z3.If(spp0[p][i] < 0, 1, 0) for (p, i) in dofs])
        nonempty = z3.Sum([z3.If(z3.And(s < L0, z3.Or(*[spp0[p][i] == s for (p, i) in dofs])), 1, 0) for s in range(cap)])
        c.check(lift(nd) == unshared + nonempty, 'finalize: numdofs = number of equivalence classes')
        # gap-free: every shared id < len is in use, ids in range; relation unchanged by finalize
        props = []
        for s in range(cap):
            props.append(z3.Implies(s < L1, z3.Or(*[spp1[p][i] == s for (p, i) in dofs])))
        for (p, i) in dofs:
            props += [spp1[p][i] < L1, (spp1[p][i] >= 0) == (spp0[p][i] >= 0)]
        for y, zz in itertools.combinations(dofs, 2):
            props.append(same(spp1, y, zz) == same(spp0, y, zz))
        c.check(z3.And(*props), 'finalize: shared ids are gap-free 0..len-1 and the classes are unchanged')
        c.witness('finalize')
    return run, (dofs, spp0, L0)


REPLAY = r'''
import sys, json, numpy as np
w = json.load(sys.stdin)
from pyiga import assemble
P, n = w['P'], w['n']
mp = assemble.Multipatch.__new__(assemble.Multipatch)
mp.patches = [None] * P
mp.N = [n] * P
mp.N_ofs = np.concatenate(([0], np.cumsum(mp.N)))
mp.shared_per_patch = [dict() for _ in range(P)]
mp.shared_dofs = []
parent = {}
def find(x):
    parent.setdefault(x, x)
    while parent[x] != x:
        parent[x] = parent[parent[x]]; x = parent[x]
    return x
hist = w['history']
err = None
try:
    for (p1, i1, p2, i2) in hist:
        mp.join_dofs(p1, [i1], p2, [i2])
        parent[find((p1, i1))] = find((p2, i2))
    mp.finalize()
    G = [mp.patch_to_global_idx(p) if len(mp.shared_per_patch[p]) else np.arange(mp.M_ofs[p], mp.M_ofs[p] + n) for p in range(P)]
except Exception as e:
    err = '%s: %s' % (type(e).__name__, e)
bad = []
if err: bad.append('exception ' + err)
else:
    dofs = [(p, i) for p in range(P) for i in range(n)]
    glob = {d: int(G[d[0]][d[1]]) for d in dofs}
    for a in dofs:
        for b in dofs:
            if a < b and ((glob[a] == glob[b]) != (find(a) == find(b))):
                bad.append('dofs %s,%s: same global index %s, connected by joins %s' % (a, b, glob[a] == glob[b], find(a) == find(b)))
    ncls = len({find(d) for d in dofs})
    if sorted(set(glob.values())) != list(range(ncls)) or mp.numdofs != ncls:
        bad.append('numbering not a gap-free bijection onto the %d classes: numdofs=%d, indices used %s' % (ncls, mp.numdofs, sorted(set(glob.values()))))
    if not bad:
        for p in range(P):
            if len(mp.shared_per_patch[p]) == 0: continue
            X = mp.patch_to_global(p).toarray()
            # X^T X = I unless the joins glue the patch to itself; in general (X^T X)[a,b] = [a ~ b]
            ref = np.array([[1.0 if find((p, a)) == find((p, b)) else 0.0 for b in range(n)] for a in range(n)])
            if not (np.isin(X, (0, 1)).all() and (X.sum(axis=0) == 1).all() and np.allclose(X.T @ X, ref)):
                bad.append('patch_to_global(%d) is not a 0/1 matrix with one entry per local dof and X^T X = [same class]' % p)
print(json.dumps({'reproduced': bool(bad), 'bad': bad[:5]}))
'''


def history_for(model, dofs, spp0, L0, K, P, n):
    """concrete join history that builds the classes of the pre-state (chain joins across different patches)"""
    cls = {}
    for (p, i) in dofs:
        s = int(sx.model_value(model, spp0[p][i]))
        if s >= 0: cls.setdefault(s, []).append((p, i))
    hist = []
    for s in sorted(cls):
        mem = cls[s]
        done = [mem[0]]
        rest = mem[1:]
        progress = True
        while rest and progress:
            progress = False
            for x in list(rest):
                y = next((y for y in done if y[0] != x[0]), None)
                if y is not None:
                    hist.append((y[0], y[1], x[0], x[1])); done.append(x); rest.remove(x); progress = True
        if rest:
            return None      # pre-state unreachable (all remaining members in one patch)
    return hist


def main():
    run = Run(PID, level='other', description='Inductive step of Multipatch.join_dofs/finalize on a symbolic pre-state.')
    thorough = run.tier == 'thorough'
    enc = srcload.Encoded()
    MP = load_code(enc)
    run.add_encoded(enc)
    src = srcload.read('pyiga/assemble.py')
    run.stubs += ['shared_per_patch -> SymDict (ite chains over the key domain, -1 = absent)', 'shared_dofs -> SymSetList (symbolic length and membership)']
    run.assumptions += ['representation invariant: dict and member sets agree; every class has members from >= 2 patches (or is empty: '
                        'classes emptied by merging are compacted by finalize); class ids < len(shared_dofs)',
                        'single-pair joins: join_dofs over index arrays is the sequence of its pairs (the loop is executed for one pair)']
    run.out_of_scope += ['detect_interfaces (floating-point geometry comparison)', 'assemble_system vs undivided domain (numeric assembly)',
                         'patch_to_global_idx numpy indexing (exercised in replay only)', 'join_boundaries flips: see C10 slice_indices/boundary_dofs']
    cfgs = [(3, 2, 2)] + ([(4, 2, 2), (3, 2, 3), (3, 3, 2)] if thorough else [])
    run.bounds = {'patches': '3 (quick) / 4', 'local dofs per patch': '2 (3 thorough)', 'pre-existing classes': '<= 2 (3 thorough)', 'join': 'any ordered patch pair, any dof pair'}
    for (P, n, K) in cfgs:
        pairs = list(itertools.permutations(range(P), 2))
        if not thorough: pairs = pairs[:4]
        for (p1, p2) in pairs:
            h, (dofs, spp0, L0, i1, i2) = join_harness(MP, P, n, K, p1, p2, allow_empty=True)
            st = sx.explore(h, timeout_ms=60000, max_paths=20000)
            bound = {'P': P, 'n': n, 'K': K, 'p1': p1, 'p2': p2}
            run.absorb(st, 'join-step', bound=bound, sample={'obligation': 'join inductive step', **bound})
            for cex in st.cex:
                m = cex['model']
                hist = history_for(m, dofs, spp0, L0, K, P, n)
                if hist is None:
                    run.inconclusive_msg('counterexample from an unreachable pre-state: strengthen the invariant (%s)' % jsonable(sx.model_dict(m)))
                    continue
                a, b = int(sx.model_value(m, i1)), int(sx.model_value(m, i2))
                hist.append((p1, a, p2, b))
                w = {'P': P, 'n': n, 'history': hist}
                r = realbuild.run_real(REPLAY, w, only=[])
                run.report('join_dofs:%s' % cex['name'].split(':')[0], 'join history %s on %d patches x %d dofs: %s' % (hist, P, n, r['bad']), w, r['reproduced'])
                break
        h, _ = finalize_harness(MP, P, n, K, allow_empty=True)
        st = sx.explore(h, timeout_ms=60000, max_paths=50000)
        run.absorb(st, 'finalize', bound={'P': P, 'n': n, 'K': K}, sample={'obligation': 'finalize numbering', 'P': P, 'n': n, 'K': K})
        for cex in st.cex:
            m = cex['model']
            run.inconclusive_msg('finalize obligation failed on pre-state %s (%s)' % (jsonable(sx.model_dict(m)), cex['name'])) \
                if history_for(m, *_[0:1], *_[1:3], K, P, n) is None else None
            dofs, spp0, L0 = _
            hist = history_for(m, dofs, spp0, L0, K, P, n)
            if hist is not None:
                w = {'P': P, 'n': n, 'history': hist}
                r = realbuild.run_real(REPLAY, w, only=[])
                if r['reproduced']:
                    run.report('finalize:numbering', 'after joins %s: %s' % (hist, r['bad']), w, True)
                else:
                    # empty classes in the pre-state can only arise through a merging join_dofs; not reachable with this history
                    run.inconclusive_msg('finalize counterexample (%s) needs a pre-state with emptied classes that the generated history does not produce' % cex['name'])
            break
    if not run.args.no_canaries:
        def canary(name, pat, rep):
            if pat not in src:
                run.canary(name, False, skipped=True); return
            MP2 = load_code(transform=lambda s: s.replace(pat, rep, 1))
            det = False
            for (p1, p2) in [(0, 1), (1, 2)]:
                h, _ = join_harness(MP2, 3, 2, 2, p1, p2, allow_empty=True)
                st = sx.explore(h, timeout_ms=30000)
                det = det or bool(st.cex)
            run.canary(name, det)
        canary('second branch adds to wrong patch', "                sd = self.shared_per_patch[p2][i2]\n                add_to_shared(sd, p1, i1)", "                sd = self.shared_per_patch[p2][i2]\n                add_to_shared(sd, p1, i2)")
        canary('new shared dof not registered for p2', "                add_to_shared(sd, p1, i1)\n                add_to_shared(sd, p2, i2)", "                add_to_shared(sd, p1, i1)")
    run.finish()


def replay_file(path):
    w = json.load(open(path))['witness']
    r = realbuild.run_real(REPLAY, w, only=[])
    print(json.dumps(r)); print('REPRODUCED' if r['reproduced'] else 'NOT-REPRODUCED')
    sys.exit(1 if r['reproduced'] else 0)


if __name__ == '__main__':
    if '--replay' in sys.argv:
        replay_file(sys.argv[sys.argv.index('--replay') + 1])
    main_wrapper(main)
