"""C14 -- multipatch gluing is the equivalence closure of the joins, in any order.

Inductive step on a SYMBOLIC PRE-STATE.  The real Multipatch.join_dofs / _new_shared_dof / finalize
(pyiga/assemble.py, exec'd from source) run on an object whose shared_per_patch / shared_dofs are
symbolic containers: class ids are integer variables (-1 = unshared), len(shared_dofs) a bounded
symbolic integer.  Assuming the representation invariant, ONE join with arbitrary arguments must
re-establish the invariant and realise exactly  same' = closure(same + {x1 ~ x2});  finalize must
number the classes gap-free.  One step from every invariant state covers join histories of any
length, order and repetition over the index domain.
"""
import itertools, json, sys
import numpy as np
import z3

from checks.common import Run, main_wrapper, jsonable
from checks import realbuild
from symx import core as sx
from symx.core import Sym, lift
from symx.containers import SymDict, SymSetList
from symx.symnp import SymNP
from symx.symsparse import sparse_facade
from symx import srcload

PID = 'C14'


class _NS:
    def __init__(self, **kw): self.__dict__.update(kw)


def load_code(enc=None, transform=None):
    ns = {'np': np, 'scipy': _NS(sparse=sparse_facade()), 'bspline': _NS(numdofs=lambda kvs: kvs[2]), 'boundary_dofs': None}
    srcload.load_defs('pyiga/assemble.py', ['Multipatch'], ns, encoded=enc, transform=transform)
    return ns['Multipatch']


def new_mp(MP, P, n):
    """a Multipatch built by its REAL constructor (abstract patches: 'kvs' = ('kvs', p, n) with bspline.numdofs stubbed to n), so that
    whatever __init__ sets up exists; the sharing state is then replaced by the symbolic pre-state"""
    return MP([(('kvs', p, n), ('geo', p)) for p in range(P)])


def same(spp, x, y):
    if x == y: return z3.BoolVal(True)
    (p, i), (q, j) = x, y
    return z3.And(spp[p][i] >= 0, spp[p][i] == spp[q][j])


def pre_state(P, n, K):
    dofs = [(p, i) for p in range(P) for i in range(n)]
    spp0 = [[z3.Int('spp_%d_%d' % (p, i)) for i in range(n)] for p in range(P)]
    L0 = z3.Int('len0')
    inv = [L0 >= 0, L0 <= K]
    for (p, i) in dofs:
        inv += [spp0[p][i] >= -1, spp0[p][i] < L0]
    return dofs, spp0, L0, inv


def class_invariant(dofs, spp, L, K, allow_empty):
    """every class id < L is either empty (only if allow_empty) or has members in at least two different patches"""
    cs = []
    for s in range(K + 1):
        members = [z3.If(spp[p][i] == s, 1, 0) for (p, i) in dofs]
        patches = sorted({p for p, _ in dofs})
        haspatch = [z3.Or(*[spp[p][i] == s for (pp, i) in dofs if pp == p]) for p in patches]
        npatch = z3.Sum([z3.If(h, 1, 0) for h in haspatch])
        ok = npatch >= 2
        if allow_empty:
            ok = z3.Or(ok, z3.Sum(members) == 0)
        cs.append(z3.Implies(s < L, ok))
    return cs


def join_harness(MP, P, n, K, p1, p2, allow_empty):
    dofs, spp0, L0, inv = pre_state(P, n, K)
    i1, i2 = z3.Int('i1'), z3.Int('i2')
    cap = K + 1

    def run(c):
        for q in inv + class_invariant(dofs, spp0, L0, K, allow_empty): c.assume(q)
        c.assume(z3.And(i1 >= 0, i1 < n, i2 >= 0, i2 < n))
        mp = new_mp(MP, P, n)
        mp.shared_per_patch = [SymDict({i: spp0[p][i] for i in range(n)}) for p in range(P)]
        mem = [{(p, i): (spp0[p][i] == s) for (p, i) in dofs} for s in range(cap)]
        mp.shared_dofs = SymSetList(L0, mem, cap, dofs)
        mp.join_dofs(p1, [Sym(i1)], p2, [Sym(i2)])
        spp1 = [[mp.shared_per_patch[p].vals[i] for i in range(n)] for p in range(P)]
        L1 = mp.shared_dofs.length
        mem1 = mp.shared_dofs.mem
        # closure property
        props = []
        for a in range(n):
            for b in range(n):
                guard = z3.And(i1 == a, i2 == b)
                x1, x2 = (p1, a), (p2, b)
                for y, zz in itertools.combinations(dofs, 2):
                    want = z3.Or(same(spp0, y, zz), z3.And(same(spp0, y, x1), same(spp0, zz, x2)), z3.And(same(spp0, y, x2), same(spp0, zz, x1)))
                    props.append(z3.Implies(guard, same(spp1, y, zz) == want))
        c.check(z3.And(*props), 'join: same-class relation after the join = equivalence closure of (before + new pair)')
        # invariant re-established (empty classes may appear through merging: compacted by finalize)
        inv1 = [L1 >= 0, L1 <= cap]
        for (p, i) in dofs:
            inv1 += [spp1[p][i] >= -1, spp1[p][i] < L1]
            for s in range(cap):
                inv1.append(mem1[s][(p, i)] == (spp1[p][i] == s))       # dict and member sets agree
        inv1 += class_invariant(dofs, spp1, L1, K, allow_empty=True)
        c.check(z3.And(*inv1), 'join: representation invariant re-established')
        c.witness('join')
    return run, (dofs, spp0, L0, i1, i2)


def finalize_harness(MP, P, n, K, allow_empty):
    """finalize + numdofs on a symbolic invariant state: numbering is a gap-free bijection onto the classes"""
    dofs, spp0, L0, inv = pre_state(P, n, K)
    cap = K + 1

    def run(c):
        for q in inv + class_invariant(dofs, spp0, L0, K, allow_empty): c.assume(q)
        mp = new_mp(MP, P, n)
        mp.shared_per_patch = [SymDict({i: spp0[p][i] for i in range(n)}) for p in range(P)]
        mem = [{(p, i): (spp0[p][i] == s) for (p, i) in dofs} for s in range(cap)]
        mp.shared_dofs = SymSetList(L0, mem, cap, dofs)
        mp.finalize()
        nd = mp.numdofs
        spp1 = [[mp.shared_per_patch[p].vals[i] for i in range(n)] for p in range(P)]
        L1 = mp.shared_dofs.length if hasattr(mp.shared_dofs, 'length') else z3.IntVal(len(mp.shared_dofs))
        unshared = z3.Sum([z3.If(spp0[p][i] < 0, 1, 0) for (p, i) in dofs])
        nonempty = z3.Sum([z3.If(z3.And(s < L0, z3.Or(*[spp0[p][i] == s for (p, i) in dofs])), 1, 0) for s in range(cap)])
        c.check(lift(nd) == unshared + nonempty, 'finalize: numdofs = number of equivalence classes')
        # gap-free: every shared id < len is in use, ids in range; relation unchanged by finalize
        props = []
        for s in range(cap):
            props.append(z3.Implies(s < L1, z3.Or(*[spp1[p][i] == s for (p, i) in dofs])))
        for (p, i) in dofs:
            props += [spp1[p][i] < L1, (spp1[p][i] >= 0) == (spp0[p][i] >= 0)]
        for y, zz in itertools.combinations(dofs, 2):
            props.append(same(spp1, y, zz) == same(spp0, y, zz))
        c.check(z3.And(*props), 'finalize: shared ids are gap-free 0..len-1 and the classes are unchanged')
        c.witness('finalize')
    return run, (dofs, spp0, L0)


REPLAY = r'''
import sys, json, numpy as np
w = json.load(sys.stdin)
from pyiga import assemble, bspline
P, n = w['P'], w['n']
# real constructor; every patch is a 1D space with n functions (degree 1, n-1 spans), no geometry needed for the bookkeeping
mp = assemble.Multipatch([((bspline.make_knots(1, 0.0, 1.0, n - 1),), None) for _ in range(P)])
parent = {}
def find(x):
    parent.setdefault(x, x)
    while parent[x] != x:
        parent[x] = parent[parent[x]]; x = parent[x]
    return x
hist = w['history']
err = None
try:
    for (p1, i1, p2, i2) in hist:
        mp.join_dofs(p1, [i1], p2, [i2])
        parent[find((p1, i1))] = find((p2, i2))
    mp.finalize()
    G = [mp.patch_to_global_idx(p) for p in range(P)]
except Exception as e:
    err = '%s: %s' % (type(e).__name__, e)
bad = []
if err: bad.append('exception ' + err)
else:
    dofs = [(p, i) for p in range(P) for i in range(n)]
    glob = {d: int(G[d[0]][d[1]]) for d in dofs}
    for a in dofs:
        for b in dofs:
            if a < b and ((glob[a] == glob[b]) != (find(a) == find(b))):
                bad.append('dofs %s,%s: same global index %s, connected by joins %s' % (a, b, glob[a] == glob[b], find(a) == find(b)))
    ncls = len({find(d) for d in dofs})
    if sorted(set(glob.values())) != list(range(ncls)) or mp.numdofs != ncls:
        bad.append('numbering not a gap-free bijection onto the %d classes: numdofs=%d, indices used %s' % (ncls, mp.numdofs, sorted(set(glob.values()))))
    if not bad:
        for p in range(P):
            X = mp.patch_to_global(p).toarray()
            XG = mp.patch_to_global(p, j_global=True).toarray()
            if XG.shape != (mp.numdofs, n * P) or not np.array_equal(XG[:, n * p:n * (p + 1)], X) or XG.sum() != n:
                bad.append('patch_to_global(%d, j_global=True) is not the matrix of the patch placed in its own column block' % p)
            # X^T X = I unless the joins glue the patch to itself; in general (X^T X)[a,b] = [a ~ b]
            ref = np.array([[1.0 if find((p, a)) == find((p, b)) else 0.0 for b in range(n)] for a in range(n)])
            if not (np.isin(X, (0, 1)).all() and (X.sum(axis=0) == 1).all() and np.allclose(X.T @ X, ref)):
                bad.append('patch_to_global(%d) is not a 0/1 matrix with one entry per local dof and X^T X = [same class]' % p)
if not bad:
    # boundary data through the multipatch routine, triples interleaved (a patch comes back after another one)
    try:
        seq = [(0, (0,), None), (1, (n - 1,), None), (0, (n - 1, 0), None)] + ([(P - 1, (0,), None), (1, (0,), None)] if P > 2 else [])
        pof = lambda kvs: [q for q, (k, _) in enumerate(mp.patches) if k is kvs][0]
        assemble.compute_dirichlet_bc = lambda kvs, geo, bdspec, g: (np.array(bdspec, dtype=int), np.array([100.0 * pof(kvs) + l for l in bdspec]))
        real_combine = assemble.combine_bcs
        assemble.combine_bcs = lambda bcs: list(bcs)          # look at the per-triple pairs before duplicates are merged
        pairs = mp.compute_dirichlet_bcs(seq)
        assemble.combine_bcs = real_combine
        for (pp, loc, _), (gi, gv) in zip(seq, pairs):
            if [int(v) for v in gi] != [int(G[pp][l]) for l in loc] or [float(v) for v in gv] != [100.0 * pp + l for l in loc]:
                bad.append('Multipatch.compute_dirichlet_bcs: triple (patch %d, local dofs %s) mapped to global %s, the numbering of the patch gives %s' % (pp, list(loc), [int(v) for v in gi], [int(G[pp][l]) for l in loc]))
        idx, vals = mp.compute_dirichlet_bcs(seq)
        exp = {}
        for (pp, loc, _) in seq:
            for l in loc: exp.setdefault(int(G[pp][l]), set()).add(100.0 * pp + l)
        if sorted(int(i) for i in idx) != sorted(exp) or any(float(v) not in exp[int(i)] for i, v in zip(idx, vals)):
            bad.append('Multipatch.compute_dirichlet_bcs(%s): indices %s values %s, expected %s' % ([(a, b) for a, b, _ in seq], list(map(int, idx)), list(map(float, vals)), {k: sorted(v) for k, v in exp.items()}))
    except Exception as e:
        bad.append('exception in compute_dirichlet_bcs %s: %s' % (type(e).__name__, e))
print(json.dumps({'reproduced': bool(bad), 'bad': bad[:5]}))
'''


# ------------------------------------------------------------------------------------------------ numbering after finalize
def _ix(idx):
    if isinstance(idx, np.ndarray) and idx.dtype == object:
        return np.array([int(v) if not isinstance(v, Sym) else v.__index__() for v in idx.ravel()], dtype=int).reshape(idx.shape)
    if isinstance(idx, tuple): return tuple(_ix(i) for i in idx)
    if isinstance(idx, Sym): return idx.__index__()
    return idx


class IdxArr(np.ndarray):
    """object array whose index arguments may be object arrays of (concrete or solver) integers"""
    def __getitem__(self, idx): return np.ndarray.__getitem__(self, _ix(idx))
    def __setitem__(self, idx, v): np.ndarray.__setitem__(self, _ix(idx), v)


class NumNP(SymNP):
    def arange(self, *a, **k):
        return np.arange(*[int(x) if not isinstance(x, Sym) else x.__index__() for x in a]).astype(object).view(IdxArr)
    def array(self, x, dtype=None, **k):
        r = SymNP.array(self, x, dtype, **k)
        return r.view(IdxArr) if r.dtype == object else r
    def setdiff1d(self, a, b, assume_unique=False):
        bb = {int(v) for v in np.asarray(b).ravel()}
        return np.array([int(v) for v in np.asarray(a).ravel() if int(v) not in bb], dtype=int)


def load_numbering(enc=None, transform=None):
    ns = {'np': NumNP(), 'scipy': _NS(sparse=sparse_facade()), 'bspline': _NS(numdofs=lambda kvs: kvs[2]), 'boundary_dofs': None}
    srcload.load_defs('pyiga/assemble.py', ['Multipatch'], ns, encoded=enc, transform=transform)
    return ns


def numbering_harness(ns, P, n, K):
    """finalize, then the numbering queries, on a symbolic invariant state (which dofs are shared is decided by forking, the class ids
    stay symbolic): patch_to_global_idx separates exactly the classes, patch_to_global (both column layouts) is the 0/1 matrix of that
    numbering, and Multipatch.compute_dirichlet_bcs maps the local boundary dofs of every (patch, face) triple -- in any order of the
    triples, a patch may come back after another one -- through the numbering of ITS patch."""
    MP = ns['Multipatch']
    dofs, spp0, L0, inv = pre_state(P, n, K)
    cap = K + 1

    def run(c):
        for q in inv + class_invariant(dofs, spp0, L0, K, False): c.assume(q)
        mp = new_mp(MP, P, n)
        mp.shared_per_patch = [SymDict({i: spp0[p][i] for i in range(n)}) for p in range(P)]
        mem = [{(p, i): (spp0[p][i] == s) for (p, i) in dofs} for s in range(cap)]
        mp.shared_dofs = SymSetList(L0, mem, cap, dofs)
        mp.finalize()
        nd = mp.numdofs
        G = [mp.patch_to_global_idx(p) for p in range(P)]
        props = []
        for (p, i) in dofs: props.append(z3.And(lift(G[p][i]) >= 0, lift(G[p][i]) < lift(nd)))
        for y, zz in itertools.combinations(dofs, 2):
            props.append((lift(G[y[0]][y[1]]) == lift(G[zz[0]][zz[1]])) == same(spp0, y, zz))
        c.check(z3.And(*props), 'patch_to_global_idx: indices in range, equal exactly for joined dofs')
        ndv = Sym(lift(nd)).__index__() if isinstance(nd, Sym) else int(nd)
        for jg in (False, True):
            for p in range(P):
                X = mp.patch_to_global(p, j_global=jg).toarray()
                ncol = n * P if jg else n
                if X.shape != (ndv, ncol):
                    c.check(z3.BoolVal(False), 'patch_to_global(p, j_global=%s): shape' % jg); continue
                ok = []
                for r in range(ndv):
                    for col in range(ncol):
                        i = col - (n * p if jg else 0)
                        want = z3.If(lift(G[p][i]) == r, z3.RealVal(1), z3.RealVal(0)) if 0 <= i < n else z3.RealVal(0)
                        ok.append(sx._toreal(lift(X[r, col])) == want)
                c.check(z3.And(*ok), 'patch_to_global(p, j_global=%s): entry (g, column of local dof i) = [g is the global index of i], nothing else' % jg)
        # boundary data: the per-face routine is a stub returning fixed local dofs with symbolic values; combine_bcs is the identity
        g = MP.compute_dirichlet_bcs.__globals__
        calls = []
        def bc_stub(kvs, geo, bdspec, gfun):
            loc = np.array(bdspec, dtype=int)
            vals = np.array([Sym(z3.Real('v_%d_%d' % (len(calls), k))) for k in range(len(loc))] + [None], dtype=object)[:-1]
            calls.append((kvs[1], loc, vals)); return (loc, vals)
        old = (g.get('compute_dirichlet_bc'), g.get('combine_bcs'))
        g['compute_dirichlet_bc'] = bc_stub; g['combine_bcs'] = lambda bcs: list(bcs)
        try:
            seq = [(0, (0,), None), (1, (n - 1,), None), (0, (n - 1, 0), None)] + ([(P - 1, (0,), None), (1, (0,), None)] if P > 2 else [])
            out = mp.compute_dirichlet_bcs(seq)
        finally:
            g['compute_dirichlet_bc'], g['combine_bcs'] = old
        ok = [z3.BoolVal(len(out) == len(seq))]
        for (pp, loc, vals), (gi, gv) in zip(calls, out):
            for k, l in enumerate(loc):
                ok.append(lift(np.asarray(gi, dtype=object).ravel()[k]) == lift(G[pp][int(l)]))
                ok.append(lift(np.asarray(gv, dtype=object).ravel()[k]) == lift(vals[k]))
        c.check(z3.And(*ok), 'Multipatch.compute_dirichlet_bcs: every (patch, face) triple is mapped through the numbering of its own patch, values kept')
        c.witness('numbering')
    return run, (dofs, spp0, L0)


def history_for(model, dofs, spp0, L0, K, P, n):
    """concrete join history that builds the classes of the pre-state (chain joins across different patches)"""
    cls = {}
    for (p, i) in dofs:
        s = int(sx.model_value(model, spp0[p][i]))
        if s >= 0: cls.setdefault(s, []).append((p, i))
    hist = []
    for s in sorted(cls):
        mem = cls[s]
        done = [mem[0]]
        rest = mem[1:]
        progress = True
        while rest and progress:
            progress = False
            for x in list(rest):
                y = next((y for y in done if y[0] != x[0]), None)
                if y is not None:
                    hist.append((y[0], y[1], x[0], x[1])); done.append(x); rest.remove(x); progress = True
        if rest:
            return None      # pre-state unreachable (all remaining members in one patch)
    return hist


# ------------------------------------------------------------------------------------------------ automatic interface detection
class MatchNP:
    """numpy facade for _check_geo_match: linspace/flip as usual, allclose on symbolic arrays = entrywise equality (a solver term whose
    truth value forks the path)"""
    def __getattr__(self, name): return getattr(np, name)
    def allclose(self, a, b, **kw):
        a = np.asarray(a, dtype=object) if not (isinstance(a, np.ndarray) and a.dtype != object) else a
        b = np.asarray(b, dtype=object) if not (isinstance(b, np.ndarray) and b.dtype != object) else b
        if getattr(a, 'dtype', None) == object or getattr(b, 'dtype', None) == object:
            if np.shape(a) != np.shape(b): return False
            return sx.SymB(sx.eq_arrays(a, b))
        return np.allclose(a, b, **kw)


def load_match(enc=None, transform=None):
    ns = {'np': MatchNP(), 'itertools': itertools}
    srcload.load_defs('pyiga/assemble.py', ['_check_geo_match', '_find_matching_boundaries'], ns, encoded=enc, transform=transform)
    return ns


class FaceMap:
    """a (d-1)-dimensional face map  x -> label + sum_k s_k * y_k  componentwise injective in the coordinates, where y = x with the axes
    listed in `flips` (solver Booleans) reversed inside the support: two face maps coincide under exactly the flip that undoes the difference"""
    def __init__(self, sdim, label, scales, flips, dim=3):
        self.sdim = sdim; self.dim = dim; self.support = tuple((0.0, 1.0) for _ in range(sdim))
        self.label = label; self.scales = scales; self.flips = flips
    def grid_eval(self, grid):
        N = tuple(len(g) for g in grid)
        out = np.empty(N + (self.dim,), dtype=object)
        for idx in np.ndindex(*N):
            for k in range(self.dim):
                v = self.label if k == self.dim - 1 else 0
                if k < self.sdim:
                    # grid coordinates are snapped to the small rational they round (linspace(0,1,4) reversed is not bit-identical to 1 - linspace;
                    # np.allclose absorbs that, exact solver arithmetic would not)
                    from fractions import Fraction
                    x = Fraction(float(grid[k][idx[k]])).limit_denominator(64)
                    xr = 1 - x
                    y = Sym(z3.If(self.flips[k], sx._toreal(lift(xr)), sx._toreal(lift(x)))) if not isinstance(self.flips[k], bool) else (xr if self.flips[k] else x)
                    v = v + self.scales[k] * y
                out[idx + (k,)] = v
        return out


def geo_match_harness(ns, sdim):
    """_check_geo_match(G1, G2): for EVERY true flip t (solver Booleans) between two otherwise identical injective face maps the routine reports a match
    with exactly that flip; maps with different labels never match"""
    def run(c):
        t = [z3.Bool('t%d' % k) for k in range(sdim)]
        sc = [Sym(z3.Real('s%d' % k)) for k in range(sdim)]
        for s_ in sc: c.assume(s_.t != 0)
        L = Sym(z3.Real('L'))
        G1 = FaceMap(sdim, L, sc, [False] * sdim); G2 = FaceMap(sdim, L, sc, t)
        ok, flip = ns['_check_geo_match'](G1, G2)
        if not ok:
            c.check(z3.BoolVal(False), '_check_geo_match: coinciding faces are detected for every orientation')
        else:
            c.check(z3.And(*[z3.BoolVal(bool(flip[k])) == t[k] for k in range(sdim)]), '_check_geo_match: the reported flip is the orientation difference of the two faces')
        L2 = Sym(z3.Real('L2')); c.assume(L2.t != L.t)
        ok2, _ = ns['_check_geo_match'](G1, FaceMap(sdim, L2, sc, t))
        c.check(z3.BoolVal(not ok2), '_check_geo_match: different faces do not match')
        c.witness('geo match')
    return run


def find_boundaries_harness(ns, sdim, shared):
    """_find_matching_boundaries(G1, G2): the faces of two patches carry labels; `shared` lists the face pairs that coincide (with symbolic flips).
    The routine must return exactly those pairs -- all of them -- with the right flips."""
    def run(c):
        faces = list(itertools.product(range(sdim), (0, 1)))
        sc = [Sym(z3.Real('s%d' % k)) for k in range(sdim - 1)]
        for s_ in sc: c.assume(s_.t != 0)
        lab1 = {f: Sym(z3.Real('a_%d_%d' % f)) for f in faces}; lab2 = {f: Sym(z3.Real('b_%d_%d' % f)) for f in faces}
        flips = {}
        alll = list(lab1.values()) + list(lab2.values())
        pairs = set()
        for (f1, f2) in shared:
            c.assume(lab1[f1].t == lab2[f2].t); pairs.add((f1, f2))
            flips[(f1, f2)] = [z3.Bool('t_%d%d_%d%d_%d' % (f1 + f2 + (k,))) for k in range(sdim - 1)]
        for f1 in faces:
            for f2 in faces:
                if (f1, f2) not in pairs: c.assume(lab1[f1].t != lab2[f2].t)
        class Patch:
            def __init__(self, lab, second): self.sdim = sdim; self.dim = 3; self.lab = lab; self.second = second
            def boundary(self, bdspec):
                f = tuple(bdspec)
                fl = [False] * (sdim - 1)
                if self.second:
                    for (f1, f2), tt in flips.items():
                        if f2 == f: fl = tt
                return FaceMap(sdim - 1, self.lab[f], sc, fl)
        res = ns['_find_matching_boundaries'](Patch(lab1, False), Patch(lab2, True))
        got = {(tuple(a), tuple(b)): fl for (a, b, fl) in res}
        ok = [z3.BoolVal(set(got) == pairs and len(res) == len(pairs))]
        for pr in pairs:
            if pr in got:
                ok += [z3.BoolVal(bool(got[pr][k])) == flips[pr][k] for k in range(sdim - 1)]
        c.check(z3.And(*ok), '_find_matching_boundaries: exactly the coinciding face pairs, each with its flip (%d shared faces)' % len(pairs))
        c.witness('find boundaries')
    return run


REPLAY_IFACE = r"""
import sys, json, itertools, numpy as np
w = json.load(sys.stdin)
from pyiga import assemble, geometry, bspline
bad = []
# two stacked unit cubes, the second mirrored in every combination of the tangential directions, for all three stacking axes
for axis in range(3):
    for mir in itertools.product((False, True), repeat=2):
        g1 = geometry.unit_cube()
        C = geometry.unit_cube().coeffs.copy()
        tang = [a for a in range(3) if a != axis]
        for a, m in zip(tang, mir):
            if m: C = np.flip(C, axis=a)
        off = np.zeros(3); off[2 - axis] = 1.0
        g2 = bspline.BSplineFunc(g1.kvs, C).translate(off)
        conn, ifaces = assemble.detect_interfaces([(g1.kvs, g1), (g2.kvs, g2)])
        exp_flip = tuple(bool(m) for m in mir)
        ok = conn and len(ifaces) == 1 and tuple(ifaces[0][1]) == (axis, 1) and tuple(ifaces[0][3]) == (axis, 0) and tuple(bool(x) for x in ifaces[0][4]) == exp_flip
        if not ok: bad.append('stacking axis %d, mirrored %s: detected %s' % (axis, mir, ifaces))
# a ring of two half annuli shares TWO faces
ann = geometry.quarter_annulus()
half1 = geometry.tensor_product if False else None
qa = [geometry.quarter_annulus().rotate_2d(k * np.pi / 2) for k in range(4)]
conn, ifaces = assemble.detect_interfaces([(g.kvs, g) for g in qa])
if not conn or len(ifaces) != 4: bad.append('ring of four quarter annuli: %d interfaces' % len(ifaces))
# two half annuli form a closed ring: the two patches share TWO faces
upper = geometry.outer_product(geometry.line_segment(1.0, 2.0), geometry.semicircle()); lower = upper.rotate_2d(np.pi)
for order in ((upper, lower), (lower, upper)):
    conn, ifaces = assemble.detect_interfaces([(g.kvs, g) for g in order])
    found = sorted((p1, tuple(b1), p2, tuple(b2), tuple(bool(x) for x in f)) for (p1, b1, p2, b2, f) in ifaces)
    if not conn or found != [(0, (1, 0), 1, (1, 1), (False,)), (0, (1, 1), 1, (1, 0), (False,))]: bad.append('two half annuli: detected %s' % found)
print(json.dumps({'reproduced': bool(bad), 'bad': bad[:6]}))
"""


def main():
    run = Run(PID, level='other', description='Inductive step of Multipatch.join_dofs/finalize on a symbolic pre-state.')
    thorough = run.tier == 'thorough'
    enc = srcload.Encoded()
    MP = load_code(enc)
    run.add_encoded(enc)
    src = srcload.read('pyiga/assemble.py')
    run.stubs += ['shared_per_patch -> SymDict (ite chains over the key domain, -1 = absent)', 'shared_dofs -> SymSetList (symbolic length and membership)']
    run.assumptions += ['representation invariant: dict and member sets agree; every class has members from >= 2 patches (or is empty: '
                        'classes emptied by merging are compacted by finalize); class ids < len(shared_dofs)',
                        'single-pair joins: join_dofs over index arrays is the sequence of its pairs (the loop is executed for one pair)']
    run.out_of_scope += ['detect_interfaces (floating-point geometry comparison)', 'assemble_system vs undivided domain (numeric assembly)',
                         'join_boundaries flips: see C10 slice_indices/boundary_dofs']
    cfgs = [(3, 2, 2)] + ([(4, 2, 2)] if thorough else [])          # ((3,2,3) and (3,3,2) did not finish within 40 min in the end-to-end run)
    run.bounds = {'patches': '3 (quick) / 4', 'local dofs per patch': '2 (3 thorough)', 'pre-existing classes': '<= 2 (3 thorough)', 'join': 'any ordered patch pair, any dof pair'}
    for (P, n, K) in cfgs:
        pairs = list(itertools.permutations(range(P), 2))
        if not thorough: pairs = pairs[:4]
        for (p1, p2) in pairs:
            h, (dofs, spp0, L0, i1, i2) = join_harness(MP, P, n, K, p1, p2, allow_empty=True)
            st = sx.explore(h, timeout_ms=60000, max_paths=20000)
            bound = {'P': P, 'n': n, 'K': K, 'p1': p1, 'p2': p2}
            run.absorb(st, 'join-step', bound=bound, sample={'obligation': 'join inductive step', **bound})
            for cex in st.cex:
                m = cex['model']
                hist = history_for(m, dofs, spp0, L0, K, P, n)
                if hist is None:
                    run.inconclusive_msg('counterexample from an unreachable pre-state: strengthen the invariant (%s)' % jsonable(sx.model_dict(m)))
                    continue
                a, b = int(sx.model_value(m, i1)), int(sx.model_value(m, i2))
                hist.append((p1, a, p2, b))
                w = {'P': P, 'n': n, 'history': hist}
                r = realbuild.run_real(REPLAY, w, only=[])
                run.report('join_dofs:%s' % cex['name'].split(':')[0], 'join history %s on %d patches x %d dofs: %s' % (hist, P, n, r['bad']), w, r['reproduced'])
                break
        h, _ = finalize_harness(MP, P, n, K, allow_empty=True)
        st = sx.explore(h, timeout_ms=60000, max_paths=50000)
        run.absorb(st, 'finalize', bound={'P': P, 'n': n, 'K': K}, sample={'obligation': 'finalize numbering', 'P': P, 'n': n, 'K': K})
        for cex in st.cex:
            m = cex['model']
            run.inconclusive_msg('finalize obligation failed on pre-state %s (%s)' % (jsonable(sx.model_dict(m)), cex['name'])) \
                if history_for(m, *_[0:1], *_[1:3], K, P, n) is None else None
            dofs, spp0, L0 = _
            hist = history_for(m, dofs, spp0, L0, K, P, n)
            if hist is not None:
                w = {'P': P, 'n': n, 'history': hist}
                r = realbuild.run_real(REPLAY, w, only=[])
                if r['reproduced']:
                    run.report('finalize:numbering', 'after joins %s: %s' % (hist, r['bad']), w, True)
                else:
                    # empty classes in the pre-state can only arise through a merging join_dofs; not reachable with this history
                    run.inconclusive_msg('finalize counterexample (%s) needs a pre-state with emptied classes that the generated history does not produce' % cex['name'])
            break
    if run.want('numbering'):
        enc3 = srcload.Encoded(); nns = load_numbering(enc3); run.add_encoded(enc3)
        for (P, n, K) in [(2, 2, 1), (3, 2, 2)] + ([(2, 3, 2)] if thorough else []):
            h, (dofs, spp0, L0) = numbering_harness(nns, P, n, K)
            st = sx.explore(h, timeout_ms=60000, max_paths=20000)
            bound = {'P': P, 'n': n, 'K': K}
            run.absorb(st, 'numbering', bound=bound, sample={'obligation': 'numbering queries after finalize', **bound})
            for cex in st.cex:
                hist = history_for(cex['model'], dofs, spp0, L0, K, P, n)
                if hist is None:
                    run.inconclusive_msg('numbering counterexample from an unreachable pre-state (%s)' % cex['name']); continue
                w = {'P': P, 'n': n, 'history': hist}
                r = realbuild.run_real(REPLAY, w, only=[])
                run.report('numbering:%s' % cex['name'].split(':')[0].split('(')[0], 'after joins %s on %d patches x %d dofs: %s; real: %s' % (hist, P, n, cex['name'], r['bad']), w, r['reproduced'])
    if not run.args.no_canaries:
        def canary(name, pat, rep):
            if pat not in src:
                run.canary(name, False, skipped=True); return
            MP2 = load_code(transform=lambda s: s.replace(pat, rep, 1))
            det = False
            for (p1, p2) in [(0, 1), (1, 2)]:
                h, _ = join_harness(MP2, 3, 2, 2, p1, p2, allow_empty=True)
                st = sx.explore(h, timeout_ms=30000)
                det = det or bool(st.cex)
            run.canary(name, det)
        canary('second branch adds to wrong patch', "                sd = self.shared_per_patch[p2][i2]\n                add_to_shared(sd, p1, i1)", "                sd = self.shared_per_patch[p2][i2]\n                add_to_shared(sd, p1, i2)")
        canary('new shared dof not registered for p2', "                add_to_shared(sd, p1, i1)\n                add_to_shared(sd, p2, i2)", "                add_to_shared(sd, p1, i1)")
    if run.want('interfaces'):
        enc3 = srcload.Encoded(); mns = load_match(enc3); run.add_encoded(enc3)
        run.stubs += ['interface detection: faces are stub maps  x -> label + s.x  (symbolic injective scales, symbolic labels, symbolic orientation flips); np.allclose on symbolic arrays = entrywise equality (forks the path)']
        def do_iface(group, h, bound):
            st = sx.explore(h, timeout_ms=60000, stop_at_first=False, max_paths=4000)
            run.absorb(st, group, bound=bound, sample={'obligation': group, **bound})
            if st.cex:
                r = realbuild.run_real(REPLAY_IFACE, {}, only=[])
                run.report('interfaces:%s' % group, '%s %s: solver: %s; real detect_interfaces: %s' % (group, bound, sorted({cx['name'] for cx in st.cex})[:3], r['bad'][:4]), {'kind': 'interfaces'}, r['reproduced'])
        for sd in (1, 2):
            do_iface('_check_geo_match', geo_match_harness(mns, sd), {'face dimension': sd, 'flips': 'all (symbolic)'})
        for sdim, shared in [(2, [((1, 1), (1, 0))]), (2, [((0, 1), (0, 0)), ((0, 0), (0, 1))]), (3, [((2, 1), (2, 0))]), (3, [((0, 1), (1, 0))]), (2, [])]:
            do_iface('_find_matching_boundaries', find_boundaries_harness(mns, sdim, shared), {'patch dimension': sdim, 'shared faces': [list(map(list, pr)) for pr in shared]})
    run.finish()


def replay_file(path):
    w = json.load(open(path))['witness']
    if w.get('kind') == 'interfaces':
        r = realbuild.run_real(REPLAY_IFACE, {}, only=[]); print(json.dumps(r)); print('REPRODUCED' if r['reproduced'] else 'NOT-REPRODUCED'); sys.exit(1 if r['reproduced'] else 0)
    r = realbuild.run_real(REPLAY, w, only=[])
    print(json.dumps(r)); print('REPRODUCED' if r['reproduced'] else 'NOT-REPRODUCED')
    sys.exit(1 if r['reproduced'] else 0)


if __name__ == '__main__':
    if '--replay' in sys.argv:
        replay_file(sys.argv[sys.argv.index('--replay') + 1])
    main_wrapper(main)
