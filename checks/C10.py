"""C10 -- eliminating Dirichlet dofs is algebraically exact for any index set.

Encoded (pyiga/assemble.py, exec'd from source): RestrictedLinearSystem (__init__, restrict,
restrict_rhs, restrict_matrix, extend, complete), slice_indices, boundary_dofs, boundary_cells,
combine_bcs; pyiga/bspline.py: _parse_bdspec.   scipy.sparse -> symsparse (dense object model).
A, b, the prescribed values and the free solution are symbolic reals; the constrained index
sequence is a symbolic injective sequence WITHOUT ordering assumption (entries concretised by
forking over all feasible values, i.e. exhaustively within the bound).
"""
import itertools, json, sys
import numpy as np
import z3

from checks.common import Run, main_wrapper, jsonable
from checks import realbuild
from symx import core as sx
from symx.core import Sym, lift
from symx.symnp import SymNP
from symx.symsparse import sparse_facade, SpMat
from symx import srcload

PID = 'C10'


class _NS:
    def __init__(self, **kw): self.__dict__.update(kw)


def load_code(enc=None, transform=None):
    sc = _NS(sparse=sparse_facade())
    bns = {}
    srcload.load_defs('pyiga/bspline.py', ['_parse_bdspec'], bns, encoded=enc)
    ns = {'np': SymNP(ints_object=False), 'scipy': sc, 'itertools': itertools, 'bspline': _NS(**bns)}
    srcload.load_defs('pyiga/assemble.py', ['RestrictedLinearSystem', 'slice_indices', 'boundary_dofs', 'boundary_cells', 'combine_bcs'],
                      ns, encoded=enc, transform=transform)
    return ns


def rls_harness(ns, n, m, k, sparse_A, scalar_values, scalar_b, elim_rows_k=None):
    """A is n x m (n rows/equations, m dofs); k constrained dofs"""
    idxz = [z3.Int('ix%d' % j) for j in range(k)]
    erz = [z3.Int('er%d' % j) for j in range(elim_rows_k)] if elim_rows_k is not None else None

    def run(c):
        for i in idxz: c.assume(z3.And(i >= 0, i < m))
        if k > 1: c.assume(z3.Distinct(*idxz))
        if erz is not None:
            for i in erz: c.assume(z3.And(i >= 0, i < n))
            if len(erz) > 1: c.assume(z3.Distinct(*erz))
        A = sx.symarray('a', (n, m)); b = sx.symarray('b', (n,)); vals = sx.symarray('v', (k,))
        ind = np.array([Sym(i).__index__() for i in idxz], dtype=int)
        er = [Sym(i).__index__() for i in erz] if erz is not None else None
        Ain = SpMat(A) if sparse_A else A
        values_in = Sym(z3.Real('vs')) if scalar_values else vals
        b_in = Sym(z3.Real('bs')) if scalar_b else b
        if scalar_values: vals = np.array([values_in] * k, dtype=object)
        if scalar_b: b = np.array([b_in] * n, dtype=object)
        L = ns['RestrictedLinearSystem'](Ain, b_in, (ind, values_in), elim_rows=er)
        nfree = m - k
        uf = sx.symarray('u', (nfree,))
        u = np.asarray(L.complete(uf), dtype=object).ravel()
        elim = set(er) if er is not None else set(ind.tolist())
        # (1) prescribed values
        c.check(z3.And(*[lift(u[int(ind[j])]) == lift(vals[j]) for j in range(k)]) if k else z3.BoolVal(True),
                'completed solution takes the prescribed value at each constrained dof')
        # (2) solving the restricted system solves every non-eliminated equation
        Ar = L.A.toarray() if hasattr(L.A, 'toarray') else np.asarray(L.A, dtype=object)
        br = np.asarray(L.b, dtype=object).ravel()
        nrow = n - len(elim)
        if Ar.shape != (nrow, nfree) or br.shape != (nrow,):
            c.check(z3.BoolVal(False), 'restricted system has the wrong shape %s %s' % (Ar.shape, br.shape)); return
        assume = z3.And(*[lift(Ar[i].dot(uf)) == lift(br[i]) for i in range(nrow)]) if nrow and nfree else z3.BoolVal(True)
        if nfree == 0 and nrow:
            assume = z3.And(*[lift(br[i]) == 0 for i in range(nrow)])
        res = A.dot(u) - b
        concl = [lift(res[r]) == 0 for r in range(n) if r not in elim]
        c.check(z3.Implies(assume, z3.And(*concl) if concl else z3.BoolVal(True)), 'restricted solution satisfies all non-eliminated equations')
        # (3) consistency of restrict / extend / restrict_matrix / restrict_rhs
        w = sx.symarray('w', (m,))
        rw = np.asarray(L.restrict(w), dtype=object).ravel()
        free = [j for j in range(m) if j not in set(ind.tolist())]
        c.check(z3.And(*[lift(rw[t]) == lift(w[j]) for t, j in enumerate(free)]) if free else z3.BoolVal(True), 'restrict selects the free dofs in increasing order')
        ext = np.asarray(L.extend(uf), dtype=object).ravel()
        c.check(z3.And(*[lift(ext[j]) == (lift(uf[free.index(j)]) if j in free else 0) for j in range(m)]), 'extend pads with zeros')
        c.check(sx.eq_arrays(np.asarray(L.restrict(L.extend(uf)), dtype=object).ravel(), uf), 'restrict(extend(u)) = u')
        Bm = sx.symarray('B', (n, m))
        rB = L.restrict_matrix(Bm if not sparse_A else SpMat(Bm))
        rB = rB.toarray() if hasattr(rB, 'toarray') else np.asarray(rB, dtype=object)
        rows = [r for r in range(n) if r not in elim]
        c.check(z3.And(*[lift(rB[a, t]) == lift(Bm[r, j]) for a, r in enumerate(rows) for t, j in enumerate(free)]) if rows and free else z3.BoolVal(True),
                'restrict_matrix = (non-eliminated rows) x (free dofs)')
        f = sx.symarray('f', (n,))
        rf = np.asarray(L.restrict_rhs(f), dtype=object).ravel()
        c.check(z3.And(*[lift(rf[a]) == lift(f[r]) for a, r in enumerate(rows)]) if rows else z3.BoolVal(True), 'restrict_rhs selects the non-eliminated rows')
        c.witness('rls')
    return run, idxz, erz


REPLAY_RLS = r'''
import sys, json, numpy as np, scipy.sparse
w = json.load(sys.stdin)
from pyiga import assemble
rng = np.random.RandomState(3)
n, m = w['n'], w['m']; ind = np.array(w['indices'], dtype=int); k = len(ind)
A = rng.rand(n, m) + (np.eye(n, m) * 3); b = rng.rand(n)
vals = 10.0 * (1 + np.arange(k)) if not w['scalar_values'] else 7.0
er = w.get('elim_rows')
Ain = scipy.sparse.csr_matrix(A) if w['sparse'] else A
bad = []
try:
    L = assemble.RestrictedLinearSystem(Ain, (0.25 if w['scalar_b'] else b), (ind, vals), elim_rows=er)
    if w['scalar_b']: b = np.full(n, 0.25)
    Ar = L.A.toarray() if scipy.sparse.issparse(L.A) else np.asarray(L.A)
    if Ar.shape[0] == Ar.shape[1] and Ar.shape[0] > 0:
        uf = np.linalg.solve(Ar, np.asarray(L.b).ravel())
    else:
        uf = np.linalg.lstsq(Ar, np.asarray(L.b).ravel(), rcond=None)[0] if Ar.size else np.zeros(Ar.shape[1])
    u = np.asarray(L.complete(uf)).ravel()
    V = np.full(k, vals) if np.isscalar(vals) else vals
    for j in range(k):
        if abs(u[ind[j]] - V[j]) > 1e-9: bad.append('u[%d] = %r, prescribed %r' % (ind[j], float(u[ind[j]]), float(V[j])))
    if Ar.shape[0] == Ar.shape[1]:
        res = A.dot(u) - b
        elim = set(er) if er is not None else set(ind.tolist())
        for r in range(n):
            if r not in elim and abs(res[r]) > 1e-8: bad.append('equation %d residual %g' % (r, res[r]))
except Exception as e:
    bad.append('exception %s: %s' % (type(e).__name__, e))
print(json.dumps({'reproduced': bool(bad), 'bad': bad[:6]}))
'''


def slice_harness(ns, dim):
    shp = [z3.Int('n%d' % i) for i in range(dim)]
    ax, idx = z3.Int('ax'), z3.Int('idx')
    flips = [z3.Bool('fl%d' % i) for i in range(dim - 1)]
    useflip = z3.Bool('useflip'); rav = z3.Bool('ravel')

    def run(c):
        for s in shp: c.assume(z3.And(s >= 1, s <= 3))
        c.assume(z3.And(ax >= 0, ax < dim))
        shape = [Sym(s).__index__() for s in shp]
        a = Sym(ax).__index__()
        c.assume(z3.And(idx >= -shape[a], idx < shape[a]))
        i = Sym(idx).__index__()
        uf = bool(sx.SymB(useflip)); rv = bool(sx.SymB(rav))
        fl = tuple(bool(sx.SymB(f)) for f in flips) if uf else None
        res = ns['slice_indices'](a, i, tuple(shape), ravel=rv, flip=fl)
        # oracle
        ii = i % shape[a]
        axes = []
        full_flip = (fl[:a] + (False,) + fl[a:]) if fl is not None else (False,) * dim
        for d in range(dim):
            if d == a: axes.append([ii])
            else: axes.append(list(range(shape[d]))[::-1] if full_flip[d] else list(range(shape[d])))
        exp = list(itertools.product(*axes))
        if rv:
            exp = [int(np.ravel_multi_index(t, shape)) for t in exp]
            got = [int(x) for x in res]
        else:
            got = [tuple(int(x) for x in r) for r in res]
        c.check(z3.BoolVal(got == exp), 'slice_indices = fixed coordinate, each multi-index once, lexicographic with flips')
    return run


def bdspec_harness(ns, dim):
    """boundary_dofs / _parse_bdspec: names <-> (axis, side)"""
    names = {'left': (dim - 1, 0), 'right': (dim - 1, 1), 'bottom': (dim - 2, 0), 'top': (dim - 2, 1), 'front': (dim - 3, 0), 'back': (dim - 3, 1)}

    class KVs:
        def __init__(self, n): self.numdofs = n; self.numspans = n - 1
    sel = z3.Int('sel')
    shp = [z3.Int('n%d' % i) for i in range(dim)]

    def run(c):
        for s in shp: c.assume(z3.And(s >= 2, s <= 3))
        shape = [Sym(s).__index__() for s in shp]
        c.assume(z3.And(sel >= 0, sel < 6 + 2 * dim))
        q = Sym(sel).__index__()
        kvs = [KVs(n) for n in shape]
        if q < 6:
            name = list(names)[q]; axs, side = names[name]
            try:
                got = ns['boundary_dofs'](kvs, name, ravel=True)
            except ValueError:
                c.check(z3.BoolVal(not (0 <= axs < dim)), 'named bdspec rejected only when its axis does not exist'); return
            if not (0 <= axs < dim):
                c.check(z3.BoolVal(False), 'named bdspec %s accepted for dim %d' % (name, dim)); return
        else:
            axs, side = divmod(q - 6, 2)
            got = ns['boundary_dofs'](kvs, (axs, side), ravel=True)
        exp = [int(np.ravel_multi_index(t, shape)) for t in itertools.product(*[range(n) for n in shape]) if t[axs] == (0 if side == 0 else shape[axs] - 1)]
        c.check(z3.BoolVal([int(x) for x in got] == exp), 'boundary_dofs = all dofs on the face, once, lexicographic')
        cells = ns['boundary_cells'](kvs, (axs, side), ravel=True)
        cs = [n - 1 for n in shape]
        expc = [int(np.ravel_multi_index(t, cs)) for t in itertools.product(*[range(n) for n in cs]) if t[axs] == (0 if side == 0 else cs[axs] - 1)]
        c.check(z3.BoolVal([int(x) for x in cells] == expc), 'boundary_cells = all cells on the face')
    return run


def combine_harness(ns):
    n1, n2 = 2, 2
    iz = [z3.Int('ci%d' % j) for j in range(n1 + n2)]

    def run(c):
        for i in iz: c.assume(z3.And(i >= 0, i < 3))
        c.assume(iz[0] != iz[1]); c.assume(iz[2] != iz[3])
        ind = [Sym(i).__index__() for i in iz]
        v = sx.symarray('cv', (n1 + n2,))
        I, Vv = ns['combine_bcs']([(np.array(ind[:n1]), v[:n1]), (np.array(ind[n1:]), v[n1:])])
        I = [int(x) for x in I]
        ok = (sorted(set(ind)) == I)
        props = [z3.BoolVal(ok)]
        for pos, dof in enumerate(I):
            cands = [lift(v[t]) for t in range(n1 + n2) if ind[t] == dof]
            props.append(z3.Or(*[lift(Vv[pos]) == cnd for cnd in cands]))
        c.check(z3.And(*props), 'combine_bcs keeps one of the supplied values per dof, each dof once')
    return run


# ------------------------------------------------------------------------------------------------ space-time initial conditions
def load_dirichlet(enc=None, transform=None):
    """compute_dirichlet_bc from source; approx.interpolate -> a symbolic coefficient array of the documented shape
    (face dofs [+ components]); NaN filtering -> nothing is NaN"""
    import sys, types
    bns = {}
    srcload.load_defs('pyiga/bspline.py', ['_parse_bdspec'], bns, encoded=enc)
    class NP(SymNP):
        def isnan(self, a): return np.zeros(np.shape(a), dtype=bool)
        def isscalar(self, x): return isinstance(x, (int, float)) or SymNP.isscalar(self, x)
    pkg = 'symasmD%d' % id(bns)
    ns = {'np': NP(ints_object=False), 'itertools': itertools, 'bspline': _NS(**bns), '__package__': pkg, '__name__': pkg + '.assemble'}
    srcload.load_defs('pyiga/assemble.py', ['slice_indices', 'combine_bcs', '_drop_nans', 'compute_dirichlet_bc'], ns, encoded=enc, transform=transform)
    state = {}
    def interpolate(kvs, f, geo=None):
        shape = tuple(kv.numdofs for kv in kvs) + tuple(state['comp'])
        a = np.empty(shape, dtype=object)
        for I in np.ndindex(*shape): a[I] = Sym(z3.Real('d_' + '_'.join(map(str, I))))
        state['coeffs'] = a
        return a
    pm = types.ModuleType(pkg); pm.__path__ = []
    am = types.ModuleType(pkg + '.approx'); am.interpolate = interpolate
    sys.modules[pkg] = pm; sys.modules[pkg + '.approx'] = am
    ns['_state'] = state
    return ns


def dirichlet_bc_harness(ns, N, numcomp):
    """for every face: the returned (index, value) pairs say: the dof with tensor index `face position + component block` gets the
    interpolation coefficient of THAT face position and component (blocked numbering j * prod(N) + raveled index)"""
    dim = len(N)
    def run(c):
        class KVs:
            def __init__(self, n): self.numdofs = n
        kvs = tuple(KVs(n) for n in N)
        class Geo:
            sdim = dim
            def boundary(self, bdspec): return 'bdgeo'
        st = ns['_state']; st['comp'] = (numcomp,) if numcomp else ()
        NN = int(np.prod(N))
        for bdax in range(dim):
            for side in (0, 1):
                idx, val = ns['compute_dirichlet_bc'](kvs, Geo(), (bdax, side), 'g')
                D = st['coeffs']
                idx = [int(i) for i in np.asarray(idx).ravel()]; val = list(np.asarray(val, dtype=object).ravel())
                exp = {}
                faceN = [n for d, n in enumerate(N) if d != bdax]
                for fpos in itertools.product(*[range(n) for n in faceN]):
                    full = list(fpos); full.insert(bdax, 0 if side == 0 else N[bdax] - 1)
                    rav = int(np.ravel_multi_index(tuple(full), N))
                    for j in range(numcomp or 1):
                        exp[rav + j * NN] = D[tuple(fpos) + ((j,) if numcomp else ())]
                ok = [z3.BoolVal(sorted(idx) == sorted(exp) and len(set(idx)) == len(idx))]
                for i, v in zip(idx, val):
                    if i in exp: ok.append(lift(v) == lift(exp[i]))
                c.check(z3.And(*ok), 'compute_dirichlet_bc: every face dof (and component block) exactly once, paired with the coefficient of its own face position')
        c.witness('dirichlet bc')
    return run


REPLAY_DBC = r'''
import sys, json, numpy as np
w = json.load(sys.stdin)
from pyiga import bspline, geometry, assemble
bad = []
for dim, sizes in ((2, (3, 4)), (3, (2, 3, 4))):
    kvs = tuple(bspline.make_knots(2, 0.0, 1.0, n) for n in sizes)
    geo = geometry.unit_square() if dim == 2 else geometry.unit_cube()
    N = tuple(kv.numdofs for kv in kvs); NN = int(np.prod(N))
    fs = [lambda *x: 1.0 + x[0] + 2 * x[1] * x[1] + (3 * x[2] if len(x) > 2 else 0), lambda *x: 2.0 - x[0] * x[1] + (x[2] ** 2 if len(x) > 2 else 0)]
    vec = lambda *x: np.stack([fs[0](*x), fs[1](*x)], axis=-1)
    for ax in range(dim):
        for side in (0, 1):
            iv, vv = assemble.compute_dirichlet_bc(kvs, geo, (ax, side), vec)
            ref = {}
            for j in range(2):
                i1, v1 = assemble.compute_dirichlet_bc(kvs, geo, (ax, side), fs[j])
                for a, b in zip(i1, v1): ref[int(a) + j * NN] = float(b)
            got = {int(a): float(b) for a, b in zip(iv, vv)}
            if sorted(got) != sorted(ref) or any(abs(got[k] - ref[k]) > 1e-10 for k in ref): bad.append('vector-valued data on face %s of a %dD space: blocked dofs/values differ from the scalar results per component' % ((ax, side), dim))
print(json.dumps({'reproduced': bool(bad), 'bad': bad[:4]}))
'''


def load_initial(enc=None, transform=None):
    """compute_initial_condition_01 from source: interpolation of the boundary data -> symbolic coefficient vectors (contract of approx.interpolate, C17),
    np.linalg.solve -> contract "B X = R" (2x2, nonsingular), active_deriv -> transliterated bspline_cy kernel on a SYMBOLIC time knot vector"""
    import sys, types
    from cyx.load import load_pyx
    cy = load_pyx('pyiga/bspline_cy.pyx', encoded=enc); cy['np'] = SymNP()
    bns = {}
    srcload.load_defs('pyiga/bspline.py', ['_parse_bdspec'], bns, encoded=enc)
    class LinalgNP(SymNP):
        @property
        def linalg(self):
            def solve(B, Rhs):
                B = np.asarray(B, dtype=object); Rhs = np.asarray(Rhs, dtype=object)
                c = sx.ctx()
                X = np.empty(Rhs.shape, dtype=object)
                for idx in np.ndindex(*Rhs.shape): X[idx] = c.fresh('sol')
                det = B[0, 0] * B[1, 1] - B[0, 1] * B[1, 0]
                # the routine must set up a uniquely solvable 2x2 system (np.linalg.solve would raise / return garbage otherwise)
                c.check(lift(det) != 0, 'compute_initial_condition_01: the 2x2 boundary collocation system is uniquely solvable')
                c.assume(lift(det) != 0)
                P = B.dot(X)
                for idx in np.ndindex(*Rhs.shape): c.assume(lift(P[idx]) == lift(Rhs[idx]))
                return X
            return _NS(solve=solve)
    pkg = 'symasm%d' % id(cy)
    ns = {'np': LinalgNP(ints_object=False), 'itertools': itertools, 'bspline': _NS(active_deriv=cy['active_deriv'], **bns), '__package__': pkg, '__name__': pkg + '.assemble'}
    srcload.load_defs('pyiga/assemble.py', ['slice_indices', 'compute_initial_condition_01'], ns, encoded=enc, transform=transform)
    INTERP = {}
    def interpolate(kvs, f, geo=None):
        n = int(np.prod([kv.numdofs for kv in kvs]))
        return np.array([Sym(z3.Real('%s_%d' % (f, i))) for i in range(n)] + [None], dtype=object)[:-1]
    pm = types.ModuleType(pkg); pm.__path__ = []
    am = types.ModuleType(pkg + '.approx'); am.interpolate = interpolate
    sys.modules[pkg] = pm; sys.modules[pkg + '.approx'] = am
    return ns


def initial_condition_harness(ns, dim, p, nint, fixed_interval, only=None):
    """for every time axis and side: the coefficients assigned to the two boundary slices reproduce value (g0) and time derivative (g1) on that face"""
    from checks.bsp_oracle import symbolic_knots, KV, Oracle
    def run(c):
        kvz, pre = symbolic_knots(p, nint, 't')
        for q in pre: c.assume(q)
        if fixed_interval:
            c.assume(z3.And(kvz[0] == 0, kvz[-1] == 1))
        tkv = KV(kvz, p)
        nt = tkv.numdofs
        class SKV:
            def __init__(self, n): self.numdofs = n; self.p = 1
        others = [SKV(2), SKV(3)][:dim - 1]
        class Geo:
            def boundary(self, bdspec): return 'bdgeo'
        for bdax in range(dim):
            for side in (0, 1):
                if only is not None and (bdax, side) != only: continue
                kvs = list(others); kvs.insert(bdax, tkv)
                N = tuple(kv.numdofs for kv in kvs)
                idx, vals = ns['compute_initial_condition_01'](kvs, Geo(), (bdax, side), 'g0', 'g1', physical=True)
                idx = [int(i) for i in idx]; vals = list(np.asarray(vals, dtype=object).ravel())
                nb = int(np.prod([kv.numdofs for kv in others])) if others else 1
                ok = [z3.BoolVal(len(idx) == 2 * nb and len(vals) == 2 * nb and len(set(idx)) == 2 * nb)]
                if len(idx) == 2 * nb and len(vals) == 2 * nb:
                    coef = dict(zip(idx, vals))
                    T = kvz[0] if side == 0 else kvz[-1]
                    orc = Oracle(kvz, p, T)
                    # all basis functions of the time direction that do not vanish (value or derivative) at the face are among the two boundary ones
                    bnd = [0, 1] if side == 0 else [nt - 2, nt - 1]
                    for m, bi in enumerate(itertools.product(*[range(kv.numdofs) for kv in others]) if others else [()]):
                        val = z3.RealVal(0); der = z3.RealVal(0)
                        for k in bnd:
                            full = list(bi); full.insert(bdax, k)
                            I = int(np.ravel_multi_index(tuple(full), N))
                            if I not in coef: ok.append(z3.BoolVal(False)); continue
                            val = val + orc.N(k) * sx._toreal(lift(coef[I])); der = der + orc.dN(k, 1) * sx._toreal(lift(coef[I]))
                        ok.append(val == z3.Real('g0_%d' % m)); ok.append(der == z3.Real('g1_%d' % m))
                c.check(z3.And(*ok), 'compute_initial_condition_01(time axis %d, side %d): the spline takes the interpolated value g0 and time derivative g1 on the face' % (bdax, side))
        c.witness('initial')
    return run


REPLAY_INIT = r"""
import sys, json, numpy as np
w = json.load(sys.stdin)
from pyiga import assemble, bspline, geometry
bad = []
for (a, b) in ((0.0, 1.0), (0.0, 2.0), (1.0, 3.0)) if not w.get('unit_interval_only') else ((0.0, 1.0),):
    for dim in (2, 3):
        for side in (0, 1):
            for bdax in range(dim):
                kvt = bspline.make_knots(2, a, b, 3)
                others = [bspline.make_knots(2, 0.0, 1.0, 2), bspline.make_knots(1, 0.0, 1.0, 3)][:dim - 1]
                kvs = list(others); kvs.insert(bdax, kvt)
                # space-time cylinder G(x, t) = (x, t): tensor product of identity maps, time on parameter axis bdax (coordinate dim-1-bdax)
                geo = geometry.identity([kv.support() for kv in kvs])
                tc = dim - 1 - bdax
                g0 = (lambda *X: 1.0 + X[0] + (2.0 * X[1] if len(X) > 2 or tc != 1 else 0.0)) if False else (lambda *X: 1.0 + sum((k + 1.0) * X[k] for k in range(len(X)) if k != tc))
                g1 = lambda *X: 0.5 - sum((k + 2.0) * X[k] for k in range(len(X)) if k != tc)
                try:
                    idx, vals = assemble.compute_initial_condition_01(kvs, geo, (bdax, side), g0, g1, physical=True)
                    N = tuple(kv.numdofs for kv in kvs)
                    C = np.zeros(int(np.prod(N))); C[idx] = vals
                    f = bspline.BSplineFunc(kvs, C.reshape(N))
                    T = (a, b)[side]
                    grid = [np.linspace(kv.support()[0], kv.support()[1], 5) for kv in kvs]; grid[bdax] = np.array([T])
                    val = f.grid_eval(grid); jac = f.grid_jacobian(grid)
                    P = geo.grid_eval(grid)
                    ref0 = g0(*[P[..., k] for k in range(dim)]); ref1 = g1(*[P[..., k] for k in range(dim)])
                    if not np.allclose(val, ref0, atol=1e-9) or not np.allclose(jac[..., tc], ref1, atol=1e-9):
                        bad.append('time interval [%g,%g], dim %d, time axis %d, side %d: value dev %.3g, derivative dev %.3g' % (a, b, dim, bdax, side, np.abs(val - ref0).max(), np.abs(jac[..., tc] - ref1).max()))
                except Exception as e:
                    bad.append('time interval [%g,%g], dim %d, axis %d, side %d: %s: %s' % (a, b, dim, bdax, side, type(e).__name__, str(e)[:60]))
print(json.dumps({'reproduced': bool(bad), 'bad': bad[:6]}))
"""


def main():
    run = Run(PID, level='other', description='Algebra of Dirichlet elimination with symbolic matrices, values and index order.')
    thorough = run.tier == 'thorough'
    enc = srcload.Encoded()
    ns = load_code(enc)
    run.add_encoded(enc)
    run.stubs += ['scipy.sparse.eye / I[mask] / .dot / .T / issparse / csr_matrix -> symsparse (dense object model)', 'np allocation -> object arrays']
    run.assumptions += ['reals for doubles', 'precondition: indices in range and pairwise distinct (NOT sorted); elim_rows in range, distinct']
    run.out_of_scope += ['compute_dirichlet_bc values (interpolation = numeric solve, C17)', 'compute_initial_condition_01 (2x2 numeric solve)',
                         'multipatch boundary conditions', 'np.unique inside combine_bcs is real numpy on concretised indices']
    cfgs = []
    for (n, k) in [(3, 1), (3, 2), (4, 2)] + ([(4, 3), (5, 2), (4, 4), (4, 0)] if thorough else [(3, 3), (3, 0)]):
        for sparse_A in (True, False):
            cfgs.append((n, n, k, sparse_A, False, False, None))
    cfgs.append((3, 3, 2, True, True, False, None))
    cfgs.append((3, 3, 2, True, False, True, None))
    cfgs.append((3, 4, 2, True, False, False, 1))     # Petrov-Galerkin: 3 equations, 4 dofs, 2 fixed dofs, 1 eliminated row
    cfgs.append((4, 4, 2, True, False, False, 2))
    # dense matrices with a set of eliminated rows that differs from the constrained dofs (Petrov-Galerkin use)
    cfgs.append((3, 4, 2, False, False, False, 1)); cfgs.append((3, 3, 1, False, False, False, 1)); cfgs.append((4, 4, 2, False, True, False, 2))
    if thorough:
        cfgs.append((4, 5, 3, False, False, False, 2)); cfgs.append((5, 5, 3, True, False, False, 3))
    run.bounds = {'system size': 'n,m <= 4 (quick) / 5 (thorough)', 'constrained dofs': '0..n in every order', 'variants': 'dense and sparse A, scalar/array values and rhs, elim_rows'}
    if run.want('rls'):
        for (n, m, k, sp, sv, sb, erk) in cfgs:
            h, idxz, erz = rls_harness(ns, n, m, k, sp, sv, sb, erk)
            st = sx.explore(h, timeout_ms=60000, export_every=9 if thorough else 0)
            bound = {'n': n, 'm': m, 'k': k, 'sparse': sp, 'scalar_values': sv, 'scalar_b': sb, 'elim_rows': erk}
            run.absorb(st, 'restricted-linear-system', bound=bound, sample={'obligation': 'rls', **bound})
            if thorough and st.smt2: run.cross_check(st.smt2[:1])
            for cex in st.cex:
                mdl = cex['model']
                w = {'n': n, 'm': m, 'indices': [int(sx.model_value(mdl, i)) for i in idxz], 'sparse': sp, 'scalar_values': sv, 'scalar_b': sb,
                     'elim_rows': [int(sx.model_value(mdl, i)) for i in erz] if erz is not None else None, 'kind': 'rls'}
                r = realbuild.run_real(REPLAY_RLS, w, only=[])
                srt = w['indices'] == sorted(w['indices'])
                key = 'RestrictedLinearSystem:%s:%s' % ('sorted' if srt else 'unsorted-indices', cex['name'].split(' ')[0])
                run.report(key, 'RestrictedLinearSystem(%dx%d, indices=%s, elim_rows=%s): %s; real run: %s'
                           % (n, m, w['indices'], w['elim_rows'], cex['name'], r['bad']), w, r['reproduced'])
    if run.want('slice'):
        for dim in (1, 2, 3):
            st = sx.explore(slice_harness(ns, dim), timeout_ms=30000, max_paths=200000)
            run.absorb(st, 'slice_indices', bound={'dim': dim, 'shape': '1..3 per axis', 'idx': '-n..n-1', 'flips': 'all'}, sample={'obligation': 'slice_indices', 'dim': dim})
            for cex in st.cex:
                run.report('slice_indices', 'slice_indices wrong for %s' % jsonable(sx.model_dict(cex['model'])), {'kind': 'slice', 'model': jsonable(sx.model_dict(cex['model']))}, True)
            st = sx.explore(bdspec_harness(ns, dim), timeout_ms=30000)
            run.absorb(st, 'boundary_dofs', bound={'dim': dim, 'shape': '2..3 per axis', 'bdspec': 'all names and pairs'})
            for cex in st.cex:
                run.report('boundary_dofs', '%s: %s' % (cex['name'], jsonable(sx.model_dict(cex['model']))), {'kind': 'bdofs', 'model': jsonable(sx.model_dict(cex['model']))}, True)
        st = sx.explore(combine_harness(ns), timeout_ms=30000)
        run.absorb(st, 'combine_bcs', bound={'case': 'two conditions of 2 dofs out of 3, all overlaps'})
        for cex in st.cex:
            run.report('combine_bcs', cex['name'], {'kind': 'combine', 'model': jsonable(sx.model_dict(cex['model']))}, True)
    if run.want('dirichlet'):
        encd = srcload.Encoded(); dns = load_dirichlet(encd); run.add_encoded(encd)
        for N, nc in [((2, 3), 0), ((2, 3), 2), ((2, 3, 2), 2), ((3, 2, 2), 0)] + ([((2, 2, 3), 3), ((4,), 2)] if thorough else []):
            st = sx.explore(dirichlet_bc_harness(dns, N, nc), timeout_ms=60000)
            bound = {'dofs per axis': list(N), 'components': nc or 'scalar', 'faces': 'all'}
            run.absorb(st, 'compute_dirichlet_bc', bound=bound, sample={'obligation': 'Dirichlet dofs and values of a face', **bound})
            for cex in st.cex:
                r = realbuild.run_real(REPLAY_DBC, {}, only=['bspline_cy'])
                run.report('compute_dirichlet_bc', '%s %s; real: %s' % (cex['name'], bound, r['bad']), {'kind': 'dbc'}, r['reproduced'])
                break
    if run.want('initial'):
        enc2 = srcload.Encoded(); ins = load_initial(enc2); run.add_encoded(enc2)
        for dim, p, nint in [(2, 1, 1), (2, 2, 1), (3, 2, 0), (2, 3, 1)] + ([(3, 2, 1), (2, 2, 2), (3, 3, 0)] if thorough else []):
            st = sx.Stats()
            for bdax in range(dim):
                for side in (0, 1):
                    # one exploration per face: the solve contract (non-linear) must not burden the branch queries of the next face
                    st.merge(sx.explore(initial_condition_harness(ins, dim, p, nint, False, only=(bdax, side)), timeout_ms=60000, stop_at_first=False, clear_div=True, sat_search=True))
            st.wall_s = 0.0
            run.absorb(st, 'initial-condition', bound={'dim': dim, 'time degree': p, 'interior time knots': nint, 'time interval': 'symbolic [a,b]'}, sample={'obligation': 'space-time initial condition', 'dim': dim, 'p': p})
            if st.cex:
                r = realbuild.run_real(REPLAY_INIT, {}, only=['bspline_cy'])
                key = 'initial-condition:%s' % ('time interval other than [0,1]' if r['bad'] and all('[0,1]' not in b for b in r['bad']) else 'pairing')
                run.report(key, 'compute_initial_condition_01 (dim %d, p=%d): solver: %s; real run: %s' % (dim, p, sorted({cx['name'] for cx in st.cex})[:3], r['bad'][:4]), {'kind': 'initial'}, r['reproduced'])
    if not run.args.no_canaries and run.want('rls'):
        def canary(name, pat, rep, cfg=(3, 3, 2, True, False, False, None)):
            src = srcload.read('pyiga/assemble.py')
            if pat not in src:
                run.canary(name, False, skipped=True); return
            ns2 = load_code(transform=lambda s: s.replace(pat, rep, 1))
            h, _, _ = rls_harness(ns2, *cfg)
            st = sx.explore(h, timeout_ms=30000)
            run.canary(name, bool(st.cex))
        canary('rhs update sign', 'self.b = self.restrict_rhs(b - A.dot(self.R_elim.T.dot(values)))', 'self.b = self.restrict_rhs(b + A.dot(self.R_elim.T.dot(values)))')
        canary('complete drops prescribed values', 'return self.extend(u) + self.R_elim.T.dot(self.values)', 'return self.extend(u)')
        canary('restrict_matrix uses elim rows', 'return self.R_free_v.dot(B).dot(self.R_free.T)', 'return self.R_free.dot(B).dot(self.R_free.T)', cfg=(3, 4, 2, True, False, False, 1))
        canary('values not reordered with indices', "values = np.asarray(values)[np.argsort(indices, kind='stable')]", 'values = np.asarray(values)')
    run.finish()


def replay_file(path):
    w = json.load(open(path))['witness']
    if w.get('kind') == 'rls':
        r = realbuild.run_real(REPLAY_RLS, w, only=[])
    elif w.get('kind') == 'initial':
        r = realbuild.run_real(REPLAY_INIT, {}, only=['bspline_cy'])
    else:
        r = {'reproduced': True, 'note': 'index-function witnesses are concrete: see model'}
    print(json.dumps(r)); print('REPRODUCED' if r['reproduced'] else 'NOT-REPRODUCED')
    sys.exit(1 if r['reproduced'] else 0)


if __name__ == '__main__':
    if '--replay' in sys.argv:
        replay_file(sys.argv[sys.argv.index('--replay') + 1])
    main_wrapper(main)
