"""C13 -- form-compilation caching never substitutes a different assembler.

Key soundness as a non-interference query.  The real hashing code (VForm.hash, AsmVar.hash,
BasisFun.hash, InputField.hash, Parameter.hash, Expr.hash + every hash_key override; pyiga/vform.py
exec'd from source) and the cache-key construction of pyiga/compile.py run with the builtin
`hash` rebound to an INJECTIVE model (it returns the nested tuple it was given).  One attribute
slot of a real form is overwritten by an unconstrained symbolic value L, then L'; the key becomes
a nested tuple over L resp. L' and  key(L) = key(L')  is a z3 formula.
    query:  L != L'  /\\  key(L) = key(L')
unsat => the slot separates cache entries for ALL values.   sat => the key ignores the slot; the
two admissible concrete values of the token are then decided against the ground truth the property
names: the real compile.generate() -- different text with equal real vf.hash() = violation.
Freshness: the text the generator recipe produces today vs the shipped assemblers.pyx/genericasm.pxi.
"""
import itertools, json, os, random, sys, ast
import z3

from checks.common import Run, main_wrapper, jsonable
from checks import realbuild
from symx import srcload
from vfsem import gen

PID = 'C13'


# ------------------------------------------------------------------------------------------
# injective hash model
class HT:
    """result of the ideal hash: remembers its (nested) argument"""
    __slots__ = ('arg',)
    def __init__(self, arg): self.arg = arg
    def __repr__(self): return 'H%r' % (self.arg,)
    # hashes that the code under test SORTS (e.g. to make a key order-insensitive): the order of ideal hash values is arbitrary but
    # fixed; model = structural order of the arguments with symbolic tokens rendered alike, so both copies of a form sort the same way
    def _skey(self):
        import re
        return re.sub(r'<tok [^>]*>|Tok\([^)]*\)', '<tok>', repr(self))
    def __lt__(self, o): return self._skey() < (o._skey() if isinstance(o, HT) else repr(o))
    def __gt__(self, o): return self._skey() > (o._skey() if isinstance(o, HT) else repr(o))
    def __le__(self, o): return not self.__gt__(o)
    def __ge__(self, o): return not self.__lt__(o)
    # equal arguments have equal hashes (needed when the code under test puts hashes into a set or uses them as dict keys);
    # two symbolic tokens are equal only if they are the same token
    def __eq__(self, o): return isinstance(o, HT) and repr(self) == repr(o)
    def __ne__(self, o): return not self.__eq__(o)
    def __hash__(self): return hash(repr(self))


class Concretised(Exception):
    """the hashing code pushed the symbolic token through a conversion that needs a concrete number (format, float, int)"""


class TokStr(str):
    """repr()/str() of a symbolic token: an INJECTIVE image of it (repr of a float/int/str round-trips)"""
    def __new__(cls, text, term):
        o = str.__new__(cls, text); o.term = term; return o


class Tok:
    """symbolic attribute value; numeric tokens are compared through CPython's numeric hash (hash(-1) == hash(-2) == -2)"""
    def __init__(self, term, numeric=False): self.term = term; self.numeric = numeric
    def __repr__(self): return TokStr('<tok %s>' % self.term, self.term)
    __str__ = __repr__
    def __hash__(self): return id(self)
    def __float__(self): raise Concretised('float() of the token')
    def __int__(self): raise Concretised('int() of the token')
    def __index__(self): raise Concretised('index of the token')
    def __format__(self, spec): raise Concretised('format of the token')


BIG = 2 ** 62


def pyhash_term(t):
    """CPython hash of an integral number |t| < 2^61 - 1 (ints and floats alike): the number itself, except hash(-1) = -2"""
    return z3.If(t == -1, z3.IntVal(-2), t)


class Ids:
    """numbering of concrete leaf values: integral numbers by their real CPython hash (so -1 and -2, 1 and 1.0 and True coincide,
    as they do in a real dict key), everything else injectively in a disjoint range"""
    def __init__(self): self.d = {}
    def of(self, v):
        if isinstance(v, (bool, int, float)) and float(v) == int(float(v)) and abs(float(v)) < 2 ** 60:
            return z3.IntVal(hash(v))
        key = (type(v).__name__, repr(v)) if not isinstance(v, type) else ('type', v.__name__)
        if key not in self.d: self.d[key] = BIG + len(self.d)
        return z3.IntVal(self.d[key])


def eq_formula(a, b, ids):
    if isinstance(a, HT) and isinstance(b, HT):
        return eq_formula(a.arg, b.arg, ids)
    if isinstance(a, HT) or isinstance(b, HT):
        # ideal hash values are distinct from non-hash leaves (64-bit coincidences are outside the claim)
        return z3.BoolVal(False)
    if isinstance(a, (set, frozenset)) and isinstance(b, (set, frozenset)):
        a = tuple(sorted(a, key=repr)); b = tuple(sorted(b, key=repr))
    if isinstance(a, tuple) and isinstance(b, tuple):
        if len(a) != len(b): return z3.BoolVal(False)
        return z3.And(*[eq_formula(x, y, ids) for x, y in zip(a, b)]) if a else z3.BoolVal(True)
    if isinstance(a, tuple) or isinstance(b, tuple):
        if isinstance(a, Tok) or isinstance(b, Tok):
            return z3.BoolVal(False)       # a symbolic scalar token never equals a tuple
        return z3.BoolVal(False)
    def leaf(x):
        if isinstance(x, Tok): return pyhash_term(x.term) if x.numeric else x.term
        if isinstance(x, TokStr): return x.term + 3 * BIG        # injective image of the token, disjoint from every other leaf
        return ids.of(x)
    return leaf(a) == leaf(b)


def load_vform_model(enc=None, transform=None):
    vf = srcload.load_module('pyiga/vform.py', 'vform_hashmodel', encoded=enc, transform=transform)
    vf.__dict__['hash'] = lambda x: HT(x)
    return vf


def cache_key_fn(enc=None):
    """the real cache-key construction of compile.py (function __asm_cache_args), from source"""
    ns = {}
    srcload.load_defs('pyiga/compile.py', ['__asm_cache_args'], ns, encoded=enc)
    return ns['__asm_cache_args']


def form_key(V, on_demand, asm_cache_args):
    V._VForm__hash = None
    return (V.hash(), asm_cache_args(on_demand))


# ------------------------------------------------------------------------------------------
# token templates: make(vf, tok, ctx) builds a form through the public API; locate(V) -> list of
# (object, attribute, tuple-index or None) slots that store the token; values = admissible alternatives
def _ctx_factor(vf, V, u, v, ctx_seed):
    """embed the token-bearing factor into a random context (same for both values of the token)"""
    rng = random.Random(ctx_seed)
    d = V.dim
    pieces = [lambda: 1, lambda: V.GaussWeight, lambda: vf.inner(V.Geo, V.Geo) if V.geo_dim == d else 1,
              lambda: 2.5]
    return rng.choice(pieces)()


def find_nodes(vf, V, cls, pred=lambda e: True):
    out = []
    for e in V.all_exprs():
        if isinstance(e, cls) and pred(e): out.append(e)
    return out


def templates(vf):
    T = []

    def add(name, values, make, locate, on_demand=(False, False), numeric=None, domain=None):
        if numeric is None: numeric = all(isinstance(v, (int, float)) and not isinstance(v, bool) for v in values)
        T.append({'name': name, 'values': values, 'make': make, 'locate': locate, 'on_demand': on_demand, 'numeric': numeric,
                  'domain': domain or ((lambda L: L >= 0) if numeric else (lambda L: z3.And(L >= BIG, L < 2 * BIG)))})

    def base(d=2, **kw):
        V = vf.VForm(d, **kw); u, v = V.basisfuns(); return V, u, v

    # builtin function name
    def mk(tok, ctx):
        V, u, v = base(); f = V.input('f')
        V.add(getattr(vf, tok)(f * f * f) * _ctx_factor(vf, V, u, v, ctx) * u * v * vf.dx); return V
    add('builtin function name', ['sin', 'cos', 'exp', 'tan', 'log', 'sqrt'], mk,
        lambda V: [(e, 'funcname', None) for e in find_nodes(vf, V, vf.BuiltinFuncExpr) if e.funcname != 'abs'])
    # scalar operator
    def mk(tok, ctx):
        V, u, v = base(); f = V.input('f'); g = V.input('g')
        e = {'+': f + g, '-': f - g, '*': f * g, '/': f / g}[tok]
        V.add(e * _ctx_factor(vf, V, u, v, ctx) * u * v * vf.dx); return V
    add('operator', ['+', '-', '*', '/'], mk,
        lambda V: [(e, 'oper', None) for e in find_nodes(vf, V, vf.ScalarOperExpr)
                   if any(getattr(c, 'var', None) is not None and c.var.name == 'g_a' for c in e.children)])
    # constant
    def mk(tok, ctx):
        V, u, v = base(); V.add(vf.as_expr(tok) * u * _ctx_factor(vf, V, u, v, ctx) * v * vf.dx); return V
    CONSTS = [2.0, 3.0, 0.5, -1.0, -2.0, 2.5, 2.5000001, 1234567.0, 1234568.0]
    add('constant', CONSTS, mk, lambda V: [(e, 'value', None) for e in find_nodes(vf, V, vf.ConstExpr) if e.value in CONSTS][:1],
        numeric=True, domain=lambda L: z3.BoolVal(True))
    # the same tokens inside a NESTED variable definition: only 'b' is referenced by the integrand, 'a' only by 'b'
    def mk(tok, ctx):
        V, u, v = base(); f = V.input('f'); a = V.let('a', f * vf.as_expr(tok)); b = V.let('b', a + 1); V.add(b * u * v * vf.dx); return V
    add('constant in a nested definition', [2.0, 3.0, -1.0, -2.0], mk,
        lambda V: [(e, 'value', None) for e in find_nodes(vf, V, vf.ConstExpr) if e.value in (2.0, 3.0, -1.0, -2.0)][:1], numeric=True, domain=lambda L: z3.BoolVal(True))
    def mk(tok, ctx):
        V, u, v = base(); f = V.input('f'); a = V.let('a', getattr(vf, tok)(f)); b = V.let('b', a * a); V.add(b * u * v * vf.dx); return V
    add('function in a nested definition', ['sin', 'cos', 'exp'], mk, lambda V: [(e, 'funcname', None) for e in find_nodes(vf, V, vf.BuiltinFuncExpr)])
    def mk(tok, ctx):
        V, u, v = base(); c = V.parameter('c', shape=(tok,)); b = V.let('b', c[0] * 2); V.add(b * u * v * vf.dx); return V
    add('parameter shape behind a definition', [2, 3], mk, lambda V: [(V.params[0], 'shape', 0)])
    def mk(tok, ctx):
        V, u, v = base(); f = V.input('f', shape=(tok,)); b = V.let('b', f[0] * 2); V.add(b * u * v * vf.dx); return V
    add('input shape behind a definition', [2, 3], mk, lambda V: [(V.inputs[1], 'shape', 0)])
    # derivative multi-index and physical/parametric flag
    def mk(tok, ctx):
        V, u, v = base(); V.add(vf.Dx(u, tok, parametric=True) * v * _ctx_factor(vf, V, u, v, ctx) * V.GaussWeight); return V
    add('derivative direction', [0, 1], mk,
        lambda V: [(e, 'D', k) for e in find_nodes(vf, V, vf.PartialDerivExpr, lambda e: sum(e.D) == 1) for k in range(len(e.D))])
    def mk(tok, ctx):
        V, u, v = base(); V.add(vf.Dx(u, 0, parametric=tok) * v * _ctx_factor(vf, V, u, v, ctx) * vf.dx); return V
    add('derivative physical/parametric', [True, False], mk,
        lambda V: [(e, 'physical', None) for e in find_nodes(vf, V, vf.PartialDerivExpr, lambda e: sum(e.D) == 1)])
    # input-field derivative flag
    def mk(tok, ctx):
        V, u, v = base(); f = V.input('f'); V.add(vf.Dx(f, 1, parametric=tok) * u * v * vf.dx); return V
    add('field derivative physical/parametric', [True, False], mk,
        lambda V: [(e, 'parametric', None) for e in find_nodes(vf, V, vf.VarRefExpr, lambda e: sum(e.D) == 1)])
    # boundary flag, geometry dimension
    def mk(tok, ctx):
        V = vf.VForm(2, boundary=tok); u, v = V.basisfuns(); V.add(u * v * V.GaussWeight); return V
    add('boundary flag', [False, True], mk, lambda V: [(V, 'is_boundary', None)])
    def mk(tok, ctx):
        V = vf.VForm(2, geo_dim=tok); u, v = V.basisfuns(); V.add(u * v * V.GaussWeight); return V
    add('geometry dimension', [2, 3], mk, lambda V: [(V, 'geo_dim', None)])
    def mk(tok, ctx):
        V = vf.VForm(tok); u, v = V.basisfuns(); V.add(u * v * vf.dx); return V
    add('dimension', [2, 3, 1], mk, lambda V: [(V, 'dim', None)])
    def mk(tok, ctx):
        V = vf.VForm(2, arity=tok); bf = V.basisfuns(); u = bf if tok == 1 else bf[0]
        V.add(u * vf.dx); return V
    add('arity', [1, 2], mk, lambda V: [(V, 'arity', None)])
    def mk(tok, ctx):
        V = vf.VForm(3, spacetime=tok); u, v = V.basisfuns(); V.add(vf.Dx(u, 0) * vf.Dx(v, 0) * vf.dx); return V
    add('spacetime flag', [False, True], mk, lambda V: [(V, 'spacetime', None)])
    # vector components, space index
    def mk(tok, ctx):
        V = vf.VForm(2); u, v = V.basisfuns(components=(tok, tok)); V.add(vf.inner(u, v) * vf.dx); return V
    add('component count', [2, 3], mk, lambda V: [(V.basis_funs[0], 'numcomp', None)])
    def mk(tok, ctx):
        V = vf.VForm(2); u, v = V.basisfuns(spaces=(0, tok)); V.add(u * v * vf.dx); return V
    add('space index', [0, 1], mk, lambda V: [(V.basis_funs[1], 'space', None)])
    # input field attributes
    def mk(tok, ctx):
        V, u, v = base(); f = V.input('f', updatable=tok); V.add(f * u * v * vf.dx); return V
    add('updatable flag', [False, True], mk, lambda V: [(V.inputs[1], 'updatable', None)])
    def mk(tok, ctx):
        V, u, v = base(); f = V.input('f', physical=tok); V.add(f * u * v * vf.dx); return V
    add('input physical flag', [False, True], mk, lambda V: [(V.inputs[1], 'physical', None)])
    def mk(tok, ctx):
        V, u, v = base(); f = V.input('f', shape=(tok,)); V.add(f[0] * u * v * vf.dx); return V
    add('input shape', [2, 3], mk, lambda V: [(V.inputs[1], 'shape', 0)])
    def mk(tok, ctx):
        V, u, v = base(); f = V.input(tok); V.add(f * u * v * vf.dx); return V
    add('input name', ['f', 'g'], mk, lambda V: [(V.inputs[1], 'name', None)])
    def mk(tok, ctx):
        V, u, v = base(); c = V.parameter(tok); V.add(c * u * v * vf.dx); return V
    add('parameter name', ['c', 'kappa'], mk, lambda V: [(V.params[0], 'name', None)])
    def mk(tok, ctx):
        V, u, v = base(); c = V.parameter('c', shape=(tok,)); V.add(c[0] * u * v * vf.dx); return V
    add('parameter shape', [2, 3], mk, lambda V: [(V.params[0], 'shape', 0)])
    # variable attributes
    def mk(tok, ctx):
        V, u, v = base(); B = V.let('B', V.W * vf.dot(V.JacInv, V.JacInv.T), symmetric=tok)
        V.add(B.dot(vf.grad(u, parametric=True)).dot(vf.grad(v, parametric=True))); return V
    add('variable symmetric flag', [True, False], mk, lambda V: [(V.vars['B'], 'symmetric', None)])
    def mk(tok, ctx):
        V, u, v = base(); A = V.input('A', shape=(2, 2)); V.add(A[tok, 1] * u * v * vf.dx); return V
    add('variable index', [0, 1], mk,
        lambda V: [(e, 'I', 0) for e in find_nodes(vf, V, vf.VarRefExpr, lambda e: e.var.name == 'A_a')])
    def mk(tok, ctx):
        V = vf.VForm(2); u, v = V.basisfuns(); V.add(u * v * vf.GaussWeightExpr(tok)); return V
    add('gauss weight axis', [0, 1], mk, lambda V: [(e, 'axis', None) for e in find_nodes(vf, V, vf.GaussWeightExpr)])
    # on-demand mode: part of the compile cache key, not of the form
    def mk(tok, ctx):
        V, u, v = base(); V.add(u * v * vf.dx); return V
    add('on-demand mode', [False, True], mk, lambda V: 'on_demand')
    # structural variants (no attribute slot): the two values build two different trees; the model keys are compared directly
    def mk(tok, ctx):
        V = vf.VForm(2, arity=1); v = V.basisfuns(); f = V.input('f'); g = V.input('g')
        V.add(((f - g) if tok == 0 else (g - f)) * v * vf.dx); return V
    add('operand order of a difference', [0, 1], mk, lambda V: 'structural')
    def mk(tok, ctx):
        V = vf.VForm(2, arity=1); v = V.basisfuns(); f = V.input('f'); g = V.input('g')
        V.add(((f + 1) / (g + 2) if tok == 0 else (g + 2) / (f + 1)) * v * vf.dx); return V
    add('operand order of a quotient', [0, 1], mk, lambda V: 'structural')
    def mk(tok, ctx):
        V, u, v = base(); f = V.input('f')
        V.add(f * (u.dx(0) * v if tok == 0 else u * v.dx(0)) * vf.dx); return V
    add('derivative on trial vs test function', [0, 1], mk, lambda V: 'structural')
    # multiplicity of a term: the same expression added once or twice
    def mk(tok, ctx):
        V, u, v = base(); f = V.input('f')
        for _ in range(1 + tok): V.add(f * u * v * vf.dx)
        return V
    add('multiplicity of a repeated term', [0, 1], mk, lambda V: 'structural')
    def mk(tok, ctx):
        V, u, v = base()
        V.add(u * v * vf.dx)
        for _ in range(1 + tok): V.add(vf.inner(vf.grad(u), vf.grad(v)) * vf.dx)
        return V
    add('multiplicity of the second of two terms', [0, 1], mk, lambda V: 'structural')
    # history on one form object: hash taken, then another term added (the library may refuse the add; if it accepts it the key must change)
    def mk(tok, ctx):
        V, u, v = base()
        V.add(u * v * vf.dx)
        if tok:
            V.hash()
            V.add(vf.inner(vf.grad(u), vf.grad(v)) * vf.dx)
        return V
    add('term added after the hash was taken', [0, 1], mk, lambda V: 'structural')
    return T


# ------------------------------------------------------------------------------------------
def slot_query(tpl, vf, asm_cache_args, ctx):
    """-> list of (slot description, 'unsat'|'sat')"""
    ids = Ids()
    out = []
    V = tpl['make'](tpl['values'][0], ctx)
    slots = tpl['locate'](V)
    L, L2 = z3.Int('L'), z3.Int('Lprime')
    if slots == 'on_demand':
        k1 = (V.hash(), asm_cache_args(Tok(L))); k2 = (V.hash(), asm_cache_args(Tok(L2)))
        s = z3.Solver(); s.add(L != L2, tpl['domain'](L), tpl['domain'](L2), eq_formula(k1, k2, ids))
        return [('compile cache key / on_demand', str(s.check()))]
    if slots == 'structural':
        try:
            Va = tpl['make'](tpl['values'][0], ctx); Vb = tpl['make'](tpl['values'][1], ctx)
        except RuntimeError as e:
            return [('structure (variant refused by the library: %s)' % str(e)[:60], 'unsat')]
        # (the memoised hash of the object is used as the library would use it: no reset)
        s = z3.Solver(); s.add(eq_formula((Va.hash(), asm_cache_args(False)), (Vb.hash(), asm_cache_args(False)), ids))
        return [('structure', str(s.check()))]
    if not slots:
        raise RuntimeError('template %s: token slot not found in the form' % tpl['name'])
    for (obj, attr, idx) in slots:
        orig = getattr(obj, attr)
        def put(tok):
            if idx is None:
                setattr(obj, attr, tok)
            else:
                lst = list(orig); lst[idx] = tok; setattr(obj, attr, tuple(lst))
        desc = '%s.%s%s' % (type(obj).__name__, attr, '' if idx is None else '[%d]' % idx)
        try:
            put(Tok(L, tpl['numeric'])); k1 = form_key(V, False, asm_cache_args)
            put(Tok(L2, tpl['numeric'])); k2 = form_key(V, False, asm_cache_args)
        except Concretised as e:
            # the key observes the token only through a concretising conversion: nothing can be said symbolically;
            # decided by the ground truth on the admissible value pairs (reported as 'sat' = "may ignore part of the token")
            out.append((desc + ' [concretised: %s]' % e, 'sat')); continue
        finally:
            setattr(obj, attr, orig); V._VForm__hash = None
        s = z3.Solver(); s.add(L != L2, tpl['domain'](L), tpl['domain'](L2), eq_formula(k1, k2, ids))
        out.append((desc, str(s.check())))
    return out


GROUND = r'''
import sys, json
w = json.load(sys.stdin)
from pyiga import vform as vf, compile as pc
from checks.C13 import templates
tpl = [t for t in templates(vf) if t['name'] == w['template']][0]
res = []
vals = tpl['values']
for i in range(len(vals)):
    for j in range(i + 1, len(vals)):
        out = {'a': vals[i], 'b': vals[j]}
        try:
            Va = tpl['make'](vals[i], w['ctx']); Vb = tpl['make'](vals[j], w['ctx'])
            if tpl['name'] == 'on-demand mode':
                ha = (Va.hash(), vals[i]); hb = (Vb.hash(), vals[j])
                # the real cache key
                ka = (Va.hash(), pc.__dict__['__asm_cache_args'](vals[i])); kb = (Vb.hash(), pc.__dict__['__asm_cache_args'](vals[j]))
                out['same_key'] = (ka == kb)
                ta = pc.generate(Va, on_demand=vals[i]); tb = pc.generate(Vb, on_demand=vals[j])
            else:
                out['same_key'] = (Va.hash() == Vb.hash())
                def g(V):
                    try: return pc.generate(V)
                    except (TypeError, NotImplementedError, ValueError, RuntimeError, AssertionError) as e: return 'REJECTED %s' % type(e).__name__
                ta = g(Va); tb = g(Vb)
            out['same_text'] = (ta == tb)
        except Exception as e:
            out['error'] = '%s: %s' % (type(e).__name__, e)
        res.append(out)
bad = [r for r in res if r.get('same_key') and not r.get('same_text') and 'error' not in r]
print(json.dumps({'reproduced': bool(bad), 'pairs': res, 'bad': bad}))
'''

FRESH = r'''
import sys, json, os, importlib.util
w = json.load(sys.stdin)
import pyiga
from pyiga import vform
from pyiga.codegen import cython as backend
root = os.path.dirname(os.path.dirname(pyiga.__file__))
spec = importlib.util.spec_from_file_location('genasm', os.path.join(root, 'scripts', 'generate-assemblers.py'))
m = importlib.util.module_from_spec(spec); spec.loader.exec_module(m)
generic = '# file generated by generate-assemblers.py\n' + ''.join(backend.generate_generic(dim=d) for d in (1, 2, 3))
asm = backend.preamble() + m.generate(dim=2) + m.generate(dim=3)
shipped_generic = open(os.path.join(root, 'pyiga', 'genericasm.pxi')).read()
shipped_asm = open(os.path.join(root, 'pyiga', 'assemblers.pyx')).read()
def firstdiff(a, b):
    la, lb = a.split('\n'), b.split('\n')
    for k, (x, y) in enumerate(zip(la, lb)):
        if x != y: return {'line': k + 1, 'generated': x[:200], 'shipped': y[:200]}
    return {'line': min(len(la), len(lb)) + 1, 'generated': '<len %d>' % len(la), 'shipped': '<len %d>' % len(lb)}
out = {'generic_identical': generic == shipped_generic, 'assemblers_identical': asm == shipped_asm,
       'bytes': [len(shipped_generic), len(shipped_asm)]}
# the in-process cache is pre-seeded with the shipped classes: every predefined form must be served by the class generated FROM THAT FORM
import re
from pyiga import compile as pc
def class_text(text, name):
    m = re.search(r'^cdef class %s\(.*?(?=^cdef class |\Z)' % re.escape(name), text, flags=re.S | re.M)
    return m.group(0).rstrip() if m else None
wrong = []
for d in (2, 3):
    for label, form in (('mass', vform.mass_vf(d)), ('stiffness', vform.stiffness_vf(d)), ('heat_st', vform.heat_st_vf(d)), ('wave_st', vform.wave_st_vf(d)),
                        ('divdiv', vform.divdiv_vf(d)), ('L2functional', vform.L2functional_vf(d)), ('L2functional physical', vform.L2functional_vf(d, physical=True))):
        cls = pc.compile_vform(form)
        served = class_text(shipped_asm, cls.__name__)
        code = backend.CodeGen(); backend.AsmGenerator({'mass': vform.mass_vf, 'stiffness': vform.stiffness_vf, 'heat_st': vform.heat_st_vf, 'wave_st': vform.wave_st_vf, 'divdiv': vform.divdiv_vf,
                                                         'L2functional': vform.L2functional_vf, 'L2functional physical': (lambda dd: vform.L2functional_vf(dd, physical=True))}[label](d), cls.__name__, code).generate()
        expect = class_text(code.result(), cls.__name__)
        if served is None or expect is None or served != expect:
            wrong.append('%s_vf(%d) is served by class %s, whose shipped source is not what the generator emits for this form' % (label, d, cls.__name__))
out['preseeded_cache_wrong'] = wrong
if not out['generic_identical']: out['generic_diff'] = firstdiff(generic, shipped_generic)
if not out['assemblers_identical']:
    # independent statements may be emitted in a different order: compare as multisets of lines per class body
    import re
    def norm(t):
        blocks = re.split(r'\n(?=cdef class |def |cdef |cpdef )', t)
        return sorted('\n'.join(sorted(b.split('\n'))) for b in blocks)
    out['assemblers_equal_up_to_line_order'] = norm(asm) == norm(shipped_asm)
    out['assemblers_diff'] = firstdiff(asm, shipped_asm)
print(json.dumps(out))
'''


def main():
    run = Run(PID, level='translation_validation', description='Non-interference of the compile-cache key under an injective hash model.')
    thorough = run.tier == 'thorough'
    enc = srcload.Encoded()
    vf = load_vform_model(enc)
    cak = cache_key_fn(enc)
    run.add_encoded(enc)
    run.stubs += ['builtin hash -> injective model (returns its nested argument; no accidental collisions)',
                  'dict lookup of the cache key -> structural equality formula']
    run.assumptions += ['ideal hash: 64-bit collisions and PYTHONHASHSEED effects are outside the claim',
                        'hashlib.shake_128 determinism (same text => same module name) is a trusted library contract']
    tpls = templates(vf)
    nctx = 12 if thorough else 3
    results = {}
    programs = 0
    for tpl in tpls:
        for ctx in range(nctx):
            try:
                qs = slot_query(tpl, vf, cak, ctx + 97 * run.seed)
            except (TypeError, NotImplementedError, ValueError, RuntimeError) as e:
                run.inconclusive_msg('template %s could not be built: %s' % (tpl['name'], e)); continue
            programs += 1
            res = {}
            for slot, r in qs:
                res['%s | %s | ctx %d' % (tpl['name'], slot, ctx)] = r
            # unsat = the slot separates keys; sat = the key ignores the slot -> ground truth needed
            run.record_queries('key-noninterference', {k: ('unsat' if v == 'unsat' else 'sat') for k, v in res.items()},
                               bound={'template': tpl['name'], 'ctx': ctx}, sample={'template': tpl['name'], 'slots': [s for s, _ in qs], 'answers': [r for _, r in qs]})
            if any(v == 'sat' for v in res.values()):
                g = realbuild.run_real(GROUND, {'template': tpl['name'], 'ctx': ctx + 97 * run.seed}, only=[])
                what = 'cache key does not depend on "%s" (slots %s); real pairs with equal vf.hash() and different generated code: %s' \
                       % (tpl['name'], [s for s, r in qs if r == 'sat'], g.get('bad'))
                if g['reproduced']:
                    run.report('key ignores ' + tpl['name'], what, {'kind': 'ground', 'template': tpl['name'], 'ctx': ctx + 97 * run.seed}, True)
                else:
                    # the token is irrelevant for the generated code (identical text / both rejected): nothing to report
                    run.nreplay += 1
                    run.extra.setdefault('irrelevant_slots', []).append({'template': tpl['name'], 'pairs': g.get('pairs')})
                break
    run.extra['programs'] = programs
    run.paths = programs
    # ---- freshness of the shipped generated sources
    fr = realbuild.run_real(FRESH, {}, only=[])
    run.extra['freshness'] = fr
    run.record_queries('freshness', {'genericasm.pxi byte-identical to generate_generic(1..3)': 'unsat' if fr['generic_identical'] else 'sat',
                                     'assemblers.pyx byte-identical to the generator recipe': 'unsat' if fr['assemblers_identical'] else 'sat'},
                       bound={'comparison': 'text produced today by codegen vs shipped files'})
    run.record_queries('preseeded-cache', {'every predefined form is served by the class generated from it': 'unsat' if not fr.get('preseeded_cache_wrong') else 'sat'}, bound={'forms': '14 shipped forms'})
    if fr.get('preseeded_cache_wrong'):
        run.report('preseeded cache', 'in-process cache pre-seed: %s' % fr['preseeded_cache_wrong'][:3], {'kind': 'fresh'}, True)
    if not fr['generic_identical']:
        run.report('stale genericasm.pxi', 'shipped genericasm.pxi differs from generate_generic(): %s' % fr.get('generic_diff'), {'kind': 'fresh'}, True)
    if not fr['assemblers_identical'] and not fr.get('assemblers_equal_up_to_line_order'):
        run.report('stale assemblers.pyx', 'shipped assemblers.pyx differs from the generator recipe: %s' % fr.get('assemblers_diff'), {'kind': 'fresh'}, True)
    run.bounds = {'templates': len(tpls), 'contexts per template': nctx, 'slot values': 'all integers-coded values (solver)',
                  'ground truth pairs': 'all pairs of the admissible values listed per template'}
    run.out_of_scope += ['compile order effects inside one process beyond "the dict is keyed by this key"', 'PYTHONHASHSEED', 'on-disk module cache (C20)']
    # ---- canaries: drop a component from a hash
    if not run.args.no_canaries:
        src = srcload.read('pyiga/vform.py')
        cans = [('BasisFun.hash drops space', 'return hash((self.name, self.numcomp, self.component, self.space))', 'return hash((self.name, self.numcomp, self.component))', 'space index'),
                ('InputField.hash drops updatable', 'return hash((self.name, self.shape, self.physical, self.updatable))', 'return hash((self.name, self.shape, self.physical))', 'updatable flag'),
                ('ScalarOperExpr.hash_key drops oper', "class ScalarOperExpr(Expr):", "class ScalarOperExpr(Expr):\n    def hash_key(self):\n        return ()\n    def _unused(self): pass\n", None)]
        for name, pat, rep, tname in cans:
            if pat not in src:
                run.canary(name, False, skipped=True); continue
            if tname is None:
                # overriding method defined later in the class wins; instead edit the existing definition
                pat2 = "    def hash_key(self):\n        return (self.oper,)\n\n    def fold_constants(self):"
                if pat2 not in src: run.canary(name, False, skipped=True); continue
                vf2 = load_vform_model(transform=lambda s: s.replace(pat2, "    def hash_key(self):\n        return ()\n\n    def fold_constants(self):", 1))
                tname = 'operator'
            else:
                vf2 = load_vform_model(transform=lambda s, pat=pat, rep=rep: s.replace(pat, rep, 1))
            tpl = [t for t in templates(vf2) if t['name'] == tname][0]
            qs = slot_query(tpl, vf2, cak, 0)
            run.canary(name, any(r == 'sat' for _, r in qs))
    run.finish()


def replay_file(path):
    w = json.load(open(path))['witness']
    if w.get('kind') == 'fresh':
        r = realbuild.run_real(FRESH, {}, only=[]); rep = not (r['generic_identical'] and (r['assemblers_identical'] or r.get('assemblers_equal_up_to_line_order'))) or bool(r.get('preseeded_cache_wrong'))
    else:
        r = realbuild.run_real(GROUND, w, only=[]); rep = r['reproduced']
    print(json.dumps(r)); print('REPRODUCED' if rep else 'NOT-REPRODUCED')
    sys.exit(1 if rep else 0)


if __name__ == '__main__':
    if '--replay' in sys.argv:
        replay_file(sys.argv[sys.argv.index('--replay') + 1])
    main_wrapper(main)
