"""Shared by C07 (and C05/C09): symbolic build of pyiga/bspline.py + pyiga/geometry.py function classes on an
*abstract B-spline basis*.

The spline function classes (BSplineFunc, NurbsFunc, ComposedFunction, _BoundaryFunction, UserFunction, the
tp_bsp_*_pointwise evaluators and every geometry constructor/operation) are exec'd from /repo's source text.  What they
call to obtain basis values -- collocation, collocation_derivs, collocation_info, collocation_derivs_info -- is replaced
by a stub with the contract that C02 establishes for the real routines:

  for a knot vector kv (degree p, n dofs) and a node x there is a first-active index f in 0..n-p-1 and, per derivative
  order k, p+1 real numbers b^k_0..b^k_p (the active basis derivatives); all other basis functions vanish;
  sum_j b^0_j = 1, sum_j b^k_j = 0 (k >= 1); at the end points of the support the basis interpolates
  (x = a: f = 0, b^0 = e_0;  x = b: f = n-p-1, b^0 = e_p).

f is a symbolic integer (forked over its range), the b's are fresh solver variables shared by all routes that ask for the
same (knot vector, node) pair.  Nothing else about the basis is assumed, so a verdict holds for every degree-p basis with n
functions, every knot vector and every node.
"""
import sys, types, itertools
import numpy as np
import z3
from symx import core as sx
from symx.core import Sym, lift
from symx.symnp import SymNP
from symx.symsparse import sparse_facade, SpMat
from symx import srcload

_PKG_N = [0]


def term_key(x):
    if isinstance(x, Sym):
        return 'T:' + z3.simplify(x.t).sexpr()
    if isinstance(x, (np.ndarray,)) and x.shape == ():
        return term_key(x.item())
    return 'C:%r' % float(x)


class AKV:
    """abstract knot vector: only degree, number of dofs, identity (name) and support end points"""
    def __init__(self, name, p, n, a=None, b=None):
        self.name = name; self.p = p; self._n = n
        self.a = Sym(z3.Real(name + '_a')) if a is None else a
        self.b = Sym(z3.Real(name + '_b')) if b is None else b
    @property
    def numdofs(self): return self._n
    def support(self, j=None):
        assert j is None
        return (self.a, self.b)
    def copy(self): return AKV(self.name, self.p, self._n, self.a, self.b)
    def __eq__(self, o): return isinstance(o, AKV) and o.name == self.name
    def __hash__(self): return hash(self.name)
    def __repr__(self): return 'AKV(%s,p=%d,n=%d)' % (self.name, self.p, self._n)


class World:
    """per-path table of abstract basis jets"""
    def __init__(self, c):
        self.c = c; self.tab = {}

    def jets(self, kv, node, derivs):
        key = (kv.name, term_key(node))
        ent = self.tab.get(key)
        c = self.c
        n, p = kv.numdofs, kv.p
        if ent is None:
            nk = key[1]
            if nk == term_key(kv.a):
                first = 0; v0 = [1] + [0] * p
            elif nk == term_key(kv.b):
                first = n - p - 1; v0 = [0] * p + [1]
            else:
                if n - p - 1 > 0:
                    fi = c.fresh('first_' + kv.name, 'int')
                    c.assume(z3.And(fi.t >= 0, fi.t <= n - p - 1))
                    first = int(fi)
                else:
                    first = 0
                v0 = None
            ent = {'first': first, 'vals': {}}
            if v0 is not None: ent['vals'][0] = v0
            self.tab[key] = ent
        for k in range(derivs + 1):
            if k not in ent['vals']:
                vs = [c.fresh('b%d_%s' % (k, kv.name)) for _ in range(p + 1)]
                c.assume(z3.Sum([v.t for v in vs]) == (1 if k == 0 else 0))
                ent['vals'][k] = vs
        return ent['first'], [ent['vals'][k] for k in range(derivs + 1)]

    def row(self, kv, node, k):
        """full row (length numdofs) of the k-th derivative collocation matrix at the node"""
        first, vals = self.jets(kv, node, k)
        r = np.empty(kv.numdofs, dtype=object); r[...] = 0
        for j in range(kv.p + 1): r[first + j] = vals[k][j]
        return r


_WORLD = [None]


def world():
    if _WORLD[0] is None: raise RuntimeError('no abstract-basis world active')
    return _WORLD[0]


def set_world(c):
    _WORLD[0] = World(c)
    return _WORLD[0]


def _nodes_list(nodes):
    a = np.asarray(nodes, dtype=object)
    return list(a.ravel())


def stub_collocation_info(kv, nodes):
    ns = _nodes_list(nodes)
    idx = np.empty(len(ns), dtype=int); vals = np.empty((len(ns), kv.p + 1), dtype=object)
    for r, x in enumerate(ns):
        f, v = world().jets(kv, x, 0)
        idx[r] = f
        for j in range(kv.p + 1): vals[r, j] = v[0][j]
    return idx, vals


def stub_collocation_derivs_info(kv, nodes, derivs=1):
    ns = _nodes_list(nodes)
    idx = np.empty(len(ns), dtype=int); vals = np.empty((derivs + 1, len(ns), kv.p + 1), dtype=object)
    for r, x in enumerate(ns):
        f, v = world().jets(kv, x, derivs)
        idx[r] = f
        for k in range(derivs + 1):
            for j in range(kv.p + 1): vals[k, r, j] = v[k][j]
    return idx, vals


def stub_collocation(kv, nodes):
    ns = _nodes_list(nodes)
    M = np.empty((len(ns), kv.numdofs), dtype=object)
    for r, x in enumerate(ns): M[r] = world().row(kv, x, 0)
    return SpMat(M, 'csr')


def stub_collocation_derivs(kv, nodes, derivs=1):
    ns = _nodes_list(nodes)
    out = []
    for k in range(derivs + 1):
        M = np.empty((len(ns), kv.numdofs), dtype=object)
        for r, x in enumerate(ns): M[r] = world().row(kv, x, k)
        out.append(SpMat(M, 'csr'))
    return out


class _NS:
    def __init__(self, d=None, **kw):
        if d: self.__dict__.update(d)
        self.__dict__.update(kw)


BSPLINE_DEFS = ['_parse_bdspec', 'tp_bsp_eval_pointwise', 'tp_bsp_jac_pointwise', 'tp_bsp_eval_with_jac_pointwise',
                '_BaseGeoFunc', '_BaseSplineFunc', 'BSplineFunc', 'PhysicalGradientFunc']
GEOMETRY_DEFS = ['_nurbs_jacobian', 'NurbsFunc', 'UserFunction', 'ComposedFunction', '_BoundaryFunction', 'unit_square',
                 'bspline_quarter_annulus', 'quarter_annulus', '_combine_boundary_curves', 'disk', 'unit_cube', 'identity',
                 'twisted_box', 'line_segment', 'circular_arc', 'circular_arc_3pt', 'circular_arc_5pt', 'circular_arc_7pt',
                 'semicircle', 'circle', '_prepare_for_outer', 'outer_sum', 'outer_product', 'tensor_product']


def load_geo(enc=None, transforms=None, basis='abstract', real_ns=None, npf=None, make_knots=None, geo_overrides=None, bspline_attr_overrides=None):
    """-> (bs, geo) namespaces.  basis='abstract': collocation routines are the stubs above and KnotVector is AKV;
    basis='real': collocation routines / KnotVector / make_knots are taken from `real_ns` (C02/C19 style symbolic build)"""
    transforms = transforms or {}
    _PKG_N[0] += 1
    pkg = 'symgeo%d' % _PKG_N[0]
    snp = npf or SymNP()
    sc = _NS(sparse=sparse_facade())
    tn = {'np': snp, 'scipy': _NS(sparse=_NS(issparse=lambda x: isinstance(x, SpMat), linalg=_NS(LinearOperator=type('LO', (), {}))))}
    srcload.load_defs('pyiga/tensor.py', ['apply_tprod', '_modek_tensordot_sparse', 'modek_tprod', 'matricize'], tn, encoded=enc)
    un = {'np': snp, 'scipy': sc}
    srcload.load_defs('pyiga/utils.py', ['grid_eval', '_ensure_grid_shape', '_broadcast_to_grid'], un, encoded=enc, transform=transforms.get('utils'))
    bs = {'np': snp, 'scipy': sc, 'apply_tprod': tn['apply_tprod'], '__package__': pkg, '__name__': pkg + '.bspline'}
    if basis == 'abstract':
        def _mk(p, a, b, n, mult=1):
            nm = 'mk%d_%s_%s_%d_%d' % (p, term_key(a)[2:12], term_key(b)[2:12], n, mult)
            return AKV(nm.replace(' ', ''), p, p + 1 + mult * (n - 1), a if isinstance(a, Sym) else Sym(sx._const(a)), b if isinstance(b, Sym) else Sym(sx._const(b)))
        bs.update(KnotVector=AKV, make_knots=make_knots or _mk, collocation=stub_collocation, collocation_derivs=stub_collocation_derivs,
                  collocation_info=stub_collocation_info, collocation_derivs_info=stub_collocation_derivs_info)
    else:
        bs.update(real_ns)
    srcload.load_defs('pyiga/bspline.py', BSPLINE_DEFS, bs, encoded=enc, transform=transforms.get('bspline'))
    geo = {'np': snp, 'bspline': _NS(bs), 'utils': _NS(un), 'BSplineFunc': bs['BSplineFunc'], 'apply_tprod': tn['apply_tprod'],
           'functools': __import__('functools'), '__package__': pkg, '__name__': pkg + '.geometry'}
    if geo_overrides: geo.update(geo_overrides)
    if bspline_attr_overrides: geo['bspline'].__dict__.update(bspline_attr_overrides)
    srcload.load_defs('pyiga/geometry.py', GEOMETRY_DEFS, geo, encoded=enc, transform=transforms.get('geometry'))
    # function-level relative imports (`from .geometry import ...`) resolve to the symbolic build, never to the installed pyiga
    pm = types.ModuleType(pkg); pm.__path__ = []
    gm = types.ModuleType(pkg + '.geometry'); gm.__dict__.update(geo)
    bm = types.ModuleType(pkg + '.bspline'); bm.__dict__.update(bs)
    sys.modules[pkg] = pm; sys.modules[pkg + '.geometry'] = gm; sys.modules[pkg + '.bspline'] = bm
    pm.geometry = gm; pm.bspline = bm
    return bs, geo, un


# ------------------------------------------------------------------------------------------------ oracle

def sym_coeffs(tag, shape):
    return sx.symarray(tag, shape)


def contract(kvs, coeffs, nodes, D):
    """sum_{i} prod_d B^{(D[d])}_d[i_d](nodes[d]) * coeffs[i, ...]   (nodes in knot-vector order, i.e. x LAST)"""
    A = np.asarray(coeffs, dtype=object)
    for d in reversed(range(len(kvs))):
        r = world().row(kvs[d], nodes[d], D[d])
        A = np.tensordot(r, A, axes=([0], [d]))     # removes axis d (processed from the last so earlier axes keep position)
    if isinstance(A, np.ndarray) and A.ndim == 0:
        A = A.item()
    return A


def bsp_value(kvs, coeffs, nodes):
    return contract(kvs, coeffs, nodes, [0] * len(kvs))


def bsp_jac(kvs, coeffs, nodes):
    """array  trailing x sdim, column sdim-1-i = derivative w.r.t. the i-th knot-vector axis (x is the LAST axis, column 0)"""
    sd = len(kvs)
    cols = [None] * sd
    for i in range(sd):
        D = [0] * sd; D[i] = 1
        cols[sd - 1 - i] = np.asarray(contract(kvs, coeffs, nodes, D), dtype=object)
    return np.stack(cols, axis=-1)


def hess_pairs(sd):
    """documented linearisation (xx, xy, xz, yy, yz, zz) with x <-> last knot-vector axis; -> list of (axis_i, axis_j)"""
    coords = list(reversed(range(sd)))      # coordinate c (0=x) <-> axis sd-1-c
    out = []
    for a in range(sd):
        for b in range(a, sd):
            out.append((coords[a], coords[b]))
    return out


def bsp_hess(kvs, coeffs, nodes):
    sd = len(kvs)
    comps = []
    for (i, j) in hess_pairs(sd):
        D = [0] * sd; D[i] += 1; D[j] += 1
        comps.append(np.asarray(contract(kvs, coeffs, nodes, D), dtype=object))
    return np.stack(comps, axis=-1)


def flat_terms(a):
    return [lift(x) for x in np.asarray(a, dtype=object).ravel()]


def eq(a, b):
    a = np.asarray(a, dtype=object); b = np.asarray(b, dtype=object)
    if a.shape != b.shape:
        return z3.BoolVal(False)
    return sx.eq_arrays(a, b)
