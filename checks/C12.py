"""C12 -- time integrators realise consistent RK / Rosenbrock schemes of their stated order.

Encoded (pyiga/solvers.py, definitions exec'd from source): dirk_step, rosenbrock_step, newton,
_constant_step_method, _adaptive_step_method, NoConvergenceError, every coeffs_*() and the inline
Crank-Nicolson tableau.  Compositional: inside the step functions `newton` is replaced by its
contract (returns y with F(y) = 0, F being the REAL closure dirk_step builds), make_solver by the
contract "B y = r"; newton itself is verified separately against an unconstrained residual stub.
"""
import ast, itertools, json, math, sys
from fractions import Fraction as F
import numpy as np
import z3

from checks.common import Run, main_wrapper, jsonable
from checks import realbuild
from symx import core as sx
from symx.core import Sym, lift
from symx.symnp import SymNP
from symx.symsparse import sparse_facade
from symx import srcload

PID = 'C12'

DIRK = {   # name -> (coeffs function or None, documented order main, embedded)
    'crank_nicolson': (None, 2, None), 'sdirk3': ('coeffs_sdirk3', 3, None), 'sdirk3_b': ('coeffs_sdirk3_b', 4, None),
    'sdirk21': ('coeffs_sdirk21', 2, 1), 'dirk34': ('coeffs_dirk34', 3, 2), 'esdirk23': ('coeffs_esdirk23', 2, 3),
    'esdirk34': ('coeffs_esdirk34', 3, 4)}
ROS = ['ros3p', 'ros3pw', 'rowdaind2', 'rodasp', 'rosi2p1']


class _NS:
    def __init__(self, **kw): self.__dict__.update(kw)


class SolverStub:
    """contract of make_solver(B): an operator whose application to r is SOME y with B y = r"""
    def __init__(self, B, log):
        self.B = B.toarray() if hasattr(B, 'toarray') else np.asarray(B, dtype=object)
        self.log = log
    def dot(self, r):
        c = sx.ctx()
        r = np.asarray(r, dtype=object)
        n = r.shape[0]
        y = np.empty(n, dtype=object)
        for i in range(n): y[i] = c.fresh('y')
        By = self.B.dot(y)
        for i in range(n): c.assume(lift(By[i]) == lift(r[i]))
        self.log.append(('solve', self.B, r, y))
        return y
    __matmul__ = dot
    __mul__ = dot


class NormStub:
    """np.linalg.norm -> fresh n >= 0 (control flow of the drivers must not depend on nonlinear facts)"""
    def __init__(self): self.log = []
    def norm(self, v, *a, **k):
        n = sx.ctx().fresh('norm')
        sx.ctx().assume(n.t >= 0)
        self.log.append((np.array(v, dtype=object, copy=True), n))
        return n


def load_solvers(enc=None, transform=None, names=None):
    log = []
    snp = SymNP()
    norm = NormStub()
    snp.linalg = norm
    import pyiga.utils as real_utils
    ns = {'np': snp, 'scipy': _NS(sparse=sparse_facade(), linalg=norm), 'utils': real_utils,
          'make_solver': lambda B, symmetric=False, spd=False: SolverStub(B, log), 'reduce': __import__('functools').reduce}
    src = srcload.read('pyiga/solvers.py')
    if transform: src = transform(src)
    tree = ast.parse(src)
    allnames = []
    for node in tree.body:
        if isinstance(node, (ast.FunctionDef, ast.ClassDef)):
            if node.name in ('fastdiag_solver',): continue
            allnames.append(node.name)
    srcload.load_defs('pyiga/solvers.py', allnames, ns, encoded=enc, src=src)
    # inline tableau of crank_nicolson (module level statement)
    for node in tree.body:
        if isinstance(node, ast.Assign) and isinstance(node.targets[0], ast.Name) and node.targets[0].id == 'crank_nicolson':
            arr = node.value.args[0]
            ns['_cn_tableau'] = eval(compile(ast.Expression(arr), 'cn', 'eval'), {'np': np})
    ns['_log'] = log; ns['_norm'] = norm
    ns['_real_newton'] = ns['newton']
    return ns


def tableau(ns, name):
    fn = DIRK[name][0]
    if fn is None: return np.array(ns['_cn_tableau'], dtype=float)
    c = ns[fn]()
    return np.array(c[0] if isinstance(c, tuple) else c, dtype=float)


def frac(x):
    return F(float(x))


# ------------------------------------------------------------------------------------------
def dirk_harness(ns, name, n, with_M, pass_Fx):
    A = tableau(ns, name)
    s = A.shape[1]

    def run(c):
        M = sx.symarray('m', (n, n)) if with_M else None
        K = sx.symarray('k', (n, n)); g = sx.symarray('g', (n,)); x = sx.symarray('x', (n,))
        tau = Sym(z3.Real('tau')); c.assume(tau.t > 0)
        stages = []
        Fcalls = []
        def Ff(y):
            r = K.dot(y) + g
            Fcalls.append((y, r)); return r
        def Jf(y): return K
        def newton_stub(Fn, Jn, x0, **kw):
            y = np.empty(n, dtype=object)
            for i in range(n): y[i] = c.fresh('stage')
            r = Fn(y)
            for i in range(n): c.assume(lift(r[i]) == 0)
            stages.append(y)
            return y
        ns['newton'] = newton_stub
        Fx = (K.dot(x) + g) if pass_Fx else None
        if with_M and name in ('sdirk3_b', 'sdirk21', 'esdirk34') and n == 1:
            # an earlier, unrelated direct call (other mass matrix, no data dict) must not influence this one
            M0 = sx.symarray('m0', (n, n))
            ns['dirk_step'](A, M0, Ff, Jf, x, tau)
            del stages[:]; del Fcalls[:]
        out = ns['dirk_step'](A, M, Ff, Jf, x, tau, Fx=Fx) if not pass_Fx else ns['dirk_step'](A, M, Ff, Jf, x, tau, data=None, Fx=Fx)
        Mm = M if with_M else np.array([[1 if i == j else 0 for j in range(n)] for i in range(n)], dtype=object)
        # reconstruct the stage list: explicit first stage (a_11 = 0) is x itself
        ys = []
        it = iter(stages)
        for i in range(s):
            if A[i, i] == 0: ys.append(x)
            else: ys.append(next(it))
        Fy = [K.dot(y) + g for y in ys]
        aq = [[frac(A[i, j]) for j in range(s)] for i in range(s)]
        eqs = []
        for i in range(s):
            lhs = Mm.dot(ys[i])
            rhs = Mm.dot(x) + tau * sum((aq[i][j] * Fy[j] for j in range(i + 1)), 0 * g)
            if A[i, i] == 0:
                continue      # y_1 = x by construction
            eqs.append(sx.eq_arrays(lhs, rhs))
        c.check(z3.And(*eqs) if eqs else z3.BoolVal(True), 'stage equations M y_i = M x + tau sum_j a_ij F(y_j)')
        x_new = out[0]
        bq = [frac(v) for v in A[s, :]]
        c.check(sx.eq_arrays(Mm.dot(x_new), Mm.dot(x) + tau * sum((bq[i] * Fy[i] for i in range(s)), 0 * g)),
                'M x_new = M x + tau sum_i b_i F(y_i)')
        if A.shape[0] == s + 2:
            x_est = out[1]; bh = [frac(v) for v in A[s + 1, :]]
            c.check(sx.eq_arrays(Mm.dot(x_est), Mm.dot(x) + tau * sum((bh[i] * Fy[i] for i in range(s)), 0 * g)),
                    'M x_est = M x + tau sum_i bhat_i F(y_i)')
        Fnew = out[-1]
        if Fnew is not None:
            c.check(sx.eq_arrays(Fnew, K.dot(x_new) + g), 'returned F(x_new) is the right-hand side at x_new')
        # y' = g  (K = 0): M x_new = M x + tau g within the truncation of the printed constants
        K0 = z3.And(*[lift(v) == 0 for v in K.ravel()])
        lhs = Mm.dot(x_new) - Mm.dot(x) - tau * g
        gmax = z3.Real('gmax')
        bound = z3.And(*[z3.And(lift(v) <= gmax, -lift(v) <= gmax) for v in g])
        tol = z3.RealVal(F(1, 10**9))
        concl = z3.And(*[z3.And(lift(v) <= tol * tau.t * gmax, -lift(v) <= tol * tau.t * gmax) for v in lhs])
        if n == 1:      # (n = 2 with a symbolic mass matrix: 50 s per method; the statement is the same scalar fact sum(b) = 1)
            c.check(z3.Implies(z3.And(K0, bound), concl), "y' = const integrated exactly (|M x_new - M x - tau g| <= 1e-9 tau |g|)")
        c.witness(name)
    return run


def ros_harness(ns, name, n, with_bhat):
    A, Gamma, b, b_hat, err_order = ns['coeffs_' + name]()
    s = A.shape[0]

    def run(c):
        M = sx.symarray('m', (n, n)); K = sx.symarray('k', (n, n)); g = sx.symarray('g', (n,)); x = sx.symarray('x', (n,))
        tau = Sym(z3.Real('tau')); c.assume(tau.t > 0)
        log = ns['_log']; del log[:]
        Ff = lambda y: K.dot(y) + g
        class Jm:
            def __init__(self, K): self.K = K
            def dot(self, v): return self.K.dot(v)
            def __rsub__(self, o): return o - self.K
            def __rmul__(self, o): return Jm(o * self.K)
        out = ns['rosenbrock_step'](A, Gamma, b, b_hat if with_bhat else None, M, Ff, lambda y: K, x, tau, dict())
        ks = [e[3] for e in log if e[0] == 'solve']
        if len(ks) != s:
            c.check(z3.BoolVal(False), 'number of stage solves'); return
        gam = frac(Gamma[0, 0])
        eqs = []
        for i in range(s):
            yi = x + tau * sum((frac(A[i, j]) * ks[j] for j in range(i)), 0 * x)
            rhs = K.dot(yi) + g + tau * K.dot(sum((frac(Gamma[i, j]) * ks[j] for j in range(i)), 0 * x))
            lhs = (M - tau * gam * K).dot(ks[i])
            eqs.append(sx.eq_arrays(lhs, rhs))
        c.check(z3.And(*eqs), 'stage equations (M - tau gamma J) k_i = F(x + tau sum a_ij k_j) + tau J sum gamma_ij k_j')
        c.check(sx.eq_arrays(out[0], x + tau * sum((frac(b[i]) * ks[i] for i in range(s)), 0 * x)), 'x_new = x + tau sum b_i k_i')
        if with_bhat:
            c.check(sx.eq_arrays(out[1], x + tau * sum((frac(b_hat[i]) * ks[i] for i in range(s)), 0 * x)), 'x_est = x + tau sum bhat_i k_i')
        c.witness(name)
    return run


def ros_sequence_harness(ns, name, n):
    """two consecutive Rosenbrock steps of one integration: the SAME `data` dict, the same step size, and a Jacobian callback that fills
    and returns one preallocated buffer (its contents differ between the steps).  Each step must satisfy its stage equations with the
    Jacobian of ITS state -- nothing remembered from the previous step may be reused on the strength of object identity."""
    A, Gamma, b, b_hat, err_order = ns['coeffs_' + name]()
    s = A.shape[0]

    def run(c):
        M = sx.symarray('m', (n, n)); g = sx.symarray('g', (n,)); x = sx.symarray('x', (n,))
        Ks = [sx.symarray('k1', (n, n)), sx.symarray('k2', (n, n))]
        tau = Sym(z3.Real('tau')); c.assume(tau.t > 0)
        log = ns['_log']
        buf = np.empty((n, n), dtype=object)
        data = dict()
        gam = frac(Gamma[0, 0])
        for step in range(2):
            K = Ks[step]
            def J(y, K=K):
                buf[...] = K; return buf
            Kc = K.copy()
            Ff = lambda y, Kc=Kc: Kc.dot(y) + g
            del log[:]
            out = ns['rosenbrock_step'](A, Gamma, b, b_hat, M, Ff, J, x, tau, data)
            ks = [e[3] for e in log if e[0] == 'solve']
            if len(ks) != s:
                c.check(z3.BoolVal(False), 'number of stage solves (step %d of a sequence)' % (step + 1)); return
            eqs = []
            for i in range(s):
                yi = x + tau * sum((frac(A[i, j]) * ks[j] for j in range(i)), 0 * x)
                rhs = Kc.dot(yi) + g + tau * Kc.dot(sum((frac(Gamma[i, j]) * ks[j] for j in range(i)), 0 * x))
                eqs.append(sx.eq_arrays((M - tau * gam * Kc).dot(ks[i]), rhs))
            c.check(z3.And(*eqs), 'step %d of a sequence sharing `data` and a Jacobian buffer: stage equations with the Jacobian of the current state' % (step + 1))
            x = np.asarray(out[0], dtype=object)
        c.witness(name + ' sequence')
    return run


REPLAY_ROSSEQ = r'''
import sys, json, numpy as np
w = json.load(sys.stdin)
from pyiga import solvers
bad = []
for name in w['methods']:
    A, Gamma, b, b_hat, eo = getattr(solvers, 'coeffs_' + name)()
    M = np.array([[2.0, 0.3], [0.1, 1.5]]); tau = 0.1
    F = lambda y: np.array([-y[0] ** 3 + y[1], -0.5 * y[1] ** 2 - y[0]])
    def Jfresh(y): return np.array([[-3 * y[0] ** 2, 1.0], [-1.0, -y[1]]])
    buf = np.zeros((2, 2))
    def Jbuf(y): buf[...] = Jfresh(y); return buf
    xa = np.array([1.0, 0.7]); xb = xa.copy(); data = dict()
    for step in range(3):
        xa = solvers.rosenbrock_step(A, Gamma, b, b_hat, M, F, Jfresh, xa, tau, dict())[0]
        xb = solvers.rosenbrock_step(A, Gamma, b, b_hat, M, F, Jbuf, xb, tau, data)[0]
        if not np.allclose(xa, xb, rtol=1e-12, atol=1e-14): bad.append('%s: step %d with a shared data dict and a Jacobian buffer differs from independent steps by %.3g' % (name, step + 1, abs(xa - xb).max())); break
print(json.dumps({'reproduced': bool(bad), 'bad': bad}))
'''


# ------------------------------------------------------------------------------------------
def rk_order_residuals(A, b):
    """classical order conditions up to order 4 (exact rationals of the floats) -> {order: [(name, residual)]}"""
    s = len(b)
    A = [[frac(A[i][j]) for j in range(s)] for i in range(s)]; b = [frac(v) for v in b]
    cvec = [sum(A[i]) for i in range(s)]
    def dot(u, v): return sum(x * y for x, y in zip(u, v))
    Ac = [dot(A[i], cvec) for i in range(s)]
    Ac2 = [dot(A[i], [x * x for x in cvec]) for i in range(s)]
    AAc = [dot(A[i], Ac) for i in range(s)]
    return {1: [('sum b = 1', sum(b) - 1)],
            2: [('b.c = 1/2', dot(b, cvec) - F(1, 2))],
            3: [('b.c^2 = 1/3', dot(b, [x * x for x in cvec]) - F(1, 3)), ('b.A.c = 1/6', dot(b, Ac) - F(1, 6))],
            4: [('b.c^3 = 1/4', dot(b, [x ** 3 for x in cvec]) - F(1, 4)), ('b.(c*Ac) = 1/8', dot(b, [x * y for x, y in zip(cvec, Ac)]) - F(1, 8)),
                ('b.A.c^2 = 1/12', dot(b, Ac2) - F(1, 12)), ('b.A.A.c = 1/24', dot(b, AAc) - F(1, 24))]}


def ros_order_residuals(A, Gamma, b):
    """Rosenbrock order conditions up to order 4 (Hairer-Wanner IV.7) with beta = alpha + gamma"""
    s = len(b)
    al = [[frac(A[i][j]) for j in range(s)] for i in range(s)]
    gm = [[frac(Gamma[i][j]) if j < i else F(0) for j in range(s)] for i in range(s)]
    g = frac(Gamma[0][0]); b = [frac(v) for v in b]
    be = [[al[i][j] + gm[i][j] for j in range(s)] for i in range(s)]
    a_i = [sum(al[i]) for i in range(s)]; b_i = [sum(be[i]) for i in range(s)]
    def dot(u, v): return sum(x * y for x, y in zip(u, v))
    Bb = [dot(be[i], b_i) for i in range(s)]
    return {1: [('sum b = 1', sum(b) - 1)],
            2: [('sum b_i beta_i = 1/2 - gamma', dot(b, b_i) - (F(1, 2) - g))],
            3: [('sum b_i alpha_i^2 = 1/3', dot(b, [x * x for x in a_i]) - F(1, 3)),
                ('sum b_i beta_ij beta_j = 1/6 - gamma + gamma^2', dot(b, Bb) - (F(1, 6) - g + g * g))],
            4: [('sum b_i alpha_i^3 = 1/4', dot(b, [x ** 3 for x in a_i]) - F(1, 4)),
                ('sum b_i alpha_i alpha_ij beta_j = 1/8 - gamma/3', dot(b, [a_i[i] * dot(al[i], b_i) for i in range(s)]) - (F(1, 8) - g / 3)),
                ('sum b_i beta_ij alpha_j^2 = 1/12 - gamma/3', dot(b, [dot(be[i], [x * x for x in a_i]) for i in range(s)]) - (F(1, 12) - g / 3)),
                ('sum b_i beta_ij beta_jk beta_k = 1/24 - gamma/2 + 3 gamma^2/2 - gamma^3', dot(b, [dot(be[i], Bb) for i in range(s)]) - (F(1, 24) - g / 2 + F(3, 2) * g * g - g ** 3))]}


def order_violations(ns, name):
    tol = F(1, 10**8); bad = []
    if name in DIRK:
        A = tableau(ns, name); s = A.shape[1]; fn, pmain, pemb = DIRK[name]
        sets = [('main', A[s, :], pmain)] + ([('embedded', A[s + 1, :], pemb)] if A.shape[0] == s + 2 and pemb else [])
        for which, bvec, order in sets:
            res = rk_order_residuals(A[:s, :].tolist(), bvec.tolist())
            bad += [(which, cn) for p in range(1, min(order, 4) + 1) for cn, r in res[p] if abs(r) > tol]
    else:
        A, Gamma, b, b_hat, eo = ns['coeffs_' + name]()
        for which, bvec, order in (('main', b, eo + 1), ('embedded', b_hat, eo)):
            res = ros_order_residuals(np.asarray(A).tolist(), np.asarray(Gamma).tolist(), list(bvec))
            bad += [(which, cn) for p in range(1, min(order, 4) + 1) for cn, r in res[p] if abs(r) > tol]
    return bad


def order_queries(run, ns):
    tol = F(1, 10**8)
    for name, (fn, pmain, pemb) in DIRK.items():
        A = tableau(ns, name); s = A.shape[1]
        sets = [('main', A[s, :], pmain)] + ([('embedded', A[s + 1, :], pemb)] if A.shape[0] == s + 2 and pemb else [])
        for which, bvec, order in sets:
            res = rk_order_residuals(A[:s, :].tolist(), bvec.tolist())
            results = {}
            for p in range(1, min(order, 4) + 1):
                for cname, r in res[p]:
                    sol = z3.Solver(); rr = z3.RealVal(r)
                    sol.add(z3.Not(z3.And(rr <= z3.RealVal(tol), -rr <= z3.RealVal(tol))))
                    results['%s %s order %d: %s' % (name, which, p, cname)] = 'unsat' if str(sol.check()) == 'unsat' else 'sat'
            run.record_queries('order-conditions', results, bound={'method': name, 'weights': which, 'documented order': order, 'tolerance': '1e-8'},
                               sample={'method': name, 'weights': which, 'order': order})
            bad = [(k, float([r for p in res for (cn, r) in res[p] if k.endswith(cn) and (' order %d:' % p) in k][0])) for k, v in results.items() if v == 'sat']
            if bad:
                rp = realbuild.run_real(REPLAY_ORDER, {'method': name, 'kind': 'dirk', 'weights': which, 'order': order}, only=[])
                run.report('coeffs_%s:%s' % (name, which), 'tableau %s (%s weights) violates order conditions up to documented order %d: %s'
                           % (name, which, order, ['%s residual %.3g' % (k.split(': ')[1], v) for k, v in bad]),
                           {'kind': 'order', 'method': name, 'weights': which, 'order': order, 'family': 'dirk'}, rp['reproduced'])
    for name in ROS:
        A, Gamma, b, b_hat, err_order = ns['coeffs_' + name]()
        for which, bvec, order in (('main', b, err_order + 1), ('embedded', b_hat, err_order)):
            res = ros_order_residuals(np.asarray(A).tolist(), np.asarray(Gamma).tolist(), list(bvec))
            results = {}
            for p in range(1, min(order, 4) + 1):
                for cname, r in res[p]:
                    sol = z3.Solver(); rr = z3.RealVal(r)
                    sol.add(z3.Not(z3.And(rr <= z3.RealVal(tol), -rr <= z3.RealVal(tol))))
                    results['%s %s order %d: %s' % (name, which, p, cname)] = 'unsat' if str(sol.check()) == 'unsat' else 'sat'
            run.record_queries('order-conditions', results, bound={'method': name, 'weights': which, 'order (err_order%s)' % ('+1' if which == 'main' else ''): order})
            bad = [k for k, v in results.items() if v == 'sat']
            if bad:
                rp = realbuild.run_real(REPLAY_ORDER, {'method': name, 'kind': 'ros', 'weights': which, 'order': order}, only=[])
                run.report('coeffs_%s:%s' % (name, which), 'Rosenbrock tableau %s (%s weights) violates order conditions up to order %d: %s' % (name, which, order, bad),
                           {'kind': 'order', 'method': name, 'weights': which, 'order': order, 'family': 'ros'}, rp['reproduced'])


REPLAY_ORDER = r'''
import sys, json, numpy as np
w = json.load(sys.stdin)
from pyiga import solvers
# concrete confirmation on the real module: integrate y' = 1 (order 1) and y' = t via the autonomous system (y, t)' = (t, 1) (order 2),
# y' = t^2 (order 3) with ONE real step and compare with the exact solution
name = w['method']
c = getattr(solvers, 'coeffs_' + name)() if hasattr(solvers, 'coeffs_' + name) else None
tau = 0.5
M = np.eye(2)
res = {}
for q in range(0, w['order']):
    Ff = lambda y, q=q: np.array([y[1] ** q, 1.0])
    Jf = lambda y, q=q: np.array([[0.0, q * y[1] ** (q - 1) if q else 0.0], [0.0, 0.0]])
    x = np.array([0.0, 0.0])
    if w['kind'] == 'dirk':
        A = np.asarray(c[0] if isinstance(c, tuple) else c) if c is not None else None
        out = solvers.dirk_step(A, M, Ff, Jf, x, tau)
        y = out[0] if w['weights'] == 'main' else out[1]
    else:
        A, Gamma, b, b_hat, eo = c
        out = solvers.rosenbrock_step(A, Gamma, b, b_hat, M, Ff, Jf, x, tau, dict())
        y = out[0] if w['weights'] == 'main' else out[1]
    exact = tau ** (q + 1) / (q + 1)
    res['int t^%d' % q] = float(y[0] - exact)
bad = {k: v for k, v in res.items() if abs(v) > 1e-7}
print(json.dumps({'reproduced': bool(bad), 'errors': res}))
'''


# ------------------------------------------------------------------------------------------
class _Step:
    pass


def const_driver_harness(ns, maxsteps):
    def run(c):
        t0 = Sym(z3.Real('t0')); tend = Sym(z3.Real('tend')); tau = Sym(z3.Real('tau'))
        c.assume(z3.And(tau.t > 0, tend.t > t0.t, (tend.t - t0.t) <= maxsteps * tau.t))
        calls = []
        def stepper(M, Fn, Jn, x, tau_, data, Fx=None):
            xn = c.fresh('xs'); fn = c.fresh('fs'); calls.append((x, tau_, xn, Fx, fn, data)); return xn, fn
        method = ns['_constant_step_method'](stepper)
        x0 = Sym(z3.Real('x0'))
        times, sols = method(None, None, None, x0, tau, tend, t0=t0)
        k = len(calls)
        props = [z3.BoolVal(len(times) == len(sols) == k + 1)]
        for i, t in enumerate(times):
            props.append(lift(t) == t0.t + i * tau.t)
        props.append(lift(sols[0]) == x0.t)
        for i in range(k):
            props += [lift(sols[i + 1]) == calls[i][2].t, lift(calls[i][0]) == lift(sols[i]), lift(calls[i][1]) == tau.t]
            # cached right-hand side: None for the first step, afterwards exactly what the previous step returned for the state it produced
            props.append(z3.BoolVal(calls[i][3] is None) if i == 0 else z3.BoolVal(calls[i][3] is calls[i - 1][4]))
            props.append(z3.BoolVal(isinstance(calls[i][5], dict) and calls[i][5] is calls[0][5]))
        # covers the interval: last time >= t_end, previous < t_end
        props.append(lift(times[-1]) >= tend.t)
        if k >= 1: props.append(lift(times[-2]) < tend.t)
        c.check(z3.And(*props), 'constant-step driver: times t0 + k tau, one state per time, reaches t_end')
        c.witness('const')
    return run


def adaptive_driver_harness(ns, maxcalls, err_order):
    def run(c):
        t0 = Sym(z3.Real('t0')); tend = Sym(z3.Real('tend')); tau0 = Sym(z3.Real('tau0')); tol = Sym(z3.Real('tol')); sf = Sym(z3.Real('sf'))
        c.assume(z3.And(tau0.t > 0, tend.t > t0.t, tol.t > 0, sf.t > 0))
        calls = []
        nrm = ns['_norm']; del nrm.log[:]
        def stepper(M, Fn, Jn, x, tau_, data, Fx=None):
            if len(calls) >= maxcalls:
                raise sx.PathAbort()         # bound: at most `maxcalls` step attempts are explored
            fail = bool(c.fresh('fail', 'bool'))
            calls.append({'x': x, 'tau': tau_, 'fail': fail, 'Fx': Fx, 'data': data})
            if fail:
                raise ns['NoConvergenceError']('newton', 1, x)
            xn = np.array([c.fresh('xn')], dtype=object); xh = np.array([c.fresh('xh')], dtype=object)
            fn = np.array([c.fresh('fn')], dtype=object)
            calls[-1].update(xn=xn, xh=xh, fn=fn)
            return xn, xh, fn
        method = ns['_adaptive_step_method'](stepper, err_order, None)
        x0 = np.array([Sym(z3.Real('x0'))], dtype=object)
        times, sols = method(None, None, None, x0, tau0, tend, tol, t0=t0, step_factor=sf)
        props = [z3.BoolVal(len(times) == len(sols))]
        for a, b in zip(times, times[1:]):
            props.append(lift(b) > lift(a))
        props.append(lift(times[-1]) >= tend.t)
        # accepted steps: exactly the successful attempts whose scaled error r <= 1
        ok_calls = [cl for cl in calls if not cl['fail']]
        norms = nrm.log
        acc = 0
        for cl, (arg, nv) in zip(ok_calls, norms):
            r = lift(nv) / math.sqrt(1)
            taken = any(s is cl['xn'] for s in sols)
            props.append(z3.BoolVal(taken) == z3.Or(r <= 1))
            # the norm argument is the scaled difference (xhat - xnew) / (tol + tol |x|)
            xx = lift(cl['x'][0]); d = tol.t + tol.t * z3.If(xx >= 0, xx, -xx)
            props.append(lift(arg.ravel()[0]) == (lift(cl['xh'][0]) - lift(cl['xn'][0])) / d)
        # cached right-hand side handed to the stepper belongs to the state handed to it: None while x is the initial value,
        # otherwise the F(x_new) returned by the accepted attempt that produced x (never that of a rejected attempt)
        for cl in calls:
            if cl['x'] is x0:
                props.append(z3.BoolVal(cl['Fx'] is None))
            else:
                src = [o for o in ok_calls if o['xn'] is cl['x']]
                props.append(z3.BoolVal(len(src) == 1 and cl['Fx'] is src[0]['fn']))
            props.append(z3.BoolVal(isinstance(cl['data'], dict) and cl['data'] is calls[0]['data']))
        # step size changes by a factor in [0.2, 5] after an attempt, 0.5 after a failed nonlinear solve
        for a, b in zip(calls, calls[1:]):
            ta, tb = lift(a['tau']), lift(b['tau'])
            if a['fail']:
                props.append(tb == ta * z3.RealVal(F(1, 2)))
            else:
                props.append(z3.And(tb >= ta * z3.RealVal(F(1, 5)), tb <= ta * 5))
        c.check(z3.And(*props), 'adaptive driver: increasing times, steps accepted iff r <= 1, step factor in [0.2, 5] (0.5 on failure)')
        c.witness('adaptive')
    return run


def fallback_driver_harness(ns, maxsteps):
    """adaptive-capable method called with tol=None: constant steps t0 + k tau starting at the given t0"""
    def run(c):
        t0 = Sym(z3.Real('t0')); tend = Sym(z3.Real('tend')); tau = Sym(z3.Real('tau'))
        c.assume(z3.And(tau.t > 0, tend.t > t0.t, (tend.t - t0.t) <= maxsteps * tau.t))
        calls = []
        def stepper(M, Fn, Jn, x, tau_, data, Fx=None):
            xn = c.fresh('xs'); calls.append((x, tau_, xn)); return xn, None
        const = ns['_constant_step_method'](stepper)
        method = ns['_adaptive_step_method'](stepper, 2, const)
        x0 = Sym(z3.Real('x0'))
        times, sols = method(None, None, None, x0, tau, tend, None, t0=t0)
        k = len(calls)
        props = [z3.BoolVal(len(times) == len(sols) == k + 1), lift(sols[0]) == x0.t]
        for i, t in enumerate(times): props.append(lift(t) == t0.t + i * tau.t)
        props.append(lift(times[-1]) >= tend.t)
        if k >= 1: props.append(lift(times[-2]) < tend.t)
        c.check(z3.And(*props), 'adaptive method with tol=None: constant steps t0 + k tau from the GIVEN initial time up to t_end')
        c.witness('fallback')
    return run


def newton_harness(ns, n, maxiter, freeze):
    def run(c):
        nrm = ns['_norm']; del nrm.log[:]
        evals = []
        def Fn(x):
            r = np.array([c.fresh('res') for _ in range(n)], dtype=object)
            evals.append((np.array(x, dtype=object, copy=True), r)); return r
        def Jn(x):
            return sx.symarray('J%d' % len(evals), (n, n))
        x0 = sx.symarray('x0', (n,))
        atol = Sym(z3.Real('atol')); rtol = Sym(z3.Real('rtol')); c.assume(z3.And(atol.t > 0, rtol.t > 0))
        raised = False
        try:
            x = ns['_real_newton'](Fn, Jn, x0, atol=atol, rtol=rtol, maxiter=maxiter, freeze_jac=freeze)
        except ns['NoConvergenceError']:
            raised = True
        # norms logged: [norm(F(x0)) for target], then one per convergence test
        norms = nrm.log
        n0 = lift(norms[0][1])
        target = z3.If(atol.t >= rtol.t * n0, atol.t, rtol.t * n0)
        if not raised:
            # the returned point is the argument of the last residual evaluation and that residual met the target
            xl, rl = evals[-1]
            last_norm_arg, last_norm = norms[-1]
            props = [sx.eq_arrays(x, xl), sx.eq_arrays(last_norm_arg, rl), lift(last_norm) < target]
            c.check(z3.And(*props), 'newton returns only points whose residual norm is below max(atol, rtol |F(x0)|)')
        else:
            # every tested residual failed the test, and exactly maxiter updates were made
            props = [z3.BoolVal(len(evals) == maxiter + 1)]
            for (arg, nv) in norms[1:]:
                props.append(z3.Not(lift(nv) < target))
            c.check(z3.And(*props), 'newton raises only after maxiter failed convergence tests')
        c.witness('newton')
    return run


# ------------------------------------------------------------------------------------------
def main():
    run = Run(PID, level='other', description='Stage equations of DIRK/Rosenbrock steps on symbolic affine problems, order conditions of the shipped tableaux, '
                                              'drivers and Newton against unconstrained stubs.')
    thorough = run.tier == 'thorough'
    enc = srcload.Encoded()
    ns = load_solvers(enc)
    run.add_encoded(enc)
    run.stubs += ['make_solver(B) -> operator returning SOME y with B y = r (no inverse computed)',
                  'newton inside dirk_step -> its contract: returns y with F(y) = 0 for the real closure newton_F',
                  'np.linalg.norm -> fresh n >= 0 (defining constraint not needed by the driver obligations)',
                  'stepper / F / J in driver obligations -> unconstrained fresh outputs', 'progress bar -> real no-op _DummyPbar']
    run.assumptions += ['reals for doubles; tableau constants at the exact rational value of the floats',
                        'order-condition tolerance 1e-8 (printed literature constants are truncated to 10-16 digits)',
                        'Rosenbrock documented order: embedded = err_order returned by coeffs_*, main = err_order + 1 (interpretation, see DESIGN)',
                        "y' = const exactness stated with relative tolerance 1e-9"]
    run.out_of_scope += ['nonlinear F (Newton tolerance)', 'stability', 'termination of adaptive drivers with adversarial steppers', 'real LU/Cholesky solves']
    run.bounds = {'problem size': '1x1 and 2x2 systems (M, K, g, x, tau symbolic)', 'drivers': '<= 4 steps / <= 4 step attempts', 'newton': 'maxiter <= 3, n <= 2'}
    if run.want('stages'):
        for name in DIRK:
            for n in (1, 2):
                for with_M in (True, False):
                    for pass_Fx in ((False, True) if n == 1 else (False,)):
                        if (not thorough) and n == 2 and not with_M: continue
                        st = sx.explore(dirk_harness(ns, name, n, with_M, pass_Fx), timeout_ms=60000, eqs_first=True)
                        bound = {'method': name, 'n': n, 'mass matrix': with_M, 'Fx passed': pass_Fx}
                        run.absorb(st, 'dirk-stage-equations', bound=bound, sample={'obligation': 'dirk stage equations', **bound})
                        for cex in st.cex:
                            if 'const integrated exactly' in cex['name'] or 'b_i' in cex['name'] or 'bhat' in cex['name']:
                                which = 'embedded' if 'bhat' in cex['name'] or 'x_est' in cex['name'] else 'main'
                                rp = realbuild.run_real(REPLAY_ORDER, {'method': name, 'kind': 'dirk', 'weights': which, 'order': 1}, only=[])
                                if rp['reproduced']:
                                    run.report('coeffs_%s:%s' % (name, which), '%s: %s (one real step of y\'=1: error %s)' % (name, cex['name'], rp.get('errors')),
                                               {'kind': 'order', 'method': name, 'weights': which, 'order': 1, 'family': 'dirk'}, True)
                                else:   # the tableau is consistent: the step routine itself combines the stages wrongly (e.g. state shared between calls)
                                    run.report('dirk_step:%s:%s' % (name, cex['name'][:30]), '%s: %s fails; model %s' % (name, cex['name'], jsonable(sx.model_dict(cex['model']))),
                                               {'kind': 'stage', 'method': name, 'model': jsonable(sx.model_dict(cex['model']))}, replay_stage(name, 'dirk'))
                            else:
                                run.report('dirk_step:%s:%s' % (name, cex['name'][:30]), '%s: %s fails; model %s' % (name, cex['name'], jsonable(sx.model_dict(cex['model']))),
                                           {'kind': 'stage', 'method': name, 'model': jsonable(sx.model_dict(cex['model']))}, replay_stage(name, 'dirk'))
        for name in ROS:
            for n in (1, 2):
                for wb in (True, False):
                    if (not thorough) and n == 2 and not wb: continue
                    st = sx.explore(ros_harness(ns, name, n, wb), timeout_ms=60000, eqs_first=True)
                    bound = {'method': name, 'n': n, 'embedded': wb}
                    run.absorb(st, 'rosenbrock-stage-equations', bound=bound, sample={'obligation': 'rosenbrock stage equations', **bound})
                    for cex in st.cex:
                        run.report('rosenbrock_step:%s:%s' % (name, cex['name'][:30]), '%s: %s fails' % (name, cex['name']),
                                   {'kind': 'stage', 'method': name, 'family': 'ros'}, replay_stage(name, 'ros'))
        for name in (ROS if thorough else ROS[:2]):
            st = sx.explore(ros_sequence_harness(ns, name, 1), timeout_ms=60000, eqs_first=True)
            bound = {'method': name, 'n': 1, 'steps': 2, 'shared': 'data dict + Jacobian buffer'}
            run.absorb(st, 'rosenbrock-step-sequence', bound=bound, sample={'obligation': 'rosenbrock steps are independent of remembered state', **bound})
            for cex in st.cex:
                rr = realbuild.run_real(REPLAY_ROSSEQ, {'methods': list(ROS)}, only=[])
                run.report('rosenbrock_step:sequence', '%s: %s; real run: %s' % (name, cex['name'], rr['bad'][:3]), {'kind': 'rosseq'}, rr['reproduced'])
                break
    if run.want('order'):
        order_queries(run, ns)
    if run.want('drivers'):
        st = sx.explore(const_driver_harness(ns, 4), timeout_ms=30000)
        run.absorb(st, 'constant-step driver', bound={'steps': '<= 4'}, sample={'obligation': 'constant-step driver'})
        for cex in st.cex:
            rd = replay_driver()
            run.report('_constant_step_method', '%s: %s; real run: %s' % (cex['name'], jsonable(sx.model_dict(cex['model'])), rd['bad']), {'kind': 'driver'}, rd['reproduced'])
        st = sx.explore(fallback_driver_harness(ns, 4), timeout_ms=30000)
        run.absorb(st, 'adaptive method with tol=None', bound={'steps': '<= 4', 't0': 'symbolic'}, sample={'obligation': 'tol=None fallback keeps t0'})
        for cex in st.cex:
            rd = replay_driver()
            run.report('_adaptive_step_method:fallback', '%s: %s; real run: %s' % (cex['name'], jsonable(sx.model_dict(cex['model'])), rd['bad']), {'kind': 'driver'}, rd['reproduced'])
        for eo in (1, 2, 3):
            st = sx.explore(adaptive_driver_harness(ns, 3 if not thorough else 4, eo), timeout_ms=30000, max_paths=100000)
            run.absorb(st, 'adaptive driver', bound={'step attempts': '<= %d' % (3 if not thorough else 4), 'err_order': eo}, sample={'obligation': 'adaptive driver', 'err_order': eo})
            for cex in st.cex:
                rd = replay_driver()
                run.report('_adaptive_step_method', '%s: %s; real run: %s' % (cex['name'], jsonable(sx.model_dict(cex['model'])), rd['bad']), {'kind': 'driver'}, rd['reproduced'])
        for (n, mi, fz) in [(1, 1, 1), (1, 3, 1), (2, 2, 2), (1, 3, 2)]:
            st = sx.explore(newton_harness(ns, n, mi, fz), timeout_ms=30000)
            run.absorb(st, 'newton', bound={'n': n, 'maxiter': mi, 'freeze_jac': fz}, sample={'obligation': 'newton', 'n': n, 'maxiter': mi})
            for cex in st.cex:
                run.report('newton', '%s: %s' % (cex['name'], jsonable(sx.model_dict(cex['model']))), {'kind': 'driver'}, True)
    if not run.args.no_canaries and run.want('stages'):
        src = srcload.read('pyiga/solvers.py')
        def canary(name, pat, rep, harness):
            if pat not in src:
                run.canary(name, False, skipped=True); return
            ns2 = load_solvers(transform=lambda s: s.replace(pat, rep, 1))
            st = sx.explore(harness(ns2), timeout_ms=30000, eqs_first=True)
            run.canary(name, bool(st.cex))
        canary('dirk: stage sum skips last earlier stage', 'terms = tau * sum(A[i,j] * Fy[j] for j in range(i))', 'terms = tau * sum(A[i,j] * Fy[j] for j in range(i-1))',
               lambda n2: dirk_harness(n2, 'sdirk3', 1, True, False))
        canary('dirk: Fy caches F at the wrong point', 'Fy.append(last_Fz)', 'Fy.append(F(x))', lambda n2: dirk_harness(n2, 'sdirk3', 1, True, False))
        canary('rosenbrock: Gamma term sign', 'rhs += tau * jac.dot(w_i)', 'rhs -= tau * jac.dot(w_i)', lambda n2: ros_harness(n2, 'ros3p', 1, True))
        # tableau constants are caught by the order conditions (the stage equations hold for ANY tableau)
        for cname, pat, rep, meth in [('sdirk3 tableau entry', '[(1-gamma)/2, gamma,  0.0],', '[(1-gamma)/3, gamma,  0.0],', 'sdirk3'),
                                      ('esdirk34 b_hat digit', '0.61667803039212146434', '0.61667903039212146434', 'esdirk34'),
                                      ('ros3pw gamma_32 sign', 'g32 = -1.7075317547305482e-01', 'g32 = 1.7075317547305482e-01', 'ros3pw')]:
            if pat not in src:
                run.canary(cname, False, skipped=True); continue
            ns2 = load_solvers(transform=lambda s, pat=pat, rep=rep: s.replace(pat, rep, 1))
            run.canary(cname, bool(order_violations(ns2, meth)))
        canary('adaptive: accept test', 'if r <= 1:', 'if r <= 2:', lambda n2: adaptive_driver_harness(n2, 3, 2))
        canary('newton: returns without test', 'if np.linalg.norm(res) < target:    # converged?', 'if np.linalg.norm(res) < 2 * target:    # converged?', lambda n2: newton_harness(n2, 1, 2, 1))
    run.finish()


REPLAY_DRIVER = r"""
import sys, json, numpy as np
w = json.load(sys.stdin)
from pyiga import solvers
bad = []
# constant-step driver and the tol=None fallback of adaptive-capable methods: times t0 + k tau from the given t0
for t0, tau, tend in ((0.0, 0.25, 1.0), (2.0, 0.1, 2.5), (-1.0, 0.5, 0.25)):
    calls = []
    def stepper(M, F, J, x, tau_, data, Fx=None):
        calls.append((x.copy(), tau_, Fx)); xn = x + 1.0; return xn, np.array([float(len(calls))])
    const = solvers._constant_step_method(stepper)
    for nm, meth, args in (('constant', const, ()), ('adaptive(tol=None)', solvers._adaptive_step_method(lambda *a, **k: stepper(*a, **k) + (None,), 2, const), (None,))):
        del calls[:]
        times, sols = meth(None, None, None, np.zeros(1), tau, tend, *args, t0=t0)
        k = int(np.ceil((tend - t0) / tau - 1e-12))
        if len(times) != k + 1 or not np.allclose(times, t0 + tau * np.arange(k + 1)): bad.append('%s driver: times %s for t0=%g tau=%g t_end=%g' % (nm, np.round(times, 6).tolist()[:8], t0, tau, tend))
        for i, (x, tau_, Fx) in enumerate(calls):
            if (i == 0) != (Fx is None): bad.append('%s driver: cached F at step %d' % (nm, i)); break
            if i > 0 and float(Fx[0]) != float(i): bad.append('%s driver: cached F at step %d is not the one returned for the current state' % (nm, i)); break
# adaptive driver: acceptance rule and the cached right-hand side after rejected steps
for pattern in ([0.5, 2.0, 0.5, 0.5], [3.0, 0.2, 0.9, 0.3], [0.1, 0.1, 0.1]):     # (net step-size growth per cycle, so every run terminates)
    calls = []; tol = 1e-2
    def stepper(M, F, J, x, tau_, data, Fx=None):
        r = pattern[len(calls) % len(pattern)]
        if len(calls) > 2000: raise RuntimeError('replay stepper called too often')
        xn = x + tau_; d = tol + tol * np.abs(x); xh = xn + r * d * np.sqrt(len(x))
        tag = np.array([100.0 + len(calls)])
        calls.append({'x': x.copy(), 'Fx': Fx, 'r': r, 'tag': tag, 'xn': xn})
        return xn, xh, tag
    meth = solvers._adaptive_step_method(stepper, 2, None)
    times, sols = meth(None, None, None, np.zeros(1), 0.1, 0.5, tol, t0=0.0)
    accepted = [c for c in calls if c['r'] <= 1]
    if len(sols) != len(accepted) + 1 or any(b <= a for a, b in zip(times, times[1:])): bad.append('adaptive driver: accepted steps / times inconsistent with the error test')
    last = None
    for c in calls:
        want = None if last is None else last['tag']
        if (c['Fx'] is None) != (want is None) or (want is not None and float(c['Fx'][0]) != float(want[0])):
            bad.append('adaptive driver: cached F handed to the stepper does not belong to the current state (after a rejected step)'); break
        if c['r'] <= 1: last = c
# step-size factors stay within the safety bounds [0.2, 5], also when the error estimate is far off in either direction
for pattern in ([1e6, 1e-9, 0.5, 0.5], [1e-12, 40.0, 1e-12, 0.9]):      # (net growth per cycle: every run terminates)
    taus = []; tol = 1e-2
    def stepper(M, F, J, x, tau_, data, Fx=None):
        r = pattern[len(taus) % len(pattern)]
        if len(taus) > 2000: raise RuntimeError('replay stepper called too often')
        taus.append(tau_)
        xn = x + tau_; d = tol + tol * np.abs(x)
        return xn, xn + r * d * np.sqrt(len(x)), np.zeros(1)
    meth = solvers._adaptive_step_method(stepper, 2, None)
    times, sols = meth(None, None, None, np.zeros(1), 0.1, 3.0, tol, t0=0.0)
    ratios = [b / a for a, b in zip(taus, taus[1:])]
    off = [q for q in ratios if not (0.2 - 1e-12 <= q <= 5.0 + 1e-12)]
    if off: bad.append('adaptive driver: step changed by factor %.4g (outside [0.2, 5])' % off[0])
print(json.dumps({'reproduced': bool(bad), 'bad': bad[:5]}))
"""


def replay_driver():
    r = realbuild.run_real(REPLAY_DRIVER, {}, only=[])
    return r


def replay_stage(name, family):
    """stage-equation counterexamples are confirmed on the real module with a concrete linear problem and exact stage oracle"""
    r = realbuild.run_real(REPLAY_STAGE, {'method': name, 'family': family}, only=[])
    return r['reproduced']


REPLAY_STAGE = r'''
import sys, json, numpy as np
w = json.load(sys.stdin)
from pyiga import solvers
rng = np.random.RandomState(5)
n = 2
M = np.eye(n) + 0.1 * rng.rand(n, n); M = M @ M.T; K = -(np.eye(n) + 0.3 * rng.rand(n, n)); g = rng.rand(n); x = rng.rand(n); tau = 0.1
Ff = lambda y: K @ y + g; Jf = lambda y: K
name = w['method']
bad = False
if w['family'] == 'dirk':
    c = getattr(solvers, 'coeffs_' + name)() if hasattr(solvers, 'coeffs_' + name) else np.array([[0, 0], [.5, .5], [.5, .5]])
    A = np.asarray(c[0] if isinstance(c, tuple) else c, dtype=float); s = A.shape[1]
    out = solvers.dirk_step(A, M, Ff, Jf, x.copy(), tau)
    # same step in the other admissible calling forms: explicit data=None, and after an unrelated earlier direct call with a
    # different mass matrix (no data dict passed, so nothing may be shared between the calls)
    try:
        out_none = solvers.dirk_step(A, M, Ff, Jf, x.copy(), tau, data=None)
        M0 = 3.0 * np.eye(n) + rng.rand(n, n)
        solvers.dirk_step(A, M0, Ff, Jf, x.copy(), tau)
        out_second = solvers.dirk_step(A, M, Ff, Jf, x.copy(), tau)
        variants = [out_none, out_second]
    except Exception as e:
        variants = None
    # exact stage oracle: solve the full linear stage system
    S = np.zeros((s * n, s * n)); rhs = np.zeros(s * n)
    for i in range(s):
        S[i*n:(i+1)*n, i*n:(i+1)*n] += M
        rhs[i*n:(i+1)*n] = M @ x + tau * sum(A[i, j] for j in range(s)) * g
        for j in range(s):
            S[i*n:(i+1)*n, j*n:(j+1)*n] -= tau * A[i, j] * K
    Y = np.linalg.solve(S, rhs).reshape(s, n)
    xn = np.linalg.solve(M, M @ x + tau * sum(A[s, i] * Ff(Y[i]) for i in range(s)))
    bad = not np.allclose(out[0], xn, rtol=1e-5, atol=1e-7)
    if A.shape[0] == s + 2:      # embedded weights: second returned vector
        xe = np.linalg.solve(M, M @ x + tau * sum(A[s + 1, i] * Ff(Y[i]) for i in range(s)))
        if not np.allclose(out[1], xe, rtol=1e-5, atol=1e-7): bad = True
    if variants is None: bad = True
    else:
        for v in variants:
            for a, b_ in zip(v[:-1], out[:-1]):
                if not np.allclose(a, b_, rtol=1e-9, atol=1e-12): bad = True
else:
    A, Gamma, b, b_hat, eo = getattr(solvers, 'coeffs_' + name)()
    out = solvers.rosenbrock_step(A, Gamma, b, b_hat, M, Ff, Jf, x.copy(), tau, dict())
    s = A.shape[0]; gam = Gamma[0, 0]; ks = []
    for i in range(s):
        yi = x + tau * sum(A[i, j] * ks[j] for j in range(i))
        r = Ff(yi) + (tau * K @ sum(Gamma[i, j] * ks[j] for j in range(i)) if i else 0)
        ks.append(np.linalg.solve(M - tau * gam * K, r))
    xn = x + tau * sum(b[i] * ks[i] for i in range(s))
    bad = not np.allclose(out[0], xn, rtol=1e-8)
print(json.dumps({'reproduced': bool(bad)}))
'''


def replay_file(path):
    w = json.load(open(path))['witness']
    if w.get('kind') == 'order':
        r = realbuild.run_real(REPLAY_ORDER, {'method': w['method'], 'kind': w['family'], 'weights': w['weights'], 'order': w['order']}, only=[])
    elif w.get('kind') == 'stage':
        r = realbuild.run_real(REPLAY_STAGE, {'method': w['method'], 'family': w.get('family', 'dirk')}, only=[])
    else:
        r = {'reproduced': True}
    print(json.dumps(r)); print('REPRODUCED' if r['reproduced'] else 'NOT-REPRODUCED')
    sys.exit(1 if r['reproduced'] else 0)


if __name__ == '__main__':
    if '--replay' in sys.argv:
        replay_file(sys.argv[sys.argv.index('--replay') + 1])
    main_wrapper(main)
