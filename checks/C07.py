"""C07 -- geometry maps evaluate consistently on every route and constructions are exact.

Encoded (exec'd from /repo source text at run time): pyiga/bspline.py  _parse_bdspec, tp_bsp_eval_pointwise,
tp_bsp_jac_pointwise, tp_bsp_eval_with_jac_pointwise, _BaseGeoFunc, _BaseSplineFunc, BSplineFunc;  pyiga/geometry.py
_nurbs_jacobian, NurbsFunc, UserFunction, ComposedFunction, _BoundaryFunction, all constructors and operations;
pyiga/utils.py grid_eval helpers; pyiga/tensor.py apply_tprod.  Basis values come from the abstract-basis stub of
checks/geo_common.py (contract = what C02 proves about the real routines) or, for the circle constructions, from the real
collocation code + transliterated bspline_cy kernels.
"""
import itertools, json, sys, time
from fractions import Fraction as F
import numpy as np
import z3

from checks.common import Run, main_wrapper, jsonable
from checks import realbuild
from checks import geo_common as G
from checks.geo_common import AKV
from symx import core as sx
from symx.core import Sym, lift
from symx.symnp import SymNP
from symx import srcload

PID = 'C07'


def S(name): return Sym(z3.Real(name))


def arr1(x):
    a = np.empty(1, dtype=object); a[0] = x
    return a


def mk_kvs(sdim, ps, ns, tag='kv'):
    return tuple(AKV('%s%d' % (tag, d), ps[d], ns[d]) for d in range(sdim))


def R(a, shape):
    a = np.asarray(a, dtype=object)
    try:
        return a.reshape(shape)
    except ValueError:
        return a        # wrong number of entries: the comparison with the reference then fails on the shape


# =========================================================================================== routes

def bspline_routes(bs, sdim, trail, ps, ns, hess=True):
    def run(c):
        G.set_world(c)
        kvs = mk_kvs(sdim, ps, ns)
        C = sx.symarray('C', tuple(ns) + trail)
        f = bs['BSplineFunc'](kvs, C)
        nodes = [S('x%d' % d) for d in range(sdim)]             # knot-vector order (x LAST)
        grid = tuple(arr1(x) for x in nodes)
        xyz = list(reversed(nodes))
        pts = tuple(arr1(x) for x in xyz)
        ref = G.bsp_value(kvs, C, nodes)
        c.check(G.eq(R(f.grid_eval(grid), np.shape(ref)), ref), 'BSplineFunc.grid_eval = sum of basis products x coefficients')
        c.check(G.eq(R(f.eval(*xyz), np.shape(ref)), ref), 'BSplineFunc.eval (single point, xyz order) = grid route')
        c.check(G.eq(R(f(*xyz), np.shape(ref)), ref), 'BSplineFunc.__call__ = grid route')
        c.check(G.eq(R(f.pointwise_eval(pts), np.shape(ref)), ref), 'BSplineFunc.pointwise_eval (scattered) = grid route')
        jr = G.bsp_jac(kvs, C, nodes)
        c.check(G.eq(R(f.grid_jacobian(grid), jr.shape), jr), 'BSplineFunc.grid_jacobian = derivative, x column first')
        c.check(G.eq(R(f.pointwise_jacobian(pts), jr.shape), jr), 'BSplineFunc.pointwise_jacobian = grid_jacobian')
        v2, j2 = bs['tp_bsp_eval_with_jac_pointwise'](kvs, C, pts)
        c.check(z3.And(G.eq(R(v2, np.shape(ref)), ref), G.eq(R(j2, jr.shape), jr)), 'tp_bsp_eval_with_jac_pointwise = (value, Jacobian)')
        if hess and len(trail) <= 1:
            hr = G.bsp_hess(kvs, C, nodes)
            c.check(G.eq(R(f.grid_hessian(grid), hr.shape), hr), 'BSplineFunc.grid_hessian = second derivatives in (xx,xy,xz,yy,yz,zz) order')
        c.witness('bspline routes')
    return run


def bspline_multi(bs, sdim, trail, ps, ns):
    """two grid nodes on one axis / two scattered points: result ordering"""
    def run(c):
        G.set_world(c)
        kvs = mk_kvs(sdim, ps, ns)
        C = sx.symarray('C', tuple(ns) + trail)
        f = bs['BSplineFunc'](kvs, C)
        nodes = [[S('x%d_%d' % (d, k)) for k in range(2 if d == 0 else 1)] for d in range(sdim)]
        grid = tuple(np.array(nd + [None], dtype=object)[:-1] for nd in nodes)
        ge = f.grid_eval(grid); gj = f.grid_jacobian(grid)
        for k in range(2):
            nd = [nodes[0][k]] + [nodes[d][0] for d in range(1, sdim)]
            ref = G.bsp_value(kvs, C, nd); jr = G.bsp_jac(kvs, C, nd)
            idx = (k,) + (0,) * (sdim - 1)
            c.check(G.eq(R(ge[idx], np.shape(ref)), ref), 'grid_eval: grid index order')
            c.check(G.eq(R(gj[idx], jr.shape), jr), 'grid_jacobian: grid index order')
        # scattered: two points with independent coordinates, given as (2,) arrays in xyz order
        P = [[S('p%d_%d' % (d, k)) for k in range(2)] for d in range(sdim)]     # P[d] = coordinates along kvs[d]
        pts = tuple(np.array(P[sdim - 1 - cdim] + [None], dtype=object)[:-1] for cdim in range(sdim))
        pe = f.pointwise_eval(pts); pj = f.pointwise_jacobian(pts)
        for k in range(2):
            nd = [P[d][k] for d in range(sdim)]
            ref = G.bsp_value(kvs, C, nd); jr = G.bsp_jac(kvs, C, nd)
            c.check(G.eq(R(pe[k], np.shape(ref)), ref), 'pointwise_eval: point k uses the k-th coordinate of every axis')
            c.check(G.eq(R(pj[k], jr.shape), jr), 'pointwise_jacobian: point k uses the k-th coordinate of every axis')
        if sdim == 2 and trail == ():
            # a 2 x 2 block of points whose coordinate arrays are NOT C-contiguous (transposed views, one of them a strided slice):
            # the result must follow the logical index of the arrays, not their memory layout
            Q = [[[S('q%d_%d%d' % (d, i, j)) for j in range(2)] for i in range(2)] for d in range(sdim)]
            def noncontig(M, how):
                a = np.empty((2, 2), dtype=object)
                for i in range(2):
                    for j in range(2): a[j, i] = M[i][j]
                if how == 0: return a.T                      # Fortran-ordered view
                b = np.empty((2, 4), dtype=object); b[...] = 0
                for i in range(2):
                    for j in range(2): b[i, 2 * j] = M[i][j]
                return b[:, ::2]                             # strided view
            pts2 = tuple(noncontig(Q[sdim - 1 - cdim], cdim % 2) for cdim in range(sdim))
            pe2 = f.pointwise_eval(pts2); pj2 = f.pointwise_jacobian(pts2)
            for i in range(2):
                for j in range(2):
                    nd = [Q[d][i][j] for d in range(sdim)]
                    ref = G.bsp_value(kvs, C, nd); jr = G.bsp_jac(kvs, C, nd)
                    c.check(G.eq(R(pe2[i, j], np.shape(ref)), ref), 'pointwise_eval on non-contiguous 2-D coordinate arrays: entry (i,j) belongs to point (i,j)')
                    c.check(G.eq(R(pj2[i, j], jr.shape), jr), 'pointwise_jacobian on non-contiguous 2-D coordinate arrays: entry (i,j) belongs to point (i,j)')
        c.witness('bspline multi')
    return run


def nurbs_setup(geo, kvs, ns, dim, scalar, c, tag=''):
    """-> (f, Cv, Cw): NurbsFunc with premultiplied symbolic coefficients Cv (.., dim) and weights Cw"""
    Cw = sx.symarray(tag + 'W', tuple(ns))
    if scalar:
        Cv = sx.symarray(tag + 'V', tuple(ns))
        f = geo['NurbsFunc'](kvs, Cv.copy(), Cw.copy(), premultiplied=True)
        Cv = Cv[..., None]
    else:
        Cv = sx.symarray(tag + 'V', tuple(ns) + (dim,))
        full = np.concatenate((Cv, Cw[..., None]), axis=-1)
        f = geo['NurbsFunc'](kvs, full, None, premultiplied=True)
    for w in Cw.ravel(): c.assume(lift(w) != 0)
    return f, Cv, Cw


def nurbs_routes(geo, sdim, dim, scalar, ps, ns):
    """values on the abstract basis: NurbsFunc = numerator spline / weight spline on every route"""
    def run(c):
        G.set_world(c)
        kvs = mk_kvs(sdim, ps, ns)
        f, Cv, Cw = nurbs_setup(geo, kvs, ns, dim, scalar, c)
        nodes = [S('x%d' % d) for d in range(sdim)]
        grid = tuple(arr1(x) for x in nodes); xyz = list(reversed(nodes)); pts = tuple(arr1(x) for x in xyz)
        V = np.asarray(G.bsp_value(kvs, Cv, nodes), dtype=object).reshape(-1)       # (dim,)
        W = G.bsp_value(kvs, Cw, nodes)
        c.assume(lift(W) != 0)
        m = V.size
        N = R(f.grid_eval(grid), (m,))
        c.check(z3.And(*[lift(N[i] * W) == lift(V[i]) for i in range(m)]), 'NurbsFunc.grid_eval * weight spline = numerator spline')
        c.check(G.eq(R(f.eval(*xyz), (m,)), N), 'NurbsFunc.eval = grid route')
        c.check(G.eq(R(f.pointwise_eval(pts), (m,)), N), 'NurbsFunc.pointwise_eval = grid route')
        c.check(z3.BoolVal(f.is_scalar() == scalar and f.dim == (1 if scalar else dim) and f.sdim == sdim and f.output_shape() == (() if scalar else (dim,))), 'NurbsFunc metadata')
        if sdim == 1 and not scalar:
            # operation sequence on ONE object (the idiom geometry.disk() uses): evaluate derivatives, re-bind the coefficient array, evaluate again
            f.grid_jacobian(grid); f.grid_hessian(grid)
            Cv2 = sx.symarray('V2', tuple(ns) + (dim,)); Cw2 = sx.symarray('W2', tuple(ns))
            f.coeffs = np.concatenate((Cv2, Cw2[..., None]), axis=-1)
            V2 = R(G.bsp_value(kvs, Cv2, nodes), (dim,)); W2 = G.bsp_value(kvs, Cw2, nodes)
            Vj2 = R(G.bsp_jac(kvs, Cv2, nodes), (dim, sdim)); Wj2 = R(G.bsp_jac(kvs, Cw2, nodes), (sdim,))
            c.assume(lift(W2) != 0)
            N2 = R(f.grid_eval(grid), (dim,)); J2 = R(f.grid_jacobian(grid), (dim, sdim)); P2 = R(f.pointwise_jacobian(pts), (dim, sdim))
            c.check(z3.And(*[lift(N2[i] * W2) == lift(V2[i]) for i in range(dim)] + [lift(J2[i, a] * W2 + N2[i] * Wj2[a]) == lift(Vj2[i, a]) for i in range(dim) for a in range(sdim)]
                           + [G.eq(P2, J2)]), 'after re-binding .coeffs every route (values, grid and pointwise Jacobian) uses the new coefficients')
        c.witness('nurbs routes')
    return run


class AtomTable:
    """value / Jacobian / Hessian of the (numerator, weight) B-spline function as independent solver variables"""
    def __init__(self, c, sdim, m):
        self.sdim = sdim; self.m = m; nh = sdim * (sdim + 1) // 2
        self.val = sx.symarray('bv', (m,)); self.jac = sx.symarray('bj', (m, sdim)); self.hess = sx.symarray('bh', (m, nh))


_ATOMS = [None]


class AtomBSplineFunc:
    """stands for BSplineFunc(kvs, coeffs) inside NurbsFunc: its three grid routines return the atoms (single grid point).
    That the real BSplineFunc routines return the spline's value/derivatives is the 'routes:bspline' obligation."""
    def __init__(self, kvs, coeffs):
        self.sdim = len(kvs); self.coeffs = coeffs
    def _g(self): return (1,) * self.sdim
    def grid_eval(self, gridaxes): return _ATOMS[0].val.reshape(self._g() + (-1,))
    def grid_jacobian(self, gridaxes): return _ATOMS[0].jac.reshape(self._g() + _ATOMS[0].jac.shape)
    def grid_hessian(self, gridaxes): return _ATOMS[0].hess.reshape(self._g() + _ATOMS[0].hess.shape)


def _atom_eval_with_jac(kvs, coeffs, points):
    a = _ATOMS[0]
    return a.val.reshape((1,) + a.val.shape), a.jac.reshape((1,) + a.jac.shape)


def nurbs_calculus(geo_atoms, sdim, dim, scalar):
    """NurbsFunc.grid_jacobian / grid_hessian / pointwise_jacobian with the underlying B-spline jets as independent atoms:
    Leibniz relations (no quotient rule in the oracle), documented (xx,xy,xz,yy,yz,zz) linearisation, x column first"""
    def run(c):
        m = 1 if scalar else dim
        a = AtomTable(c, sdim, m + 1); _ATOMS[0] = a
        ns = [2] * sdim; kvs = mk_kvs(sdim, [1] * sdim, ns)
        Cw = sx.symarray('W', tuple(ns))
        if scalar:
            f = geo_atoms['NurbsFunc'](kvs, sx.symarray('V', tuple(ns)), Cw, premultiplied=True)
        else:
            f = geo_atoms['NurbsFunc'](kvs, np.concatenate((sx.symarray('V', tuple(ns) + (dim,)), Cw[..., None]), axis=-1), None, premultiplied=True)
        V, W = a.val[:m], a.val[m]; Vj, Wj = a.jac[:m], a.jac[m]; Vh, Wh = a.hess[:m], a.hess[m]
        c.assume(lift(W) != 0)
        nodes = [S('x%d' % d) for d in range(sdim)]
        grid = tuple(arr1(x) for x in nodes); pts = tuple(arr1(x) for x in reversed(nodes))
        N = np.array([Sym(lift(V[i]) / sx._toreal(lift(W))) for i in range(m)] + [None], dtype=object)[:-1]
        J = R(f.grid_jacobian(grid), (m, sdim))
        c.check(z3.And(*[lift(J[i, k] * W + N[i] * Wj[k]) == lift(Vj[i, k]) for i in range(m) for k in range(sdim)]),
                'NurbsFunc.grid_jacobian satisfies the Leibniz relation N_a W + N W_a = V_a')
        c.check(G.eq(R(f.pointwise_jacobian(pts), (m, sdim)), J), 'NurbsFunc.pointwise_jacobian = grid_jacobian')
        H = R(f.grid_hessian(grid), (m, sdim * (sdim + 1) // 2))
        pairs = [(p, q) for p in range(sdim) for q in range(p, sdim)]
        c.check(z3.And(*[lift(H[i, k] * W + J[i, p] * Wj[q] + J[i, q] * Wj[p] + N[i] * Wh[k]) == lift(Vh[i, k])
                         for i in range(m) for k, (p, q) in enumerate(pairs)]),
                'NurbsFunc.grid_hessian satisfies N_ab W + N_a W_b + N_b W_a + N W_ab = V_ab')
        c.witness('nurbs calculus')
    return run


def composed_routes(bs, geo, s1, m, k, inner_ns, outer_ns, outer_nurbs):
    def run(c):
        G.set_world(c)
        kv1 = mk_kvs(s1, [1] * s1, inner_ns, 'in')
        kv2 = mk_kvs(m, [1] * m, outer_ns, 'out')
        C1 = sx.symarray('A', tuple(inner_ns) + (m,))
        g1 = bs['BSplineFunc'](kv1, C1)
        if outer_nurbs:
            g2, Cv, Cw = nurbs_setup(geo, kv2, outer_ns, k, False, c, 'o')
        else:
            C2 = sx.symarray('B', tuple(outer_ns) + (k,)); g2 = bs['BSplineFunc'](kv2, C2)
        comp = geo['ComposedFunction'](g2, g1)
        nodes = [S('x%d' % d) for d in range(s1)]
        grid = tuple(arr1(x) for x in nodes)
        XY = R(g1.grid_eval(grid), (m,))            # inner value (route verified by the route obligations)
        nodes2 = [XY[m - 1 - d] for d in range(m)]  # outer knot-vector order: kvs2[d] <-> coordinate m-1-d
        if outer_nurbs:
            V = R(G.bsp_value(kv2, Cv, nodes2), (k,)); W = G.bsp_value(kv2, Cw, nodes2)
            c.assume(lift(W) != 0)
            val = R(comp.grid_eval(grid), (k,))
            c.check(z3.And(*[lift(val[i] * W) == lift(V[i]) for i in range(k)]), 'ComposedFunction.grid_eval = outer(inner(x))')
            J2 = R(g2.grid_jacobian(tuple(arr1(x) for x in nodes2)), (k, m))
        else:
            ref = R(G.bsp_value(kv2, C2, nodes2), (k,))
            val = R(comp.grid_eval(grid), (k,))
            c.check(G.eq(val, ref), 'ComposedFunction.grid_eval = outer(inner(x))')
            J2 = R(G.bsp_jac(kv2, C2, nodes2), (k, m))
        c.check(G.eq(R(comp.eval(*reversed(nodes)), (k,)), val), 'ComposedFunction.eval = grid route')
        J1 = R(G.bsp_jac(kv1, C1, nodes), (m, s1))
        Jc = R(comp.grid_jacobian(grid), (k, s1))
        c.check(G.eq(Jc, J2.dot(J1)), 'ComposedFunction.grid_jacobian = outer Jacobian at inner(x) times inner Jacobian')
        c.check(z3.BoolVal(comp.sdim == s1 and comp.dim == k and tuple(comp.support) == tuple(g1.support)), 'ComposedFunction metadata')
        c.witness('composed')
    return run


def boundary_function_routes(bs, geo, sdim, dim, kind):
    """support-restricted functions return a _BoundaryFunction; UserFunction boundaries likewise"""
    def run(c):
        G.set_world(c)
        ns = [2, 3, 2][:sdim]
        kvs = mk_kvs(sdim, [1] * sdim, ns)
        if kind == 'nurbs':
            f, Cv, Cw = nurbs_setup(geo, kvs, ns, dim, False, c)
        else:
            C = sx.symarray('C', tuple(ns) + (dim,)); f = bs['BSplineFunc'](kvs, C)
        supp = tuple((S('lo%d' % d), S('hi%d' % d)) for d in range(sdim))
        f.support = supp
        c.check(z3.BoolVal(tuple(f.support) == supp), 'support setter/getter')
        for axis in range(sdim):
            for side in (0, 1):
                g = f.boundary((axis, side))
                fixed = supp[axis][side]
                free = [S('t%d' % d) for d in range(sdim - 1)]
                full = free[:axis] + [fixed] + free[axis:]
                grid = tuple(arr1(x) for x in free)
                fullgrid = tuple(arr1(x) for x in full)
                ref = R(f.grid_eval(fullgrid), (dim,)); jref = R(f.grid_jacobian(fullgrid), (dim, sdim))
                c.check(G.eq(R(g.grid_eval(grid), (dim,)), ref), 'restricted-support boundary: grid_eval = f at the fixed coordinate')
                c.check(G.eq(R(g.eval(*reversed(free)), (dim,)), ref), 'restricted-support boundary: eval = f at the fixed coordinate')
                col = sdim - 1 - axis
                keep = [a for a in range(sdim) if a != col]
                c.check(G.eq(R(g.grid_jacobian(grid), (dim, sdim - 1)), jref[:, keep]), 'restricted-support boundary: Jacobian drops the normal column')
                c.check(G.eq(R(g.grid_jacobian(grid, keep_normal=True), (dim, sdim)), jref), 'restricted-support boundary: keep_normal keeps the full Jacobian')
                c.check(z3.BoolVal(g.sdim == sdim - 1 and g.dim == dim and tuple(g.support) == supp[:axis] + supp[axis + 1:]), 'boundary function metadata')
        c.witness('boundary function')
    return run


def user_function_routes(geo, sdim):
    def run(c):
        a = S('a'); b = S('b')
        if sdim == 2:
            fn = lambda x, y: (a * x + y * y, x * y + b)
            jc = lambda x, y: np.array([[a + 0 * x, 2 * y], [y, x]], dtype=object)
        else:
            fn = lambda x, y, z: (a * x + y * z, z + b * y, x * z)
        supp = tuple((S('lo%d' % d), S('hi%d' % d)) for d in range(sdim))
        uf = geo['UserFunction'](fn, supp)
        c.check(z3.BoolVal(uf.sdim == sdim and uf.dim == len(fn(*([1] * sdim))) and uf.output_shape() == (uf.dim,)), 'UserFunction dimension detection')
        ax = [[S('g%d_%d' % (d, k)) for k in range(2 if d == 0 else 1)] for d in range(sdim)]
        grid = tuple(np.array(v + [None], dtype=object)[:-1] for v in ax)
        ge = uf.grid_eval(grid)
        for k in range(2):
            nd = [ax[0][k]] + [ax[d][0] for d in range(1, sdim)]
            xyz = list(reversed(nd))
            ref = np.array(list(fn(*xyz)) + [None], dtype=object)[:-1]
            idx = (k,) + (0,) * (sdim - 1)
            c.check(G.eq(R(ge[idx], ref.shape), ref), 'UserFunction.grid_eval = f(x,y,..) with x the LAST grid axis')
            c.check(G.eq(R(np.array(list(uf.eval(*xyz)) + [None], dtype=object)[:-1], ref.shape), ref), 'UserFunction.eval = f')
            c.check(G.eq(R(np.array(list(uf(*xyz)) + [None], dtype=object)[:-1], ref.shape), ref), 'UserFunction.__call__ = f')
        # boundary of a user function
        for axis in range(sdim):
            for side in (0, 1):
                g = uf.boundary((axis, side))
                free = [S('t%d' % d) for d in range(sdim - 1)]
                full = free[:axis] + [supp[axis][side]] + free[axis:]
                ref = np.array(list(fn(*reversed(full))) + [None], dtype=object)[:-1]
                c.check(G.eq(R(g.grid_eval(tuple(arr1(x) for x in free)), ref.shape), ref), 'UserFunction boundary: grid_eval = f at the fixed coordinate')
                c.check(G.eq(R(np.array(list(g.eval(*reversed(free))) + [None], dtype=object)[:-1], ref.shape), ref), 'UserFunction boundary: eval = f at the fixed coordinate')
        c.witness('user function')
    return run


# =========================================================================================== operations

class Obj:
    """operand wrapper: value oracle from the HARNESS's own symbols (so that mutation of the operand is detectable)"""
    def __init__(self, bs, geo, c, kind, sdim, dim, ns, ps, tag, scalar=False):
        self.kind = kind; self.sdim = sdim; self.dim = dim; self.scalar = scalar
        self.kvs = mk_kvs(sdim, ps, ns, tag + 'kv')
        if kind == 'nurbs':
            self.f, self.Cv, self.Cw = nurbs_setup(geo, self.kvs, ns, dim, scalar, c, tag)
        else:
            self.C = sx.symarray(tag + 'C', tuple(ns) + (() if scalar else (dim,)))
            self.f = bs['BSplineFunc'](self.kvs, self.C.copy())
            self.Cv = self.C[..., None] if scalar else self.C
            self.Cw = None
        self.snapshot = [lift(x) for x in self.f.coeffs.ravel()]
        self.snap_kvs = tuple(self.f.kvs)

    def value(self, c, nodes):
        """(dim,) vector of the map's value at nodes (knot-vector order); for NURBS fresh symbols N with N*W = V"""
        V = R(G.bsp_value(self.kvs, self.Cv, nodes), (-1,))
        if self.kind != 'nurbs':
            return V
        W = G.bsp_value(self.kvs, self.Cw, nodes)
        c.assume(lift(W) != 0)
        out = np.empty(V.shape, dtype=object)
        for i in range(V.size):
            out[i] = Sym(lift(V[i]) / sx._toreal(lift(W)))
        return out

    def unchanged(self):
        now = [lift(x) for x in self.f.coeffs.ravel()]
        same = len(now) == len(self.snapshot) and all(z3.eq(a, b) for a, b in zip(now, self.snapshot))
        return z3.BoolVal(same and tuple(self.f.kvs) == self.snap_kvs)


def result_value(c, res, nodes, geo):
    """value of a result object from its REPRESENTATION (kvs, coeffs), not through its evaluation code"""
    if isinstance(res, geo['NurbsFunc']):
        Cv = res.coeffs[..., :-1]; Cw = res.coeffs[..., -1]
        V = R(G.bsp_value(res.kvs, Cv, nodes), (-1,)); W = G.bsp_value(res.kvs, Cw, nodes)
        c.assume(lift(W) != 0)
        return np.array([Sym(lift(v) / sx._toreal(lift(W))) for v in V] + [None], dtype=object)[:-1]
    return R(G.bsp_value(res.kvs, res.coeffs, nodes), (-1,))


def unary_ops(bs, geo, kind, sdim, dim, scalar=False):
    ns = [2, 3, 2][:sdim]; ps = [1, 2, 1][:sdim]
    def run(c):
        G.set_world(c)
        o = Obj(bs, geo, c, kind, sdim, dim, ns, ps, 'g', scalar)
        f = o.f
        nodes = [S('x%d' % d) for d in range(sdim)]
        val = o.value(c, nodes)
        def same_space(res): return z3.BoolVal(tuple(res.kvs) == tuple(o.kvs) and res.sdim == sdim)
        def chk(res, ref, name):
            c.check(z3.And(same_space(res), G.eq(result_value(c, res, nodes, geo), R(ref, (-1,))), o.unchanged()), name)
        if not scalar:
            off = sx.symarray('off', (dim,))
            chk(f.translate(off), val + off, 'translate(vector): G(x) + offset, operand unchanged')
            s = S('s')
            chk(f.translate(s), val + s, 'translate(scalar): G(x) + offset, operand unchanged')
            chk(f.scale(s), val * s, 'scale(scalar): s G(x), operand unchanged')
            sv = sx.symarray('sv', (dim,))
            chk(f.scale(sv), val * sv, 'scale(vector): componentwise, operand unchanged')
            A = sx.symarray('A', (dim + 1, dim))
            res = f.apply_matrix(A)
            chk(res, A.dot(val), 'apply_matrix(single matrix): A G(x), operand unchanged')
            c.check(z3.BoolVal(res.dim == dim + 1), 'apply_matrix: target dimension follows the matrix')
            if dim == 2:
                ang = S('angle')
                cs = Sym(sx.uf('cos')(ang.t)); sn = Sym(sx.uf('sin')(ang.t))
                Rm = np.array([[cs, -sn], [sn, cs]], dtype=object)
                chk(f.rotate_2d(ang), Rm.dot(val), 'rotate_2d: [[cos,-sin],[sin,cos]] G(x), operand unchanged')
            for I in ([0], [dim - 1], slice(0, 1), slice(1, None), [1, 0] if dim >= 2 else [0]):
                res = f[I]
                chk(res, val[I], 'component selection [%s]' % (I,))
            r0 = f[0]
            c.check(z3.And(z3.BoolVal(r0.is_scalar() and r0.dim == 1), G.eq(result_value(c, r0, nodes, geo), val[0:1]), o.unchanged()), 'component selection [int] gives a scalar function')
            c.check(z3.BoolVal(f.as_vector() is f), 'as_vector of a vector function is the function itself')
        else:
            res = f.as_vector()
            c.check(z3.And(z3.BoolVal(res.is_vector() and res.dim == 1 and res.output_shape() == (1,)), same_space(res),
                           G.eq(result_value(c, res, nodes, geo), val), o.unchanged()), 'as_vector(scalar): same values, 1-vector')
            s = S('s')
            chk(f.translate(s), val + s, 'translate(scalar function)'); chk(f.scale(s), val * s, 'scale(scalar function)')
        res = f.as_nurbs()
        if kind == 'nurbs':
            c.check(z3.BoolVal(res is f), 'as_nurbs of a NURBS is itself')
        else:
            c.check(z3.And(z3.BoolVal(isinstance(res, geo['NurbsFunc']) and res.dim == (1 if scalar else dim) and res.is_scalar() == scalar), same_space(res),
                           G.eq(result_value(c, res, nodes, geo), val), o.unchanged(),
                           lift(G.bsp_value(res.kvs, res.coeffs[..., -1], nodes)) == 1), 'as_nurbs: same map, weight function identically one')
        res = f.copy()
        c.check(z3.And(z3.BoolVal(type(res) is type(f) and res is not f and not np.shares_memory(res.coeffs, f.coeffs) and res.dim == f.dim and res.is_scalar() == scalar),
                       same_space(res), G.eq(result_value(c, res, nodes, geo), val), o.unchanged()), 'copy: same map, independent storage')
        res.coeffs[(0,) * res.coeffs.ndim] = S('poke')
        c.check(o.unchanged(), 'writing into a copy does not alter the original')
        # boundary extraction: coefficient slice = restriction (end-point interpolation of the basis)
        if sdim >= 2:
            for axis in range(sdim):
                for side in (0, 1):
                    for spec in [(axis, side)] + [nm for nm, ax_, sd_ in NAMES if sdim - 1 - ax_ == axis and sd_ == side and ax_ < sdim]:
                        g = f.boundary(spec)
                        free = [S('t%d' % d) for d in range(sdim - 1)]
                        fixed = o.kvs[axis].a if side == 0 else o.kvs[axis].b
                        full = free[:axis] + [fixed] + free[axis:]
                        ref = o.value(c, full)
                        c.check(z3.And(z3.BoolVal(type(g) is type(f) and g.sdim == sdim - 1 and tuple(g.kvs) == tuple(k for i, k in enumerate(o.kvs) if i != axis) and g.is_scalar() == scalar),
                                       G.eq(result_value(c, g, free, geo), ref), o.unchanged()), 'boundary(%r): restriction to the side, remaining axes in order' % (spec,))
        c.witness('unary ops')
    return run


NAMES = [('left', 0, 0), ('right', 0, 1), ('bottom', 1, 0), ('top', 1, 1), ('front', 2, 0), ('back', 2, 1)]   # (name, coordinate index x=0, side)


def per_point_matrix(bs, geo, kind):
    def run(c):
        G.set_world(c)
        ns = [2, 2]
        o = Obj(bs, geo, c, kind, 2, 2, ns, [1, 1], 'g')
        A = sx.symarray('A', (2, 2, 3, 2))
        res = o.f.apply_matrix(A)
        C, W = (o.f.coeffs_weights() if kind == 'nurbs' else (o.f.coeffs, None))
        ok = []
        for i in range(2):
            for j in range(2):
                want = A[i, j].dot(C[i, j])
                got = res.coeffs[i, j][:3] if kind != 'nurbs' else res.coeffs[i, j][:3] / res.coeffs[i, j][3]
                ok.append(G.eq(R(got, (3,)), R(want, (3,))))
                if kind == 'nurbs': ok.append(lift(res.coeffs[i, j][3]) == lift(W[i, j]))
        c.check(z3.And(*ok + [o.unchanged()]), 'apply_matrix(one matrix per control point): control point (i,j) -> A[i,j] c[i,j], weights unchanged')
        c.witness('per point matrix')
    return run


def binary_ops(bs, geo, kind1, kind2, sd1, sd2, dim1, dim2, scalar1=False, scalar2=False, level='value'):
    """level='value': the result's representation denotes the documented map (all points);  level='coeffs': the documented
    coefficient-level definition (control points summed/multiplied/joined, weights multiplied) -- used for the larger NURBS shapes,
    where the value-level polynomial identity is beyond the solver's reach within the quick budget"""
    def run(c):
        G.set_world(c)
        small = (level == 'value' and 'nurbs' in (kind1, kind2))
        o1 = Obj(bs, geo, c, kind1, sd1, dim1, ([2, 2] if small else [2, 3])[:sd1], ([1, 1] if small else [1, 2])[:sd1], 'p', scalar1)
        o2 = Obj(bs, geo, c, kind2, sd2, dim2, ([2, 2] if small else [3, 2])[:sd2], [1, 1][:sd2], 'q', scalar2)
        nurbs = 'nurbs' in (kind1, kind2)
        def space(res): return z3.BoolVal(tuple(res.kvs) == tuple(o1.kvs) + tuple(o2.kvs) and res.sdim == sd1 + sd2 and isinstance(res, geo['NurbsFunc']) == nurbs)
        if level == 'value':
            n1 = [S('y%d' % d) for d in range(sd1)]; n2 = [S('x%d' % d) for d in range(sd2)]
            v1 = o1.value(c, n1); v2 = o2.value(c, n2)
            nodes = n1 + n2
            def denotes(res, ref): return G.eq(result_value(c, res, nodes, geo), R(ref, (-1,)))
            refs = {'sum': lambda: v1 + v2, 'prod': lambda: v1 * v2, 'tp': lambda: np.concatenate((v2, v1))}
        else:
            def cw(o):
                if o.kind == 'nurbs':
                    Cn = np.empty(o.Cv.shape, dtype=object)
                    for idx in np.ndindex(*o.Cv.shape): Cn[idx] = Sym(lift(o.Cv[idx]) / sx._toreal(lift(o.Cw[idx[:o.sdim]])))
                    return Cn, o.Cw
                W1 = np.empty(o.Cv.shape[:o.sdim], dtype=object); W1[...] = 1
                return o.Cv, W1
            (C1, W1), (C2, W2) = cw(o1), cw(o2)
            sh1 = C1.shape[:sd1] + (1,) * sd2; sh2 = (1,) * sd1 + C2.shape[sd1 - sd1:sd2]
            A1 = C1.reshape(sh1 + C1.shape[sd1:]); A2 = C2.reshape(sh2 + C2.shape[sd2:])
            Wp = W1.reshape(sh1) * W2.reshape(sh2)
            full = C1.shape[:sd1] + C2.shape[:sd2]
            def denotes(res, ref):
                if nurbs:
                    Cr, Wr = res.coeffs_weights()
                    return z3.And(G.eq(Cr, ref), G.eq(Wr, Wp))
                return G.eq(res.coeffs, ref)
            refs = {'sum': lambda: A1 + A2, 'prod': lambda: A1 * A2,
                    'tp': lambda: np.concatenate((np.broadcast_to(A2, full + A2.shape[-1:]), np.broadcast_to(A1, full + A1.shape[-1:])), axis=-1)}
        if (dim1 == dim2 or 1 in (dim1, dim2)) and not (scalar1 != scalar2 and nurbs):
            res = geo['outer_sum'](o1.f, o2.f)
            c.check(z3.And(space(res), denotes(res, refs['sum']()), o1.unchanged(), o2.unchanged()), 'outer_sum: G(x,y) = G1(y) + G2(x), knot vectors G1 then G2 [%s]' % level)
            res = geo['outer_product'](o1.f, o2.f)
            c.check(z3.And(space(res), denotes(res, refs['prod']()), o1.unchanged(), o2.unchanged()), 'outer_product: G(x,y) = G1(y) * G2(x) componentwise [%s]' % level)
        res = geo['tensor_product'](o1.f, o2.f)
        c.check(z3.And(space(res), z3.BoolVal(res.dim == dim1 + dim2), denotes(res, refs['tp']()), o1.unchanged(), o2.unchanged()),
                'tensor_product: G(x,y) = (G2(x), G1(y)), knot vectors G1 then G2 [%s]' % level)
        c.witness('binary ops')
    return run


def cylinderize_op(bs, geo):
    def run(c):
        G.set_world(c)
        o = Obj(bs, geo, c, 'bspline', 2, 2, [2, 3], [1, 2], 'g')
        z0, z1, s0, s1 = S('z0'), S('z1'), S('s0'), S('s1')
        res = o.f.cylinderize(z0, z1, support=(s0, s1))
        kvz = res.kvs[0]
        nodes = [S('x0'), S('x1')]; z = S('z')
        val = o.value(c, nodes)
        r = G.world().row(kvz, z, 0)
        ok = [z3.BoolVal(res.sdim == 3 and res.dim == 3 and tuple(res.kvs[1:]) == tuple(o.kvs) and kvz.p == 1 and kvz.numdofs == 2
                         and G.term_key(kvz.a) == G.term_key(s0) and G.term_key(kvz.b) == G.term_key(s1)),
              G.eq(result_value(c, res, [z] + nodes, geo), np.concatenate((val, [r[0] * z0 + r[1] * z1]))), o.unchanged()]
        c.check(z3.And(*ok), 'cylinderize: new FIRST axis, linear from z0 to z1 over the given support, map (G(x,y), z)')
        for zz, zv in ((s0, z0), (s1, z1)):
            c.check(G.eq(result_value(c, res, [zz] + nodes, geo), np.concatenate((val, [zv]))), 'cylinderize: bottom/top faces at z0/z1')
        c.witness('cylinderize')
    return run


def nurbs_constructor(geo, sdim, dim):
    """NurbsFunc(kvs, coeffs, weights) with non-premultiplied control points denotes sum B w c / sum B w"""
    def run(c):
        G.set_world(c)
        ns = [2, 3][:sdim]; kvs = mk_kvs(sdim, [1, 2][:sdim], ns)
        Cc = sx.symarray('P', tuple(ns) + (dim,)); Cw = sx.symarray('W', tuple(ns))
        for w in Cw.ravel(): c.assume(lift(w) != 0)
        nodes = [S('x%d' % d) for d in range(sdim)]
        W = G.bsp_value(kvs, Cw, nodes); c.assume(lift(W) != 0)
        V = R(G.bsp_value(kvs, Cc * Cw[..., None], nodes), (dim,))
        ref = np.array([Sym(lift(v) / sx._toreal(lift(W))) for v in V] + [None], dtype=object)[:-1]
        f1 = geo['NurbsFunc'](kvs, Cc.copy(), Cw.copy())
        c.check(G.eq(result_value(c, f1, nodes, geo), ref), 'NurbsFunc(coeffs, weights): quotient of weighted numerator and weight spline')
        f2 = geo['NurbsFunc'](kvs, np.concatenate((Cc, Cw[..., None]), axis=-1), None)
        c.check(G.eq(result_value(c, f2, nodes, geo), ref), 'NurbsFunc(coeffs with weights as last component)')
        Cq, Wq = f1.coeffs_weights()
        c.check(z3.And(G.eq(Cq, Cc), G.eq(Wq, Cw)), 'coeffs_weights returns the control points and weights')
        c.witness('nurbs constructor')
    return run


def bdspec_harness(bs):
    def run(c):
        dim = Sym(z3.Int('dim')); c.assume(z3.And(dim.t >= 1, dim.t <= 3))
        for nm, coord, side in NAMES:
            try:
                r = bs['_parse_bdspec'](nm, dim)
                c.check(z3.And(lift(r[0]) == dim.t - 1 - coord, z3.BoolVal(r[1] == side), dim.t > coord), "bdspec '%s' = (axis dim-1-%d, side %d)" % (nm, coord, side))
            except ValueError:
                c.check(dim.t <= coord, "bdspec '%s' rejected only when the dimension is too small" % nm)
        ax = Sym(z3.Int('ax')); sd = Sym(z3.Int('sd'))
        c.assume(z3.And(ax.t >= -2, ax.t <= 4, sd.t >= -1, sd.t <= 2))
        try:
            r = bs['_parse_bdspec']((ax, sd), dim)
            c.check(z3.And(ax.t >= 0, ax.t < dim.t, z3.Or(sd.t == 0, sd.t == 1), lift(r[0]) == ax.t, lift(r[1]) == sd.t), 'bdspec pair accepted iff valid, returned unchanged')
        except ValueError:
            c.check(z3.Not(z3.And(ax.t >= 0, ax.t < dim.t, z3.Or(sd.t == 0, sd.t == 1))), 'bdspec pair rejected only if invalid')
        c.witness('bdspec')
    return run


# =========================================================================================== circles (real basis)

class Ang:
    """angle m*theta with (cos theta, sin theta) = (c, s) solver variables, c^2+s^2 = 1"""
    def __init__(self, m, w): self.m = F(m); self.w = w
    def __truediv__(self, k): return Ang(self.m / k, self.w)
    def __mul__(self, k): return Ang(self.m * k, self.w)
    __rmul__ = __mul__
    def __neg__(self): return Ang(-self.m, self.w)
    def _real(self): return self.w['theta'] * self.m
    def __lt__(self, o): return self._real() < o
    def __le__(self, o): return self._real() <= o
    def __gt__(self, o): return self._real() > o
    def __ge__(self, o): return self._real() >= o
    def cos(self):
        m = self.m; assert m.denominator == 1, 'non-integer multiple of the base angle'
        return self.w['cheb'](abs(int(m)))[0]
    def sin(self):
        m = self.m; assert m.denominator == 1
        v = self.w['cheb'](abs(int(m)))[1]
        return v if m >= 0 else -v


class AngNP(SymNP):
    def linspace(self, a, b, k, **kw):
        if isinstance(b, Ang):
            assert a == 0
            return [Ang(b.m * i / (k - 1), b.w) for i in range(k)]
        return np.linspace(a, b, k, **kw)
    def cos(self, x): return x.cos() if isinstance(x, Ang) else SymNP.cos(self, x)
    def sin(self, x): return x.sin() if isinstance(x, Ang) else SymNP.sin(self, x)


def load_real_geo(enc=None, transforms=None):
    from checks import C02
    transforms = transforms or {}
    cy, ns = C02.load_code(enc)
    anp = AngNP()
    real = dict(ns); real['np'] = anp
    kvn = {'np': np, 'pyx_findspan': cy['pyx_findspan']}
    srcload.load_defs('pyiga/bspline.py', ['KnotVector', 'make_knots'], kvn, encoded=enc)
    real['KnotVector'] = kvn['KnotVector']; real['make_knots'] = kvn['make_knots']
    bs, geo, un = G.load_geo(enc, transforms, basis='real', real_ns=real, npf=anp)
    return bs, geo


def cheb_factory(cS, sS):
    memo = {0: (1, 0), 1: (cS, sS)}
    def cheb(k):
        if k not in memo:
            c1, s1 = cheb(k - 1)
            memo[k] = (c1 * cS - s1 * sS, s1 * cS + c1 * sS)
        return memo[k]
    return cheb


def arc_dispatch_harness(enc=None, transform=None):
    """circular_arc(alpha, r): every alpha in (0, 2 pi] (END POINTS INCLUDED) is accepted and handed to a constructor whose
    precondition it meets (3-point arc only for alpha < pi); everything else is rejected with ValueError.  alpha is a real solver variable,
    pi the double constant the code uses; the constructors are stubs that record the call."""
    ns = {'np': SymNP(), 'circular_arc_3pt': lambda a, r=1.0: ('3pt', a, r), 'circular_arc_5pt': lambda a, r=1.0: ('5pt', a, r),
          'circular_arc_7pt': lambda a, r=1.0: ('7pt', a, r)}
    srcload.load_defs('pyiga/geometry.py', ['circular_arc'], ns, encoded=enc, transform=transform, closure=False)
    PI = sx._const(float(np.pi))
    def run(c):
        al, r = S('alpha'), S('r')
        c.assume(r.t > 0)
        try:
            res = ns['circular_arc'](al, r)
        except ValueError:
            c.check(z3.Or(al.t <= 0, al.t > 2 * PI), 'circular_arc: only angles outside (0, 2 pi] are rejected')
            c.witness('arc dispatch (rejected)'); return
        tag, a2, r2 = res
        c.check(z3.And(al.t > 0, al.t <= 2 * PI, lift(a2) == al.t, lift(r2) == r.t), 'circular_arc: accepted angles lie in (0, 2 pi], angle and radius are handed on unchanged')
        if tag == '3pt': c.check(al.t < PI, 'circular_arc: the 3-point constructor is only used for alpha < pi (its precondition)')
        c.witness('arc dispatch')
    return run


def arc_harness(geo, which, m):
    """circular_arc_{3,5,7}pt(alpha, r): alpha = m*theta symbolic, r symbolic > 0, every real t of every span"""
    def run(c):
        cS, sS, th, r = S('cos_t'), S('sin_t'), S('theta'), S('r')
        c.assume(z3.And(cS.t * cS.t + sS.t * sS.t == 1, cS.t > 0, r.t > 0, th.t > 0))
        if which == 'circular_arc_3pt': c.assume(th.t * m < sx._const(float(np.pi)))
        w = {'theta': th, 'cheb': cheb_factory(cS, sS)}
        alpha = Ang(m, w)
        g = geo[which](alpha, r)
        t = S('t'); c.assume(z3.And(t.t >= 0, t.t <= 1))
        xy = R(g.grid_eval((arr1(t),)), (2,))
        c.check(lift(xy[0] * xy[0] + xy[1] * xy[1]) == lift(r * r), '%s: every point has distance r from the origin' % which)
        p0 = R(g.grid_eval((arr1(0.0),)), (2,)); p1 = R(g.grid_eval((arr1(1.0),)), (2,))
        ca, sa = w['cheb'](m)
        c.check(z3.And(lift(p0[0]) == r.t, lift(p0[1]) == 0, lift(p1[0]) == lift(r * ca), lift(p1[1]) == lift(r * sa)), '%s: starts at (r,0), ends at r(cos alpha, sin alpha)' % which)
        c.witness(which)
    return run


def fixed_circle_harness(geo, which):
    """semicircle / circle / disk boundary / quarter_annulus: float trig constants -> relative tolerance 1e-12"""
    tol = F(1, 10**12)
    def on_circle(c, xy, rad2, name):
        d = lift(xy[0] * xy[0] + xy[1] * xy[1]) - rad2
        c.check(z3.And(d <= tol * rad2, -d <= tol * rad2), name)
    def run(c):
        r = S('r'); c.assume(z3.And(r.t > 0))
        t = S('t'); c.assume(z3.And(t.t >= 0, t.t <= 1))
        if which in ('semicircle', 'circle'):
            g = geo[which](r)
            xy = R(g.grid_eval((arr1(t),)), (2,))
            on_circle(c, xy, r.t * r.t, '%s: every point has distance r from the origin (rel. 1e-12)' % which)
            p0 = R(g.grid_eval((arr1(0.0),)), (2,)); p1 = R(g.grid_eval((arr1(1.0),)), (2,))
            end = (-1, 0) if which == 'semicircle' else (1, 0)
            c.check(z3.And(lift(p0[0]) == r.t, lift(p0[1]) == 0, lift(p1[0] - end[0] * r) <= tol * r.t, lift(end[0] * r - p1[0]) <= tol * r.t,
                           lift(p1[1]) <= tol * r.t, lift(-p1[1]) <= tol * r.t), '%s: end points' % which)
        elif which == 'disk':
            c.assume(r.t != 1)      # r == 1.0 takes the unscaled branch; covered by the second harness instance
            g = geo['disk'](r)
            for spec in ('left', 'right', 'bottom', 'top'):
                xy = R(g.boundary(spec).grid_eval((arr1(t),)), (2,))
                on_circle(c, xy, r.t * r.t, 'disk: boundary side %s lies on the circle of radius r (rel. 1e-12)' % spec)
        elif which == 'disk1':
            g = geo['disk'](1.0)
            for spec in ('left', 'right', 'bottom', 'top'):
                xy = R(g.boundary(spec).grid_eval((arr1(t),)), (2,))
                on_circle(c, xy, z3.RealVal(1), 'disk(1.0): boundary side %s lies on the unit circle (rel. 1e-12)' % spec)
        elif which == 'quarter_annulus':
            r2 = S('r2'); c.assume(r2.t > r.t)
            g = geo['quarter_annulus'](r, r2)
            s = S('s'); c.assume(z3.And(s.t >= 0, s.t <= 1))
            xy = R(g.grid_eval((arr1(t), arr1(s))), (2,))
            rho = r.t + (r2.t - r.t) * s.t
            on_circle(c, xy, rho * rho, 'quarter_annulus: point (s,t) has distance r1 + s (r2-r1) from the origin (rel. 1e-12)')
            c.check(z3.And(lift(xy[0]) >= 0, lift(xy[1]) >= 0), 'quarter_annulus lies in the first quadrant')
            b0 = R(g.grid_eval((arr1(0.0), arr1(s))), (2,)); b1 = R(g.grid_eval((arr1(1.0), arr1(s))), (2,))
            c.check(z3.And(lift(b0[1]) == 0, lift(b1[0]) == 0), 'quarter_annulus: bottom on the x axis, top on the y axis')
        c.witness(which)
    return run


# =========================================================================================== replay on the real build

REPLAY = r'''
import sys, json, itertools, numpy as np
w = json.load(sys.stdin)
from pyiga import bspline, geometry
rng = np.random.RandomState(w.get('seed', 7))
bad = []

def basis_row(kv, x, k):
    """k-th derivative of all basis functions at x by the Cox-de Boor recursion (independent of pyiga's kernels)"""
    t = kv.kv; p = kv.p; n = kv.numdofs
    def N(i, q):
        if q == 0:
            return 1.0 if (t[i] <= x < t[i+1]) or (x == t[-1] and t[i] < t[i+1] == t[-1]) else 0.0
        a = 0.0 if t[i+q] == t[i] else (x - t[i]) / (t[i+q] - t[i]) * N(i, q-1)
        b = 0.0 if t[i+q+1] == t[i+1] else (t[i+q+1] - x) / (t[i+q+1] - t[i+1]) * N(i+1, q-1)
        return a + b
    def dN(i, k, q):
        if k == 0: return N(i, q)
        if q == 0: return 0.0
        a = 0.0 if t[i+q] == t[i] else q / (t[i+q] - t[i]) * dN(i, k-1, q-1)
        b = 0.0 if t[i+q+1] == t[i+1] else q / (t[i+q+1] - t[i+1]) * dN(i+1, k-1, q-1)
        return a - b
    return np.array([dN(i, k, p) for i in range(n)])

def contract(kvs, C, nodes, D):
    A = np.asarray(C)
    for d in reversed(range(len(kvs))):
        A = np.tensordot(basis_row(kvs[d], nodes[d], D[d]), A, axes=([0], [d]))
    return A
def value(kvs, C, nodes): return contract(kvs, C, nodes, [0]*len(kvs))
def jac(kvs, C, nodes):
    sd = len(kvs); cols = [None]*sd
    for i in range(sd):
        D = [0]*sd; D[i] = 1; cols[sd-1-i] = contract(kvs, C, nodes, D)
    return np.stack(cols, axis=-1)
def hess(kvs, C, nodes):
    sd = len(kvs); co = list(reversed(range(sd))); out = []
    for a in range(sd):
        for b in range(a, sd):
            D = [0]*sd; D[co[a]] += 1; D[co[b]] += 1; out.append(contract(kvs, C, nodes, D))
    return np.stack(out, axis=-1)
def mkkvs(sdim):
    return tuple(bspline.make_knots([2, 3, 1][d], 0.0, 1.0 + d, 3 - (d == 1)) for d in range(sdim))
def close(a, b):
    a = np.asarray(a, dtype=float); b = np.asarray(b, dtype=float)
    return a.size == b.size and np.allclose(a.reshape(-1), b.reshape(-1), rtol=1e-9, atol=1e-11)
def attempt(name, fn):
    try:
        if not fn(): bad.append(name + ': wrong result')
    except Exception as e:
        bad.append('%s: %s: %s' % (name, type(e).__name__, str(e)[:80]))

kind = w['kind']
if kind in ('bspline_routes', 'nurbs_routes'):
    sdim = w['sdim']; trail = tuple(w.get('trail', ())); kvs = mkkvs(sdim)
    N = tuple(kv.numdofs for kv in kvs)
    nodes = [0.31 + 0.4 * d for d in range(sdim)]; grid = tuple(np.array([x]) for x in nodes)
    xyz = list(reversed(nodes)); pts = tuple(np.array([x]) for x in xyz)
    if kind == 'bspline_routes':
        C = rng.rand(*(N + trail)); f = bspline.BSplineFunc(kvs, C)
        ref = value(kvs, C, nodes); jr = jac(kvs, C, nodes)
        attempt('grid_eval', lambda: close(f.grid_eval(grid), ref)); attempt('eval', lambda: close(f.eval(*xyz), ref))
        attempt('pointwise_eval', lambda: close(f.pointwise_eval(pts), ref))
        attempt('grid_jacobian', lambda: close(f.grid_jacobian(grid), jr)); attempt('pointwise_jacobian', lambda: close(f.pointwise_jacobian(pts), jr))
        attempt('tp_bsp_eval_with_jac_pointwise', lambda: (lambda r: close(r[0], ref) and close(r[1], jr))(bspline.tp_bsp_eval_with_jac_pointwise(kvs, C, pts)))
        if len(trail) <= 1: attempt('grid_hessian', lambda: close(f.grid_hessian(grid), hess(kvs, C, nodes)))
        # two scattered points
        P = rng.rand(sdim, 2) * 0.9 + 0.05
        pts2 = tuple(P[sdim-1-cd] for cd in range(sdim))
        attempt('pointwise_eval(2 points)', lambda: all(close(f.pointwise_eval(pts2)[k], value(kvs, C, list(P[:, k]))) for k in range(2)))
        if sdim == 2:
            Pm = rng.rand(2, 3, 4) * 0.9 + 0.05
            for lay in ('F', 'strided'):
                ptsn = tuple((np.asfortranarray(Pm[sdim - 1 - cd]) if lay == 'F' else np.repeat(Pm[sdim - 1 - cd], 2, axis=1)[:, ::2]) for cd in range(sdim))
                ptsc = tuple(np.ascontiguousarray(a) for a in ptsn)
                attempt('pointwise_eval (%s layout)' % lay, lambda: close(f.pointwise_eval(ptsn), f.pointwise_eval(ptsc)) and close(f.pointwise_eval(ptsn)[1, 2], value(kvs, C, [Pm[d][1, 2] for d in range(sdim)])))
                attempt('pointwise_jacobian (%s layout)' % lay, lambda: close(f.pointwise_jacobian(ptsn), f.pointwise_jacobian(ptsc)))
    else:
        dim = w['dim']; scalar = w['scalar']
        Cw = rng.rand(*N) + 0.5; Cv = rng.rand(*(N + (dim,)))
        f = geometry.NurbsFunc(kvs, Cv[..., 0].copy(), Cw.copy(), premultiplied=True) if scalar else geometry.NurbsFunc(kvs, np.concatenate((Cv, Cw[..., None]), -1), None, premultiplied=True)
        if scalar: Cv = Cv[..., :1]
        V = value(kvs, Cv, nodes); W = value(kvs, Cw, nodes); Vj = jac(kvs, Cv, nodes); Wj = jac(kvs, Cw, nodes); Vh = hess(kvs, Cv, nodes); Wh = hess(kvs, Cw, nodes)
        Nv = V / W; J = (Vj - Nv[:, None] * Wj[None, :]) / W
        pairs = [(a, b) for a in range(sdim) for b in range(a, sdim)]
        H = np.array([[(Vh[i, k] - J[i, a] * Wj[b] - J[i, b] * Wj[a] - Nv[i] * Wh[k]) / W for k, (a, b) in enumerate(pairs)] for i in range(Nv.size)])
        attempt('grid_eval', lambda: close(f.grid_eval(grid), Nv)); attempt('eval', lambda: close(f.eval(*xyz), Nv)); attempt('pointwise_eval', lambda: close(f.pointwise_eval(pts), Nv))
        attempt('grid_jacobian', lambda: close(f.grid_jacobian(grid), J)); attempt('pointwise_jacobian', lambda: close(f.pointwise_jacobian(pts), J))
        attempt('grid_hessian', lambda: close(f.grid_hessian(grid), H))
        # operation sequence on one object: derivatives, re-bind .coeffs (as geometry.disk() does), derivatives again -- against a fresh object
        if not scalar:
            new = np.concatenate((rng.rand(*(N + (dim,))), (rng.rand(*N) + 0.5)[..., None]), -1)
            f.grid_jacobian(grid); f.grid_hessian(grid)
            f.coeffs = new.copy()
            fresh = geometry.NurbsFunc(kvs, new.copy(), None, premultiplied=True)
            attempt('after re-binding coeffs: grid_eval', lambda: close(f.grid_eval(grid), fresh.grid_eval(grid)))
            attempt('after re-binding coeffs: grid_jacobian', lambda: close(f.grid_jacobian(grid), fresh.grid_jacobian(grid)))
            attempt('after re-binding coeffs: pointwise_jacobian', lambda: close(f.pointwise_jacobian(pts), fresh.grid_jacobian(grid)))
            attempt('after re-binding coeffs: grid_hessian', lambda: close(f.grid_hessian(grid), fresh.grid_hessian(grid)))
elif kind == 'generic':
    # operations / constructors: numeric re-run of the same obligation family through the public API
    exec(w['script'])
print(json.dumps({'reproduced': bool(bad), 'bad': bad[:10]}))
'''

OPS_SCRIPT = r'''
def ev(g, nodes):
    return np.asarray(g.grid_eval(tuple(np.array([x]) for x in nodes)), dtype=float).reshape(-1)
def mk(kind, sdim, dim, scalar=False, seed=0):
    r = np.random.RandomState(seed); kvs = mkkvs(sdim); N = tuple(kv.numdofs for kv in kvs)
    if kind == 'nurbs':
        if scalar: return geometry.NurbsFunc(kvs, r.rand(*N), r.rand(*N) + 0.5)
        return geometry.NurbsFunc(kvs, r.rand(*(N + (dim,))), r.rand(*N) + 0.5)
    return bspline.BSplineFunc(kvs, r.rand(*(N + (() if scalar else (dim,)))))
for kind_ in ('bspline', 'nurbs'):
    for sdim in (1, 2, 3):
        for dim in (2, 3):
            f = mk(kind_, sdim, dim); before = f.coeffs.copy()
            nodes = [0.3 + 0.35 * d for d in range(sdim)]; val = ev(f, nodes)
            off = rng.rand(dim); A = rng.rand(dim + 1, dim); s = 1.7
            attempt('%s translate' % kind_, lambda: close(ev(f.translate(off), nodes), val + off))
            attempt('%s scale' % kind_, lambda: close(ev(f.scale(s), nodes), val * s) and close(ev(f.scale(off), nodes), val * off))
            attempt('%s apply_matrix' % kind_, lambda: close(ev(f.apply_matrix(A), nodes), A @ val))
            if dim == 2:
                attempt('%s rotate_2d' % kind_, lambda: close(ev(f.rotate_2d(0.7), nodes), np.array([[np.cos(0.7), -np.sin(0.7)], [np.sin(0.7), np.cos(0.7)]]) @ val))
            attempt('%s getitem' % kind_, lambda: close(ev(f[1], nodes), val[1:2]) and close(ev(f[[1, 0]], nodes), val[[1, 0]]) and close(ev(f[1:], nodes), val[1:]))
            attempt('%s as_nurbs/copy' % kind_, lambda: close(ev(f.as_nurbs(), nodes), val) and close(ev(f.copy(), nodes), val) and not np.shares_memory(f.copy().coeffs, f.coeffs))
            if sdim >= 2:
                for axis in range(sdim):
                    for side in (0, 1):
                        free = [0.3 + 0.2 * d for d in range(sdim - 1)]
                        full = free[:axis] + [f.kvs[axis].support()[side]] + free[axis:]
                        attempt('%s boundary' % kind_, lambda: close(ev(f.boundary((axis, side)), free), ev(f, full)))
            attempt('%s operand unchanged' % kind_, lambda: np.array_equal(before, f.coeffs))
        fs = mk(kind_, sdim, 1, scalar=True); nodes = [0.3 + 0.35 * d for d in range(sdim)]
        attempt('%s as_vector' % kind_, lambda: close(ev(fs.as_vector(), nodes), ev(fs, nodes)) and fs.as_vector().is_vector())
        g1 = tuple(np.array([x]) for x in nodes)
        attempt('%s scalar copy' % kind_, lambda: fs.copy().is_scalar() and np.shape(fs.copy().grid_eval(g1)) == np.shape(fs.grid_eval(g1)) and close(ev(fs.copy(), nodes), ev(fs, nodes)))
        if sdim >= 2:
            attempt('%s scalar boundary' % kind_, lambda: fs.boundary((0, 0)).is_scalar() and np.shape(fs.boundary((0, 0)).grid_eval(g1[1:])) == np.shape(fs.grid_eval(g1))[1:])
for k1, k2 in itertools.product(('bspline', 'nurbs'), repeat=2):
    for sd1, sd2 in ((1, 1), (1, 2), (2, 1)):
        g1 = mk(k1, sd1, 2, seed=1); g2 = mk(k2, sd2, 2, seed=2)
        n1 = [0.3 + 0.35 * d for d in range(sd1)]; n2 = [0.45 + 0.2 * d for d in range(sd2)]
        attempt('outer_sum %s %s' % (k1, k2), lambda: close(ev(geometry.outer_sum(g1, g2), n1 + n2), ev(g1, n1) + ev(g2, n2)))
        attempt('outer_product %s %s' % (k1, k2), lambda: close(ev(geometry.outer_product(g1, g2), n1 + n2), ev(g1, n1) * ev(g2, n2)))
        attempt('tensor_product %s %s' % (k1, k2), lambda: close(ev(geometry.tensor_product(g1, g2), n1 + n2), np.concatenate((ev(g2, n2), ev(g1, n1)))))
g = mk('bspline', 2, 2)
attempt('cylinderize', lambda: close(ev(g.cylinderize(1.0, 3.0, support=(2.0, 4.0)), [2.5, 0.3, 0.6]), np.concatenate((ev(g, [0.3, 0.6]), [1.5]))))
# composed / restricted support / user function
g1 = mk('bspline', 2, 2, seed=3).scale(0.9); g2 = mk('nurbs', 2, 3, seed=4)
comp = geometry.ComposedFunction(g2, g1); nd = [0.4, 0.7]; v = ev(g1, nd)
attempt('ComposedFunction', lambda: close(ev(comp, nd), ev(g2, [v[1], v[0]])))
g3 = mk('bspline', 3, 3, seed=5).scale(0.9); g4 = mk('bspline', 3, 2, seed=6); comp3 = geometry.ComposedFunction(g4, g3); nd3 = [0.3, 0.5, 0.7]; v3 = ev(g3, nd3)
attempt('ComposedFunction 3D', lambda: close(ev(comp3, nd3), ev(g4, [v3[2], v3[1], v3[0]])))
# restricted support -> generic boundary function (values, tangential Jacobian, full Jacobian)
for kind_ in ('bspline', 'nurbs'):
    for sdim in (2, 3):
        f = mk(kind_, sdim, 2, seed=8)
        f.support = tuple((0.1 + 0.05 * d, 0.8 - 0.05 * d) for d in range(sdim))
        for axis in range(sdim):
            for side in (0, 1):
                g = f.boundary((axis, side))
                free = [0.3 + 0.1 * d for d in range(sdim - 1)]
                full = free[:axis] + [f.support[axis][side]] + free[axis:]
                gfree = tuple(np.array([x]) for x in free); gfull = tuple(np.array([x]) for x in full)
                Jf = np.asarray(f.grid_jacobian(gfull)).reshape(2, sdim); col = sdim - 1 - axis
                attempt('%s restricted-support boundary value' % kind_, lambda: close(g.grid_eval(gfree), f.grid_eval(gfull)) and close(g.eval(*reversed(free)), f.grid_eval(gfull)))
                attempt('%s restricted-support boundary jacobian' % kind_, lambda: close(g.grid_jacobian(gfree), np.delete(Jf, col, axis=1)) and close(g.grid_jacobian(gfree, keep_normal=True), Jf))
uf = geometry.UserFunction(lambda x, y: (x * x + y, x * y), ((0.0, 1.0), (0.0, 2.0)))
for axis in (0, 1):
    for side in (0, 1):
        gb = uf.boundary((axis, side)); t = 0.37
        full = [t]; full.insert(axis, uf.support[axis][side])
        attempt('UserFunction boundary', lambda: close(gb.grid_eval((np.array([t]),)), np.array(uf.f(full[1], full[0]))))
for alpha in (0.3, 1.0, 2.5, 3.0):
    for fn in (geometry.circular_arc_3pt, geometry.circular_arc_5pt, geometry.circular_arc_7pt):
        a = fn(alpha, 2.0); X = a.grid_eval((np.linspace(0, 1, 23),))
        attempt(fn.__name__, lambda: np.allclose((X**2).sum(-1), 4.0) and close(X[0], [2.0, 0.0]) and close(X[-1], [2 * np.cos(alpha), 2 * np.sin(alpha)]))
for alpha in (1e-3, 0.3, np.nextafter(np.pi, 0), np.pi, np.nextafter(np.pi, 4), 4.0, np.nextafter(2 * np.pi, 0), 2 * np.pi):
    def arc_ok(alpha=alpha):
        a = geometry.circular_arc(alpha, 2.0); X = a.grid_eval((np.linspace(0, 1, 23),))
        return np.allclose((X**2).sum(-1), 4.0) and close(X[0], [2.0, 0.0]) and np.allclose(X[-1], [2 * np.cos(alpha), 2 * np.sin(alpha)], atol=1e-9)
    attempt('circular_arc (dispatcher, alpha=%r)' % float(alpha), arc_ok)
for alpha in (0.0, -1.0, np.nextafter(2 * np.pi, 7), 7.0):
    def arc_rejected(alpha=alpha):
        try: geometry.circular_arc(alpha, 1.0)
        except ValueError: return True
        return False
    attempt('circular_arc rejects alpha=%r' % float(alpha), arc_rejected)
for gname, rad in (('semicircle', 1.5), ('circle', 1.5)):
    X = getattr(geometry, gname)(rad).grid_eval((np.linspace(0, 1, 37),))
    attempt(gname, lambda: np.allclose((X**2).sum(-1), rad**2))
d = geometry.disk(1.5)
for spec in ('left', 'right', 'bottom', 'top'):
    X = d.boundary(spec).grid_eval((np.linspace(0, 1, 17),)); attempt('disk ' + spec, lambda: np.allclose((X**2).sum(-1), 2.25))
qa = geometry.quarter_annulus(1.0, 3.0); X = qa.grid_eval((np.linspace(0, 1, 9), np.linspace(0, 1, 5)))
attempt('quarter_annulus', lambda: np.allclose(np.sqrt((X**2).sum(-1)), 1.0 + 2.0 * np.linspace(0, 1, 5)[None, :]))
'''


def replay(w):
    return realbuild.run_real(REPLAY, w, only=['bspline_cy'])


def classify(bad):
    """stable key of a replayed failure: the set of failing routes/operations (without messages)"""
    names = sorted({b.split(':')[0] for b in bad})
    return ','.join(names)[:120]


# =========================================================================================== main

def main():
    run = Run(PID, level='other', description='Spline/NURBS/composed/boundary/user function classes and all geometry constructors and operations, '
                                              'exec\'d from source on an abstract B-spline basis (contract of C02) with symbolic coefficients, weights, points and parameters.')
    thorough = run.tier == 'thorough'
    enc = srcload.Encoded()
    bs, geo, un = G.load_geo(enc)
    run.add_encoded(enc)
    run.stubs += ['collocation / collocation_derivs / collocation_info / collocation_derivs_info -> abstract basis jets (fresh reals per (knot vector, node, order); '
                  'sum of values 1, sum of derivatives 0, end-point interpolation, symbolic first-active index)', 'KnotVector -> abstract record (degree, size, support end points)',
                  'np allocation -> object arrays', 'scipy.sparse -> symsparse', 'np.sin/np.cos of a symbolic angle -> uninterpreted functions (rotate_2d) or Chebyshev expansion over (cos theta, sin theta) (arcs)']
    run.assumptions += ['doubles as reals', 'weight spline and control weights nonzero where a quotient is taken', 'the abstract-basis contract is what C02 proves for the real kernels',
                        'circular arcs: alpha = m*theta with cos(theta) > 0 (0 < alpha < pi for the 3-point arc as documented); circle/semicircle/disk/quarter_annulus use float trig constants, '
                        'so "on the circle" is proved to relative 1e-12']
    run.bounds = {'source dimension': '1..3', 'target shapes': 'scalar, vectors of 1..3, 2x2 matrices (values/Jacobians)', 'degrees': '1..2 (abstract basis: any basis with that many active functions)',
                  'dofs per axis': '2..4', 'points': '1-2 symbolic nodes per axis / 2 scattered points', 'arcs': 'every real t in [0,1], every alpha in range, every r > 0'}
    run.out_of_scope += ['find_inverse, bounding_box, perturb (optimiser / random)', 'that the basis jets are the derivatives of the basis (C02)', 'rounding',
                         'PhysicalGradientFunc (np.linalg.inv)', 'monotone counter-clockwise traversal of arcs']

    jobs = []   # (group, harness, replay-payload, bound)
    route_cfgs = [(1, (2,)), (2, (2,)), (3, (3,)), (2, ()), (1, ()), (3, ()), (2, (2, 2))]
    if thorough: route_cfgs += [(3, (2,)), (1, (3,)), (3, (2, 2)), (2, (3,))]
    for sdim, trail in route_cfgs:
        ps = [1, 2, 1][:sdim]; ns = [2, 3, 3][:sdim]
        jobs.append(('routes:bspline', bspline_routes(bs, sdim, trail, ps, ns), {'kind': 'bspline_routes', 'sdim': sdim, 'trail': list(trail)}, {'sdim': sdim, 'target': list(trail)}))
    for sdim, trail in [(1, (2,)), (2, (2,)), (3, (2,)), (2, ())]:
        jobs.append(('routes:bspline-order', bspline_multi(bs, sdim, trail, [1, 1, 1][:sdim], [3, 2, 2][:sdim]), {'kind': 'bspline_routes', 'sdim': sdim, 'trail': list(trail)}, {'sdim': sdim, 'target': list(trail), 'nodes': 2}))
    ncfg = [(1, 2, False), (2, 2, False), (2, 1, True), (3, 3, False)] + ([(1, 1, True), (3, 1, True), (2, 3, False)] if thorough else [])
    for sdim, dim, scalar in ncfg:
        jobs.append(('routes:nurbs', nurbs_routes(geo, sdim, dim, scalar, [1, 2, 1][:sdim] if sdim < 3 else [1, 1, 1], [3, 3, 2][:sdim] if sdim < 3 else [2, 2, 2]),
                     {'kind': 'nurbs_routes', 'sdim': sdim, 'dim': dim, 'scalar': scalar}, {'sdim': sdim, 'dim': dim, 'scalar': scalar}))
    _, geo_atoms, _ = G.load_geo(None, geo_overrides={'BSplineFunc': AtomBSplineFunc}, bspline_attr_overrides={'tp_bsp_eval_with_jac_pointwise': _atom_eval_with_jac})
    for sdim, dim, scalar in [(1, 2, False), (2, 2, False), (2, 1, True), (3, 3, False), (3, 1, True), (1, 1, True)]:
        jobs.append(('routes:nurbs-calculus', nurbs_calculus(geo_atoms, sdim, dim, scalar), {'kind': 'nurbs_routes', 'sdim': sdim, 'dim': dim, 'scalar': scalar},
                     {'sdim': sdim, 'dim': dim, 'scalar': scalar, 'B-spline jets': 'independent atoms'}))
    gen = {'kind': 'generic', 'script': OPS_SCRIPT}
    for (s1, m, k, nurbs) in [(2, 2, 2, False), (2, 2, 3, True), (1, 2, 2, False), (3, 3, 2, False)] + ([(2, 3, 1, False), (3, 2, 2, True)] if thorough else []):
        jobs.append(('composed', composed_routes(bs, geo, s1, m, k, [2] * s1, [2, 3, 2][:m], nurbs), gen, {'inner sdim': s1, 'inner dim': m, 'outer dim': k, 'outer nurbs': nurbs}))
    for sdim, kind in [(2, 'bspline'), (3, 'bspline'), (2, 'nurbs')]:
        jobs.append(('boundary-function', boundary_function_routes(bs, geo, sdim, 2, kind), gen, {'sdim': sdim, 'kind': kind}))
    for sdim in (2, 3):
        jobs.append(('user-function', user_function_routes(geo, sdim), gen, {'sdim': sdim}))
    for kind in ('bspline', 'nurbs'):
        for sdim, dim, scalar in [(1, 2, False), (2, 2, False), (3, 3, False), (2, 1, True)] + ([(2, 3, False), (1, 1, True), (3, 2, False)] if thorough else []):
            jobs.append(('operations:unary', unary_ops(bs, geo, kind, sdim, dim, scalar), gen, {'class': kind, 'sdim': sdim, 'dim': dim, 'scalar': scalar}))
        jobs.append(('operations:unary', per_point_matrix(bs, geo, kind), gen, {'class': kind, 'apply_matrix': 'per control point'}))
    for k1, k2 in itertools.product(('bspline', 'nurbs'), repeat=2):
        for sd1, sd2, d1, d2 in [(1, 1, 2, 2), (1, 2, 2, 2), (2, 1, 1, 2)]:
            lv = 'value' if (k1, k2) == ('bspline', 'bspline') or (sd1, sd2) == (1, 1) else 'coeffs'
            jobs.append(('operations:binary', binary_ops(bs, geo, k1, k2, sd1, sd2, d1, d2, level=lv), gen, {'classes': [k1, k2], 'sdims': [sd1, sd2], 'dims': [d1, d2], 'level': lv}))
    jobs.append(('operations:binary', binary_ops(bs, geo, 'bspline', 'bspline', 1, 1, 1, 1, True, True), gen, {'classes': 'scalar x scalar'}))
    jobs.append(('operations:binary', cylinderize_op(bs, geo), gen, {'op': 'cylinderize'}))
    for sdim, dim in [(1, 2), (2, 2)]:
        jobs.append(('operations:nurbs-constructor', nurbs_constructor(geo, sdim, dim), gen, {'sdim': sdim, 'dim': dim}))
    jobs.append(('bdspec', bdspec_harness(bs), gen, {'dim': '1..3', 'axis': '-2..4', 'side': '-1..2'}))

    for grp, h, payload, bound in jobs:
        if not run.want(grp.split(':')[0]) and not run.want(grp): continue
        st = sx.explore(h, timeout_ms=120000 if thorough else 60000, stop_at_first=False, export_every=37 if thorough else 0, sat_search=True, clear_div=True)
        run.absorb(st, grp, bound=bound, sample={'obligation': grp, **bound})
        if thorough and st.smt2: run.cross_check(st.smt2[:1], timeout_s=60)
        if st.cex:
            names = sorted({cx['name'] for cx in st.cex})
            r = replay(payload)
            run.report('%s:%s' % (grp, classify(r['bad'])), '%s %s: solver: %s; real build: %s' % (grp, bound, names[:4], r['bad'][:6]), {'payload': payload, 'failed': names}, r['reproduced'])

    # circles on the real basis
    if run.want('circles'):
        enc2 = srcload.Encoded()
        rbs, rgeo = load_real_geo(enc2)
        run.add_encoded(enc2)
        cj = [('circular_arc_3pt', arc_harness(rgeo, 'circular_arc_3pt', 2)), ('circular_arc_5pt', arc_harness(rgeo, 'circular_arc_5pt', 4)),
              ('circular_arc_7pt', arc_harness(rgeo, 'circular_arc_7pt', 6))]
        for wname in ('semicircle', 'circle', 'disk', 'disk1', 'quarter_annulus'):
            cj.append((wname, fixed_circle_harness(rgeo, wname)))
        cj.append(('circular_arc (dispatcher)', arc_dispatch_harness(enc2)))
        for nm, h in cj:
            st = sx.explore(h, timeout_ms=120000, stop_at_first=False, sat_search=True, clear_div=True)
            run.absorb(st, 'circles:' + nm, bound={'t': 'all of [0,1]', 'r': 'all r > 0'}, sample={'obligation': 'circles', 'constructor': nm})
            if st.cex:
                r = replay(gen)
                run.report('circles:%s:%s' % (nm, classify(r['bad'])), '%s: solver: %s; real build: %s' % (nm, sorted({cx['name'] for cx in st.cex})[:3], r['bad'][:6]), {'payload': gen}, r['reproduced'])

    if not run.args.no_canaries and run.args.only is None:
        def canary(name, file, pat, rep, mk_h, real=False, atoms=False):
            src = srcload.read('pyiga/%s.py' % file)
            if pat not in src: run.canary(name, False, skipped=True); return
            tr = {file: (lambda s: s.replace(pat, rep, 1))}
            if real:
                b2, g2 = load_real_geo(None, tr)
            elif atoms:
                b2, g2, _ = G.load_geo(None, tr, geo_overrides={'BSplineFunc': AtomBSplineFunc}, bspline_attr_overrides={'tp_bsp_eval_with_jac_pointwise': _atom_eval_with_jac})
            else:
                b2, g2, _ = G.load_geo(None, tr)
            st = sx.explore(mk_h(b2, g2), timeout_ms=60000, sat_search=True, clear_div=True)
            run.canary(name, bool(st.cex))
        canary('grid_jacobian: x column last instead of first', 'bspline', 'for i in reversed(range(self.sdim)):  # x-component is the last one\n            ops = [colloc[j][1 if j==i else 0]',
               'for i in range(self.sdim):  # x-component is the last one\n            ops = [colloc[j][1 if j==i else 0]', lambda b, g: bspline_routes(b, 2, (2,), [1, 1], [2, 2]))
        canary('NURBS Hessian: sign of the mixed term', 'geometry', 'H = Nhess1 - mat[..., I, J]', 'H = Nhess1 + mat[..., I, J]', lambda b, g: nurbs_calculus(g, 2, 2, False), atoms=True)
        canary('tensor_product: component order', 'geometry', 'C = np.concatenate((C2,C1), axis=-1)', 'C = np.concatenate((C1,C2), axis=-1)', lambda b, g: binary_ops(b, g, 'bspline', 'bspline', 1, 1, 2, 2))
        canary('NURBS translate forgets the weights', 'geometry', 'return NurbsFunc(self.kvs, C + offset, W)', 'return NurbsFunc(self.kvs, C + offset, W, premultiplied=True)', lambda b, g: unary_ops(b, g, 'nurbs', 1, 2))
        canary('boundary: wrong side', 'bspline', 'slices[axis] = (0 if side==0 else -1)\n        coeffs = self.coeffs[tuple(slices)]\n        kvs = list(self.kvs)\n        del kvs[axis]\n        return BSplineFunc(kvs, coeffs)',
               'slices[axis] = (-1 if side==0 else 0)\n        coeffs = self.coeffs[tuple(slices)]\n        kvs = list(self.kvs)\n        del kvs[axis]\n        return BSplineFunc(kvs, coeffs)', lambda b, g: unary_ops(b, g, 'bspline', 2, 2))
        canary('3-point arc: middle weight', 'geometry', 'W = [1.0, np.cos(alpha / 2), 1.0]', 'W = [1.0, np.cos(alpha), 1.0]', lambda b, g: arc_harness(g, 'circular_arc_3pt', 2), real=True)
        canary('_BoundaryFunction: normal column', 'geometry', 'ax = jacs.shape[-1] - self.axis - 1', 'ax = self.axis', lambda b, g: boundary_function_routes(b, g, 3, 2, 'bspline'))
        canary('composed: coordinate order of the inner value', 'geometry', 'return self.geo2.pointwise_eval(np.rollaxis(XY, -1))', 'return self.geo2.pointwise_eval(np.rollaxis(XY, -1)[::-1])', lambda b, g: composed_routes(b, g, 2, 2, 2, [2, 2], [2, 3], False))
    run.finish()


def replay_file(path):
    w = json.load(open(path))['witness']
    r = replay(w['payload'])
    print(json.dumps(r)); print('REPRODUCED' if r['reproduced'] else 'NOT-REPRODUCED')
    sys.exit(1 if r['reproduced'] else 0)


if __name__ == '__main__':
    if '--replay' in sys.argv:
        replay_file(sys.argv[sys.argv.index('--replay') + 1])
    main_wrapper(main)
