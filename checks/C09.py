"""C09 -- tensor-product fast paths and closed-form Galerkin matrix identities.

Encoded (read from /repo at run time):
  pyiga/assemble_tools_cy.pyx (transliterated): det_and_inv, determinants, inverses and the 2x2/3x3 kernels
  pyiga/quadrature.py (source): gauss_rule, make_iterated_quadrature, make_tensor_quadrature, make_boundary_quadrature
  pyiga/assemble.py (source): _assemble_element_matrices, _create_coo_1d_from_kv, _create_coo_1d_custom, _assemble_matrix_custom,
      bsp_mass_1d, bsp_stiffness_1d, bsp_mixed_deriv_biform_1d(_asym), bsp_mass_1d_asym, bsp_stiffness_1d_asym,
      bsp_mass_2d/3d, bsp_stiffness_2d/3d (Kronecker paths), inner_products, integrate, _Jac_to_boundary_matrix
  pyiga/bspline.py KnotVector (source) + bspline_cy kernels (transliterated) for the basis values at the symbolic Gauss nodes.

The Gauss-Legendre rule is a *symbolic* rule: nodes x_k and weights w_k are solver variables constrained by the contract of
np.polynomial.legendre.leggauss(q):  -1 < x_1 < ... < x_q < 1,  w_k > 0,  sum_k w_k x_k^j = int_{-1}^{1} t^j dt  for j <= 2q-1.
"""
import itertools, json, math, sys
from fractions import Fraction as F
import numpy as np
import scipy.sparse.linalg
import z3

from checks.common import Run, main_wrapper, jsonable
from checks import realbuild
from checks.bsp_oracle import Oracle
from symx import core as sx
from symx.core import Sym, lift
from symx.symnp import SymNP
from symx.symsparse import sparse_facade, SpMat
from symx import srcload
from cyx.load import load_pyx

PID = 'C09'


class _NS:
    def __init__(self, d=None, **kw):
        if d: self.__dict__.update(d)
        self.__dict__.update(kw)


def S(n): return Sym(z3.Real(n))


# ------------------------------------------------------------------------------------------------ symbolic Gauss rule
class GaussStub:
    """leggauss(q) -> (x, w).
    mode 'free' : arbitrary nodes in (-1,1) (ordered) and positive weights -- for the obligations that only concern how the rule is USED
                  (index arithmetic, scaling to the span, which values are multiplied);
    mode 'exact': the Gauss-Legendre rule itself, given by its exact algebraic values through defining equations of auxiliary
                  radicals (r^2 = 3/5, ...), q <= 5 -- for the obligations "equals the exact integral"."""
    def __init__(self): self.rules = {}; self.mode = 'free'
    def reset(self, c): self.rules = {}; self.c = c; self.mode = 'free'
    def set_exact(self): self.mode = 'exact'; self.rules = {}
    def leggauss(self, q):
        q = int(q)
        if q not in self.rules:
            self.rules[q] = self._free(q) if self.mode == 'free' else self._exact(q)
        return self.rules[q]
    def _arr(self, lst): return np.array(list(lst) + [None], dtype=object)[:-1]
    def _free(self, q):
        x = self._arr(S('gx%d_%d' % (q, k)) for k in range(q)); w = self._arr(S('gw%d_%d' % (q, k)) for k in range(q))
        for k in range(q):
            self.c.assume(z3.And(x[k].t > -1, x[k].t < 1, w[k].t > 0))
            if k: self.c.assume(x[k - 1].t < x[k].t)
        return x, w
    def _rad(self, name, square):
        r = S(name); self.c.assume(z3.And(r.t > 0, r.t * r.t == lift(square))); return r
    def _exact(self, q):
        Q = lambda a, b=1: Sym(z3.RealVal(F(a, b)))
        if q == 1: return self._arr([Q(0)]), self._arr([Q(2)])
        if q == 2:
            r = self._rad('g2r', Q(1, 3)); return self._arr([-r, r]), self._arr([Q(1), Q(1)])
        if q == 3:
            r = self._rad('g3r', Q(3, 5)); return self._arr([-r, Q(0), r]), self._arr([Q(5, 9), Q(8, 9), Q(5, 9)])
        if q == 4:
            s_ = self._rad('g4s', Q(6, 5))               # sqrt(6/5);  sqrt(30) = 5 s
            a = self._rad('g4a', Q(3, 7) - Q(2, 7) * s_); b = self._rad('g4b', Q(3, 7) + Q(2, 7) * s_)
            wa = (Q(18) + 5 * s_) / 36; wb = (Q(18) - 5 * s_) / 36
            return self._arr([-b, -a, a, b]), self._arr([wb, wa, wa, wb])
        if q == 5:
            s_ = self._rad('g5s', Q(10, 7))              # sqrt(10/7); sqrt(70) = 7 s
            a = self._rad('g5a', (Q(5) - 2 * s_) / 9); b = self._rad('g5b', (Q(5) + 2 * s_) / 9)
            wa = (Q(322) + 13 * 7 * s_) / 900; wb = (Q(322) - 13 * 7 * s_) / 900
            return self._arr([-b, -a, Q(0), a, b]), self._arr([wb, wa, Q(128, 225), wa, wb])
        raise sx.Inconclusive('exact Gauss rule only encoded for q <= 5')


def _pow(t, j):
    r = z3.RealVal(1)
    for _ in range(j): r = r * t
    return r


GAUSS = GaussStub()


class QuadNP(SymNP):
    @property
    def polynomial(self):
        return _NS(legendre=_NS(leggauss=GAUSS.leggauss))


# ------------------------------------------------------------------------------------------------ loading
ASM_DEFS = ['_assemble_element_matrices', '_create_coo_1d_from_kv', '_create_coo_1d_custom', '_assemble_matrix_custom', 'bsp_mass_1d', 'bsp_stiffness_1d',
            'bsp_mixed_deriv_biform_1d', 'bsp_mixed_deriv_biform_1d_asym', 'bsp_mass_1d_asym', 'bsp_stiffness_1d_asym', 'bsp_mass_2d', 'bsp_stiffness_2d',
            'bsp_mass_3d', 'bsp_stiffness_3d', 'inner_products', 'integrate', '_Jac_to_boundary_matrix']


def load_code(enc=None, transforms=None):
    transforms = transforms or {}
    from checks import C02
    cy, bns = C02.load_code(enc)
    qnp = QuadNP()
    qn = {'np': qnp}
    srcload.load_defs('pyiga/quadrature.py', ['gauss_rule', 'make_iterated_quadrature', 'make_tensor_quadrature', 'make_boundary_quadrature'], qn, encoded=enc, transform=transforms.get('quadrature'))
    kvn = {'np': np, 'pyx_findspan': cy['pyx_findspan'], 'scipy': _NS(sparse=sparse_facade())}
    srcload.load_defs('pyiga/bspline.py', ['KnotVector', 'make_knots'], kvn, encoded=enc)
    atc = load_pyx('pyiga/assemble_tools_cy.pyx', encoded=enc, transform=transforms.get('assemble_tools_cy'))
    atc['np'] = SymNP()
    tn = {'np': SymNP(), 'scipy': _NS(sparse=_NS(issparse=lambda x: isinstance(x, SpMat), linalg=_NS(LinearOperator=scipy.sparse.linalg.LinearOperator)))}
    srcload.load_defs('pyiga/tensor.py', ['apply_tprod', '_modek_tensordot_sparse', 'modek_tprod', 'matricize'], tn, encoded=enc)
    on = {'np': SymNP(), 'scipy': _NS(sparse=_NS(linalg=_NS(LinearOperator=scipy.sparse.linalg.LinearOperator)))}
    srcload.load_defs('pyiga/operators.py', ['DiagonalOperator'] + (['_adjoint_of'] if '_adjoint_of' in srcload.read('pyiga/operators.py') else []), on, encoded=enc)
    un = {'np': SymNP(), 'scipy': _NS(sparse=sparse_facade())}
    srcload.load_defs('pyiga/utils.py', ['grid_eval', '_ensure_grid_shape', '_broadcast_to_grid', 'grid_eval_transformed'], un, encoded=enc)
    bsp = _NS(bns); bsp.KnotVector = kvn['KnotVector']; bsp.active_deriv = cy['active_deriv']
    an = {'np': SymNP(), 'scipy': _NS(sparse=sparse_facade()), 'math': math, 'itertools': itertools, 'bspline': bsp,
          'assemble_tools': _NS(determinants=atc['determinants']), 'tensor': _NS(apply_tprod=tn['apply_tprod']),
          'operators': _NS(DiagonalOperator=on['DiagonalOperator']), 'utils': _NS(un),
          'make_iterated_quadrature': qn['make_iterated_quadrature'], 'make_tensor_quadrature': qn['make_tensor_quadrature']}
    srcload.load_defs('pyiga/assemble.py', ASM_DEFS, an, encoded=enc, transform=transforms.get('assemble'))
    return an, kvn, atc, qn, bsp


# ------------------------------------------------------------------------------------------------ (1) closed forms
def closed_form_harness(atc, d):
    def leib(M):
        if d == 2: return M[0, 0] * M[1, 1] - M[0, 1] * M[1, 0]
        return (M[0, 0] * (M[1, 1] * M[2, 2] - M[1, 2] * M[2, 1]) - M[0, 1] * (M[1, 0] * M[2, 2] - M[1, 2] * M[2, 0])
                + M[0, 2] * (M[1, 0] * M[2, 1] - M[1, 1] * M[2, 0]))
    def run(c):
        gshape = (2, 1) if d == 2 else (1, 2, 1)
        X = sx.symarray('X', gshape + (d, d))
        for idx in np.ndindex(*gshape): c.assume(lift(leib(X[idx])) != 0)
        det, inv = atc['det_and_inv'](X)
        det2 = atc['determinants'](X)
        inv2 = atc['inverses'](X)
        I = np.eye(d, dtype=int).astype(object)
        for idx in np.ndindex(*gshape):
            D = leib(X[idx])
            c.check(z3.And(lift(det[idx]) == lift(D), lift(det2[idx]) == lift(D)), 'det_and_inv / determinants = Leibniz determinant (%dx%d)' % (d, d))
            for nm, Y in (('det_and_inv', inv), ('inverses', inv2)):
                P = X[idx].dot(np.asarray(Y[idx], dtype=object)); Q = np.asarray(Y[idx], dtype=object).dot(X[idx])
                c.check(z3.And(sx.eq_arrays(P, I), sx.eq_arrays(Q, I)), '%s: X Y = Y X = I (%dx%d)' % (nm, d, d))
        c.witness('closed forms')
    return run


class SpanOracle:
    """Cox-de Boor recursion for a point u known to lie strictly inside the span (a,b) of the concrete knot vector kvq:
    the degree-0 indicators are decided by the span, so N and its derivatives are plain polynomials in u (no case splits).
    Independent of pyiga; same recursion as checks/bsp_oracle.py"""
    def __init__(self, kvq, p, u, a, b):
        self.kv = kvq; self.p = p; self.u = u; self.a = F(a); self.b = F(b); self.memo = {}
    def N(self, i, q=None):
        q = self.p if q is None else q
        key = (i, q, 0)
        if key in self.memo: return self.memo[key]
        kv, u = self.kv, self.u
        if q == 0:
            r = z3.RealVal(1) if (kv[i] <= self.a and self.b <= kv[i + 1] and kv[i] < kv[i + 1]) else z3.RealVal(0)
        else:
            d1 = kv[i + q] - kv[i]; d2 = kv[i + q + 1] - kv[i + 1]
            r = z3.RealVal(0)
            if d1 != 0: r = r + (u - z3.RealVal(kv[i])) / z3.RealVal(d1) * self.N(i, q - 1)
            if d2 != 0: r = r + (z3.RealVal(kv[i + q + 1]) - u) / z3.RealVal(d2) * self.N(i + 1, q - 1)
        self.memo[key] = r
        return r
    def dN(self, i, k, q=None):
        q = self.p if q is None else q
        if k == 0: return self.N(i, q)
        key = (i, q, k)
        if key in self.memo: return self.memo[key]
        if q == 0: r = z3.RealVal(0)
        else:
            kv = self.kv
            d1 = kv[i + q] - kv[i]; d2 = kv[i + q + 1] - kv[i + 1]
            r = z3.RealVal(0)
            if d1 != 0: r = r + z3.RealVal(F(q) / d1) * self.dN(i, k - 1, q - 1)
            if d2 != 0: r = r - z3.RealVal(F(q) / d2) * self.dN(i + 1, k - 1, q - 1)
        self.memo[key] = r
        return r


# ------------------------------------------------------------------------------------------------ (2) 1D assembly
def kv_from(kvn, p, breaks, mults):
    kn = [float(breaks[0])] * (p + 1)
    for b, m in zip(breaks[1:-1], mults): kn += [float(b)] * m
    kn += [float(breaks[-1])] * (p + 1)
    return kvn['KnotVector'](np.array(kn), p), [F(x) for x in kn]


def exact_integral(kvq, p1, i, d1, kvq2, p2, j, d2, breaks):
    """exact rational integral of N1_i^{(d1)} N2_j^{(d2)} over [breaks[0], breaks[-1]] (piecewise polynomial: Lagrange interpolation per span)"""
    def dN(kvq, p, i, k, u, last):
        def N(i, q):
            if q == 0:
                lo, hi = kvq[i], kvq[i + 1]
                return F(1) if (lo <= u < hi) or (u == last and lo < hi and hi == last) else F(0)
            a = F(0) if kvq[i + q] == kvq[i] else (u - kvq[i]) / (kvq[i + q] - kvq[i]) * N(i, q - 1)
            b = F(0) if kvq[i + q + 1] == kvq[i + 1] else (kvq[i + q + 1] - u) / (kvq[i + q + 1] - kvq[i + 1]) * N(i + 1, q - 1)
            return a + b
        def D(i, k, q):
            if k == 0: return N(i, q)
            if q == 0: return F(0)
            a = F(0) if kvq[i + q] == kvq[i] else q / (kvq[i + q] - kvq[i]) * D(i, k - 1, q - 1)
            b = F(0) if kvq[i + q + 1] == kvq[i + 1] else q / (kvq[i + q + 1] - kvq[i + 1]) * D(i + 1, k - 1, q - 1)
            return a - b
        return D(i, k, p)
    total = F(0)
    deg = p1 + p2
    for a, b in zip(breaks, breaks[1:]):
        a, b = F(a), F(b)
        if a == b: continue
        # sample strictly inside the span (avoids the knots), integrate the interpolating polynomial of degree <= deg exactly
        pts = [a + (b - a) * F(k + 1, deg + 2) for k in range(deg + 1)]
        vals = [dN(kvq, p1, i, d1, u, None) * dN(kvq2, p2, j, d2, u, None) for u in pts]
        # Lagrange basis integrals
        for m, (um, vm) in enumerate(zip(pts, vals)):
            if vm == 0: continue
            # integral of prod_{l != m} (t - u_l)/(u_m - u_l) over [a,b]: expand the numerator polynomial
            coef = [F(1)]
            den = F(1)
            for l, ul in enumerate(pts):
                if l == m: continue
                coef = [(coef[k - 1] if k > 0 else 0) - ul * (coef[k] if k < len(coef) else 0) for k in range(len(coef) + 1)]
                den *= (um - ul)
            integ = sum(cf * (b ** (k + 1) - a ** (k + 1)) / (k + 1) for k, cf in enumerate(coef))
            total += vm * integ / den
    return total


def assemble1d_harness(an, kvn, p, breaks, mults, du, dv, nqp, weight, exact):
    """bsp_mixed_deriv_biform_1d on a concrete knot vector (dyadic knots: the floats are exact) with the symbolic Gauss rule"""
    def run(c):
        GAUSS.reset(c)
        kv, kvq = kv_from(kvn, p, breaks, mults)
        n = kv.numdofs
        wf = None
        if weight:
            a0, a1 = S('wa'), S('wb')
            wf = lambda x: a0 + a1 * x
        M = an['bsp_mixed_deriv_biform_1d'](kv, du, dv, nqp=nqp, weightfunc=wf).toarray()
        q = nqp if nqp is not None else int(math.ceil((2 * p - du - dv + 1) / 2.0))
        x, w = GAUSS.leggauss(q)
        kz = [z3.RealVal(t) for t in kvq]
        # (A) definition: full quadrature sum with the Cox-de Boor oracle at the mapped nodes
        terms = np.empty((n, n), dtype=object); terms[...] = 0
        for a, b in zip(breaks, breaks[1:]):
            m = (F(a) + F(b)) / 2; h = (F(b) - F(a)) / 2
            for k in range(q):
                u = z3.RealVal(m) + z3.RealVal(h) * x[k].t
                orc = SpanOracle(kvq, p, u, a, b)
                wk = z3.RealVal(h) * w[k].t
                if weight: wk = wk * (a0.t + a1.t * u)
                for i in range(n):
                    for j in range(n):
                        terms[i, j] = terms[i, j] + Sym(wk * orc.dN(i, dv) * orc.dN(j, du))
        c.check(sx.eq_arrays(M, terms), 'bsp_mixed_deriv_biform_1d(du=%d,dv=%d): entry (i,j) = sum_q w_q [weight] N_i^(dv) N_j^(du)' % (du, dv))
        if exact:
            GAUSS.set_exact()
            M = an['bsp_mixed_deriv_biform_1d'](kv, du, dv, nqp=nqp, weightfunc=wf).toarray()
            ex = np.empty((n, n), dtype=object)
            for i in range(n):
                for j in range(n):
                    ex[i, j] = exact_integral(kvq, p, i, dv, kvq, p, j, du, breaks)
            c.check(sx.eq_arrays(M, ex), 'bsp_mixed_deriv_biform_1d(du=%d,dv=%d), default node count: entry = exact integral of the piecewise polynomial' % (du, dv))
            if du == dv == 0:
                c.check(lift(M.sum()) == z3.RealVal(F(breaks[-1]) - F(breaks[0])), 'mass matrix entries sum to the length of the interval')
            if du == dv == 1 and p >= 1:
                c.check(z3.And(*[lift(M[i, :].sum()) == 0 for i in range(n)] + [lift(M[:, j].sum()) == 0 for j in range(n)]), 'stiffness matrix: constants in the kernel (row and column sums vanish)')
        c.witness('assemble1d')
    return run


def sequence_harness(an, kvn, p, breaks, mults, du, dv):
    """call history on one knot vector: weighted, the same weighted call again, then unweighted (and a second weight): every result
    must equal ITS OWN definition -- what one call did to the quadrature rule (weights scaled in place, a memoised rule, ...) must not
    leak into the next.  The same Gauss stub state is kept over the whole sequence (as numpy returns the same rule every time)."""
    def run(c):
        GAUSS.reset(c)
        kv, kvq = kv_from(kvn, p, breaks, mults)
        n = kv.numdofs
        a0, a1, b0, b1 = S('wa'), S('wb'), S('wc'), S('wd')
        q = int(math.ceil((2 * p - du - dv + 1) / 2.0))

        def defn(co):
            x, w = GAUSS.leggauss(q)
            terms = np.empty((n, n), dtype=object); terms[...] = 0
            for a, b in zip(breaks, breaks[1:]):
                m = (F(a) + F(b)) / 2; h = (F(b) - F(a)) / 2
                for k in range(q):
                    u = z3.RealVal(m) + z3.RealVal(h) * x[k].t
                    orc = SpanOracle(kvq, p, u, a, b)
                    wk = z3.RealVal(h) * w[k].t
                    if co is not None: wk = wk * (co[0].t + co[1].t * u)
                    for i in range(n):
                        for j in range(n):
                            terms[i, j] = terms[i, j] + Sym(wk * orc.dN(i, dv) * orc.dN(j, du))
            return terms
        seq = [('weighted', (a0, a1)), ('same weighted call again', (a0, a1)), ('unweighted after weighted', None), ('other weight', (b0, b1)), ('unweighted again', None)]
        for tag, co in seq:
            wf = None if co is None else (lambda x, co=co: co[0] + co[1] * x)
            M = an['bsp_mixed_deriv_biform_1d'](kv, du, dv, weightfunc=wf).toarray()
            c.check(sx.eq_arrays(M, defn(co)), 'call sequence on one knot vector, %s: entry (i,j) = sum_q w_q [weight] N_i^(dv) N_j^(du)' % tag)
        c.witness('assemble1d sequence')
    return run


def asym_harness(an, kvn, p1, p2, breaks, mults1, mults2, du, dv, quad, exact):
    """bsp_mixed_deriv_biform_1d_asym: two spaces on a common mesh; quad = None (mesh of the first space) or 'fine' (bisected mesh)"""
    def run(c):
        GAUSS.reset(c)
        kv1, kq1 = kv_from(kvn, p1, breaks, mults1); kv2, kq2 = kv_from(kvn, p2, breaks, mults2)
        grid = None
        qb = [F(b) for b in breaks]
        if quad == 'fine':
            qb = sorted(set(qb + [(a + b) / 2 for a, b in zip(qb, qb[1:])]))
            grid = np.array([float(t) for t in qb])
        M = an['bsp_mixed_deriv_biform_1d_asym'](kv1, kv2, du, dv, quadgrid=grid).toarray()
        n1, n2 = kv1.numdofs, kv2.numdofs
        c.check(z3.BoolVal(M.shape == (n2, n1)), 'asym: shape = (test dofs, trial dofs)')
        q = int(math.ceil((p1 + p2 - du - dv + 1) / 2.0))
        x, w = GAUSS.leggauss(q)
        k1 = [z3.RealVal(t) for t in kq1]; k2 = [z3.RealVal(t) for t in kq2]
        terms = np.empty((n2, n1), dtype=object); terms[...] = 0
        for a, b in zip(qb, qb[1:]):
            m = (a + b) / 2; h = (b - a) / 2
            for k in range(q):
                u = z3.RealVal(m) + z3.RealVal(h) * x[k].t
                o1 = SpanOracle(kq1, p1, u, a, b); o2 = SpanOracle(kq2, p2, u, a, b)
                for i in range(n2):
                    for j in range(n1):
                        terms[i, j] = terms[i, j] + Sym(z3.RealVal(h) * w[k].t * o2.dN(i, dv) * o1.dN(j, du))
        c.check(sx.eq_arrays(M, terms), 'asym(du=%d,dv=%d): entry (i,j) = sum_q w_q N2_i^(dv) N1_j^(du)' % (du, dv))
        if exact:
            GAUSS.set_exact()
            M = an['bsp_mixed_deriv_biform_1d_asym'](kv1, kv2, du, dv, quadgrid=grid).toarray()
            ex = np.empty((n2, n1), dtype=object)
            for i in range(n2):
                for j in range(n1):
                    ex[i, j] = exact_integral(kq2, p2, i, dv, kq1, p1, j, du, qb)
            c.check(sx.eq_arrays(M, ex), 'asym(du=%d,dv=%d): entry = exact integral (all knots of both spaces on the quadrature grid)' % (du, dv))
        c.witness('asym')
    return run


# ------------------------------------------------------------------------------------------------ (3) Kronecker paths
def kron_harness(an, dim):
    def run(c):
        sizes = [2, 3, 2][:dim]
        Ms = [sx.symarray('M%d' % k, (sizes[k], sizes[k])) for k in range(dim)]
        Ks = [sx.symarray('K%d' % k, (sizes[k], sizes[k])) for k in range(dim)]
        class KV:
            # stand-in with the public attributes of a KnotVector that do not determine the 1D matrices: equal degree, size and end
            # points on axes 0 and 2 (different interior knots -- the 1D matrices of the axes are independent symbols)
            def __init__(self, k): self.k = k; self.p = 2; self.numdofs = sizes[k]; self.numknots = sizes[k] + 3; self.numspans = sizes[k] - 2
            def support(self, j=None): return (0.0, 1.0)
        kvs = tuple(KV(k) for k in range(dim))
        g = an['bsp_mass_2d'].__globals__          # the namespace the encoded functions resolve their callees in
        g['bsp_mass_1d'] = lambda kv, weightfunc=None: SpMat(Ms[kv.k], 'csr')
        g['bsp_stiffness_1d'] = lambda kv, weightfunc=None: SpMat(Ks[kv.k], 'csr')
        def kr(*A):
            r = A[0]
            for B in A[1:]: r = np.kron(r, B)
            return r
        if dim == 2:
            Mm = an['bsp_mass_2d'](kvs).toarray(); Kk = an['bsp_stiffness_2d'](kvs).toarray()
            c.check(sx.eq_arrays(Mm, kr(Ms[0], Ms[1])), 'bsp_mass_2d (no geometry) = M0 (x) M1')
            c.check(sx.eq_arrays(Kk, kr(Ks[0], Ms[1]) + kr(Ms[0], Ks[1])), 'bsp_stiffness_2d (no geometry) = K0 (x) M1 + M0 (x) K1')
        else:
            Mm = an['bsp_mass_3d'](kvs).toarray(); Kk = an['bsp_stiffness_3d'](kvs).toarray()
            c.check(sx.eq_arrays(Mm, kr(Ms[0], Ms[1], Ms[2])), 'bsp_mass_3d (no geometry) = M0 (x) M1 (x) M2')
            c.check(sx.eq_arrays(Kk, kr(Ks[0], Ms[1], Ms[2]) + kr(Ms[0], Ks[1], Ms[2]) + kr(Ms[0], Ms[1], Ks[2])), 'bsp_stiffness_3d (no geometry) = sum of Kronecker terms with one stiffness factor')
        c.witness('kron')
    return run


# ------------------------------------------------------------------------------------------------ (4) inner_products / integrate
def load_harness(an, kvn, dim, with_geo, physical, vec):
    """inner_products / integrate with symbolic data on the Gauss grid: function values, geometry Jacobians, collocation entries"""
    def run(c):
        GAUSS.reset(c)
        ps = [1, 2, 1][:dim]
        brk = [[0, 1], [0, F(1, 2), 1], [0, 2]][:dim]
        kvs = tuple(kv_from(kvn, ps[d], brk[d], [1] * (len(brk[d]) - 2))[0] for d in range(dim))
        nqp = max(ps) + 1
        nq = [nqp * (len(b) - 1) for b in brk]
        # symbolic collocation matrices keyed by knot vector identity
        Cs = {id(kv): sx.symarray('B%d' % d, (nq[d], kv.numdofs)) for d, kv in enumerate(kvs)}
        an['bspline'].collocation = lambda kv, nodes: SpMat(Cs[id(kv)], 'csr')
        comp = (2,) if vec else ()
        Fv = sx.symarray('f', tuple(nq) + comp)
        Jac = sx.symarray('J', tuple(nq) + (dim, dim)) if with_geo else None
        Gv = sx.symarray('g', tuple(nq) + (dim,)) if with_geo else None
        seen = {}
        class _KV1:          # what the public attributes of a degree-1, single-span knot vector look like
            p = 1; numspans = 1; numdofs = 2; numknots = 4
            def support(self, j=None): return (0.0, 1.0)
        class Geo:
            # stands for a (multi)linear B-spline map: an instance of bspline.BSplineFunc with degree-1 single-span knot vectors --
            # its Jacobian is NOT constant (bilinear / trilinear map), every node has its own symbolic Jacobian
            sdim = dim; dim_ = dim
            kvs = tuple(_KV1() for _ in range(dim))
            def _sub(self, arr, grid): return arr[np.ix_(*[range(len(g)) for g in grid])]       # values at the nodes actually asked for
            def grid_eval(self, grid): seen['geo_grid'] = grid; return self._sub(Gv, grid)
            def grid_jacobian(self, grid): return self._sub(Jac, grid)
        an['bspline'].BSplineFunc = Geo
        if physical:
            al, be = S('al'), S('be')
            if dim == 2: fn = lambda x, y: al * x + y * y * be
            else: fn = lambda x, y, z: al * x + y * z + be * z
            Fv = fn(*[Gv[..., i] for i in range(dim)])
            f = fn
        else:
            class Fn:
                def grid_eval(self, grid): seen['f_grid'] = grid; return Fv
            f = Fn()
        geo = Geo() if with_geo else None
        res = an['inner_products'](kvs, f, f_physical=physical, geo=geo)
        tot = an['integrate'](kvs, f, f_physical=physical, geo=geo)
        x, w = GAUSS.leggauss(nqp)
        # quadrature weights per axis from the contract of gauss_rule: h * w_k on each span
        W = []
        for d in range(dim):
            ws = []
            for a, b in zip(brk[d], brk[d][1:]):
                h = (F(b) - F(a)) / 2
                ws += [Sym(z3.RealVal(h) * w[k].t) for k in range(nqp)]
            W.append(ws)
        def det(Jm):
            if dim == 2: return Jm[0, 0] * Jm[1, 1] - Jm[0, 1] * Jm[1, 0]
            return (Jm[0, 0] * (Jm[1, 1] * Jm[2, 2] - Jm[1, 2] * Jm[2, 1]) - Jm[0, 1] * (Jm[1, 0] * Jm[2, 2] - Jm[1, 2] * Jm[2, 0]) + Jm[0, 2] * (Jm[1, 0] * Jm[2, 1] - Jm[1, 1] * Jm[2, 0]))
        ref = np.empty(tuple(kv.numdofs for kv in kvs) + comp, dtype=object); ref[...] = 0
        reftot = np.empty(comp, dtype=object) if vec else None
        if vec: reftot[...] = 0
        else: reftot = 0
        for qi in itertools.product(*[range(n) for n in nq]):
            wq = 1
            for d in range(dim): wq = wq * W[d][qi[d]]
            if with_geo: wq = wq * abs(det(Jac[qi]))
            val = Fv[qi] * wq
            reftot = reftot + val
            for ii in itertools.product(*[range(kv.numdofs) for kv in kvs]):
                b = 1
                for d in range(dim): b = b * Cs[id(kvs[d])][qi[d], ii[d]]
                ref[ii] = ref[ii] + val * b
        c.check(sx.eq_arrays(np.asarray(res, dtype=object), ref), 'inner_products: entry i = sum_q w_q f(q) |det J(q)| prod_d B_d[q_d, i_d]')
        c.check(sx.eq_arrays(np.asarray(tot, dtype=object), np.asarray(reftot, dtype=object)), 'integrate = sum_q w_q f(q) |det J(q)|')
        c.witness('load')
    return run


# ------------------------------------------------------------------------------------------------ (5) outward normals
def normal_harness(an, dim):
    def run(c):
        J = sx.symarray('J', (dim, dim))
        if dim == 2: dJ = J[0, 0] * J[1, 1] - J[0, 1] * J[1, 0]
        else: dJ = (J[0, 0] * (J[1, 1] * J[2, 2] - J[1, 2] * J[2, 1]) - J[0, 1] * (J[1, 0] * J[2, 2] - J[1, 2] * J[2, 0]) + J[0, 2] * (J[1, 0] * J[2, 1] - J[1, 1] * J[2, 0]))
        c.assume(lift(dJ) > 0)
        for ax in range(dim):
            for side in (0, 1):
                B = np.asarray(an['_Jac_to_boundary_matrix']((ax, side), dim))
                Bq = np.array([[F(float(v)) for v in row] for row in B], dtype=object)
                Jb = J.dot(Bq)
                if dim == 2:
                    t = Jb[:, 0]; n = np.array([-t[1], t[0]], dtype=object)
                else:
                    a, b = Jb[:, 0], Jb[:, 1]
                    n = np.array([a[1] * b[2] - a[2] * b[1], a[2] * b[0] - a[0] * b[2], a[0] * b[1] - a[1] * b[0]], dtype=object)
                cidx = dim - 1 - ax                 # coordinate index (x = 0) of the fixed parameter direction
                inward = J[:, cidx] if side == 0 else -J[:, cidx]      # image of the parameter direction pointing INTO the patch
                tang = [J[:, k] for k in range(dim) if k != cidx]
                c.check(z3.And(*[lift(n.dot(tv)) == 0 for tv in tang] + [lift(n.dot(inward)) < 0]),
                        '_Jac_to_boundary_matrix(%s, dim=%d): normal is orthogonal to the face and points outward for det J > 0' % ((ax, side), dim))
        c.witness('normal')
    return run


# ------------------------------------------------------------------------------------------------ replay
REPLAY = r'''
import sys, json, math, itertools, numpy as np
from fractions import Fraction as F
w = json.load(sys.stdin)
from pyiga import assemble, bspline, geometry, assemble_tools
bad = []
rng = np.random.RandomState(11)
def kvf(p, breaks, mults):
    kn = [float(breaks[0])] * (p + 1)
    for b, m in zip(breaks[1:-1], mults): kn += [float(b)] * m
    kn += [float(breaks[-1])] * (p + 1)
    return bspline.KnotVector(np.array(kn), p)
def monomial_test(M, kv1, kv2, du, dv, name):
    """exact-integral check through polynomial reproduction: u = x^a in space 1, v = x^b in space 2 (a <= p1, b <= p2):
    v^T M u must equal int (x^a)^(du) (x^b)^(dv) dx exactly (rational reference)"""
    lo, hi = kv1.support()
    for a in range(kv1.p + 1):
        for b in range(kv2.p + 1):
            cu = bspline.interpolate(kv1, lambda x: x ** a); cv = bspline.interpolate(kv2, lambda x: x ** b)
            def dcoef(k, d):
                r = F(1)
                for t in range(d): r *= (k - t)
                return r if k >= d else F(0)
            ea, eb = a - du, b - dv
            if ea < 0 or eb < 0: ref = 0.0
            else:
                e = ea + eb + 1
                ref = float(dcoef(a, du) * dcoef(b, dv) * (F(hi) ** e - F(lo) ** e) / e)
            got = float(cv @ (M @ cu))
            if abs(got - ref) > 1e-9 * (1 + abs(ref)):
                bad.append('%s: x^%d vs x^%d: %.12g instead of %.12g' % (name, a, b, got, ref)); return
kind = w['kind']
if kind == 'assemble1d':
    for (p, breaks, mults) in ((3, [0, 0.25, 1], [2]), (4, [0, 0.5, 0.75, 2], [1, 3]), (2, [0, 1, 3], [1]), (5, [0, 1], [])):
        kv = kvf(p, breaks, mults)
        for du in range(p + 1):
            for dv in range(p + 1):
                M = assemble.bsp_mixed_deriv_biform_1d(kv, du, dv)
                monomial_test(M, kv, kv, du, dv, 'bsp_mixed_deriv_biform_1d(p=%d,du=%d,dv=%d)' % (p, du, dv))
        M = assemble.bsp_mass_1d(kv); K = assemble.bsp_stiffness_1d(kv)
        if abs(M.sum() - (breaks[-1] - breaks[0])) > 1e-12: bad.append('mass sum')
        # call history: weighted, weighted again, then plain
        wf = lambda x: 1.0 + 2.0 * x
        lo, hi = breaks[0], breaks[-1]; iw = (hi - lo) + (hi * hi - lo * lo)
        for rep in range(2):
            Mw = assemble.bsp_mass_1d(kv, weightfunc=wf)
            if abs(Mw.sum() - iw) > 1e-10: bad.append('sequence: weighted mass sum (call %d)' % (rep + 1)); break
        if abs(assemble.bsp_mass_1d(kv) - M).max() > 1e-12: bad.append('sequence: plain mass matrix differs after weighted assembly')
        Kw = assemble.bsp_stiffness_1d(kv, weightfunc=wf)
        if abs(assemble.bsp_stiffness_1d(kv) - K).max() > 1e-12: bad.append('sequence: plain stiffness matrix differs after weighted assembly')
        if abs(K @ np.ones(kv.numdofs)).max() > 1e-10: bad.append('stiffness kernel')
elif kind == 'asym':
    for (p1, p2, breaks, m1, m2) in ((2, 3, [0, 0.5, 1], [1], [2]), (1, 3, [0, 0.25, 0.5, 2], [1, 1], [1, 2]), (3, 1, [0, 1, 2], [2], [1])):
        kv1 = kvf(p1, breaks, m1); kv2 = kvf(p2, breaks, m2)
        for du in range(min(p1, 2) + 1):
            for dv in range(min(p2, 2) + 1):
                M = assemble.bsp_mixed_deriv_biform_1d_asym(kv1, kv2, du, dv)
                if M.shape != (kv2.numdofs, kv1.numdofs): bad.append('asym shape'); continue
                monomial_test(M, kv1, kv2, du, dv, 'asym(p1=%d,p2=%d,du=%d,dv=%d)' % (p1, p2, du, dv))
elif kind == 'kron':
    kvs2 = (kvf(2, [0, 0.5, 1], [1]), kvf(1, [0, 1, 3], [1])); kvs3 = kvs2 + (kvf(3, [0, 2], []),)
    M = [assemble.bsp_mass_1d(k).toarray() for k in kvs3]; K = [assemble.bsp_stiffness_1d(k).toarray() for k in kvs3]
    kr = lambda *A: np.kron(A[0], kr(*A[1:])) if len(A) > 1 else A[0]
    if not np.allclose(assemble.bsp_mass_2d(kvs2).toarray(), kr(M[0], M[1])): bad.append('bsp_mass_2d')
    if not np.allclose(assemble.bsp_stiffness_2d(kvs2).toarray(), kr(K[0], M[1]) + kr(M[0], K[1])): bad.append('bsp_stiffness_2d')
    if not np.allclose(assemble.bsp_mass_3d(kvs3).toarray(), kr(M[0], M[1], M[2])): bad.append('bsp_mass_3d')
    if not np.allclose(assemble.bsp_stiffness_3d(kvs3).toarray(), kr(K[0], M[1], M[2]) + kr(M[0], K[1], M[2]) + kr(M[0], M[1], K[2])): bad.append('bsp_stiffness_3d')
    # equal degree, size and end points on two axes, different interior knots
    kvg = (kvf(2, [0, 0.5, 1], [1]), kvf(2, [0, 0.25, 1], [1]), kvf(2, [0, 0.75, 1], [2]))
    Mg = [assemble.bsp_mass_1d(k).toarray() for k in kvg]; Kg = [assemble.bsp_stiffness_1d(k).toarray() for k in kvg]
    if not np.allclose(assemble.bsp_mass_2d(kvg[:2]).toarray(), kr(Mg[0], Mg[1])): bad.append('bsp_mass_2d (graded axes)')
    if not np.allclose(assemble.bsp_stiffness_2d(kvg[:2]).toarray(), kr(Kg[0], Mg[1]) + kr(Mg[0], Kg[1])): bad.append('bsp_stiffness_2d (graded axes)')
    if not np.allclose(assemble.bsp_mass_3d(kvg).toarray(), kr(Mg[0], Mg[1], Mg[2])): bad.append('bsp_mass_3d (graded axes)')
    if not np.allclose(assemble.bsp_stiffness_3d(kvg).toarray(), kr(Kg[0], Mg[1], Mg[2]) + kr(Mg[0], Kg[1], Mg[2]) + kr(Mg[0], Mg[1], Kg[2])): bad.append('bsp_stiffness_3d (graded axes)')
elif kind == 'closed':
    for d in (2, 3):
        X = rng.rand(2, 3, d, d) if d == 2 else rng.rand(2, 1, 2, d, d)
        det, inv = assemble_tools.det_and_inv(X)
        if not np.allclose(det, np.linalg.det(X)) or not np.allclose(inv, np.linalg.inv(X)): bad.append('det_and_inv %d' % d)
        if not np.allclose(assemble_tools.determinants(X), np.linalg.det(X)): bad.append('determinants %d' % d)
        if not np.allclose(assemble_tools.inverses(X), np.linalg.inv(X)): bad.append('inverses %d' % d)
elif kind == 'load':
    kvs = (kvf(2, [0, 0.5, 1], [1]), kvf(1, [0, 1], []))
    geo = geometry.bspline_quarter_annulus()
    f = lambda x, y: x * x + y
    # integral of x^2 + y over the quarter annulus r in [1,2] (approximated by the B-spline annulus: use the parametric form instead)
    g = lambda x, y: 3 * x + y * y
    v = assemble.integrate(kvs, g)       # parameter domain [0,1]^2:  int 3x + y^2 = 3/2 + 1/3
    if abs(v - (1.5 + 1.0 / 3)) > 1e-12: bad.append('integrate (parametric polynomial)')
    ip = assemble.inner_products(kvs, g)
    if abs(ip.sum() - (1.5 + 1.0 / 3)) > 1e-12: bad.append('inner_products: sum over the partition of unity')
    # a non-affine degree-1 (bilinear) B-spline map: the trapezoid (0,0),(2,0),(1,1),(0,1) has area 3/2 and int x = 7/6
    trap = bspline.BSplineFunc(2 * (bspline.make_knots(1, 0.0, 1.0, 1),), np.array([[[0.0, 0.0], [2.0, 0.0]], [[0.0, 1.0], [1.0, 1.0]]]))
    if abs(assemble.integrate(kvs, lambda x, y: 1.0 + 0 * x, geo=trap) - 1.5) > 1e-12: bad.append('integrate: area of a bilinear (degree-1 B-spline) image')
    if abs(assemble.integrate(kvs, lambda x, y: x, f_physical=True, geo=trap) - 7.0 / 6.0) > 1e-12: bad.append('integrate: first moment over a bilinear image')
    if abs(assemble.inner_products(kvs, lambda x, y: 1.0 + 0 * x, geo=trap).sum() - 1.5) > 1e-12: bad.append('inner_products: partition of unity over a bilinear image')
    for A in (np.array([[2.0, 1.0], [0.5, 3.0]]), np.array([[1.0, 2.0], [3.0, 0.5]])):       # second one: orientation reversing (det < 0)
        aff = geometry.unit_square().apply_matrix(A)
        if abs(assemble.integrate(kvs, lambda x, y: 1.0 + 0 * x, geo=aff) - abs(np.linalg.det(A))) > 1e-12: bad.append('integrate: area of an affine image')
        vphys = assemble.integrate(kvs, lambda x, y: x, f_physical=True, geo=aff)      # int_{A(Q)} x = |det A| * mean of x over image = |det| * (A @ (.5,.5))[0]
        if abs(vphys - abs(np.linalg.det(A)) * (A @ np.array([0.5, 0.5]))[0]) > 1e-12: bad.append('integrate: physical coordinates order')
        try:
            vv = np.asarray(assemble.integrate(kvs, lambda x, y: (1.0 + 0 * x, 2.0 + 0 * y), geo=aff))
            if vv.shape != (2,) or not np.allclose(vv, abs(np.linalg.det(A)) * np.array([1.0, 2.0])): bad.append('integrate: vector-valued data with geometry: wrong result')
        except Exception as e:
            bad.append('integrate: vector-valued data with geometry: %s' % type(e).__name__)
        try:
            iv = assemble.inner_products(kvs, lambda x, y: (1.0 + 0 * x, 2.0 + 0 * y), geo=aff)
            if not np.allclose(iv.sum(axis=(0, 1)), abs(np.linalg.det(A)) * np.array([1.0, 2.0])): bad.append('inner_products: vector-valued data with geometry')
        except Exception as e:
            bad.append('inner_products: vector-valued data with geometry: %s' % type(e).__name__)
elif kind == 'normal':
    for dim in (2, 3):
        J = rng.rand(dim, dim) + 2 * np.eye(dim)
        if np.linalg.det(J) < 0: J[:, 0] *= -1
        for ax in range(dim):
            for side in (0, 1):
                Jb = J @ assemble._Jac_to_boundary_matrix((ax, side), dim)
                n = np.array([-Jb[1, 0], Jb[0, 0]]) if dim == 2 else np.cross(Jb[:, 0], Jb[:, 1])
                cidx = dim - 1 - ax; inward = J[:, cidx] if side == 0 else -J[:, cidx]
                if not (n @ inward < 0): bad.append('normal dim=%d bdspec=%s' % (dim, (ax, side)))
print(json.dumps({'reproduced': bool(bad), 'bad': bad[:8]}))
'''


def main():
    run = Run(PID, level='other', description='1D Galerkin assembly, Kronecker paths, load vectors/integrals, closed-form determinants/inverses and boundary '
                                              'normals with a symbolic Gauss rule (moment contract), symbolic data and concrete dyadic knot vectors.')
    thorough = run.tier == 'thorough'
    enc = srcload.Encoded()
    an, kvn, atc, qn, bsp = load_code(enc)
    run.add_encoded(enc)
    run.stubs += ['np.polynomial.legendre.leggauss(q) -> symbolic nodes/weights with the moment contract (exactness for degree <= 2q-1), nodes ordered in (-1,1), weights > 0',
                  'np allocation -> object arrays; scipy.sparse -> symsparse (duplicates summed)', 'bspline.collocation in inner_products/integrate -> symbolic matrices',
                  'function / geometry objects -> symbolic value and Jacobian arrays on the Gauss grid', 'bsp_mass_1d / bsp_stiffness_1d inside the Kronecker paths -> symbolic matrices']
    run.assumptions += ['doubles as reals; knot vectors are dyadic rationals (floats exact)', 'Gauss-Legendre contract as stated (that numpy delivers such nodes is a library contract)',
                        'exact-integral reference: Cox-de Boor in exact rational arithmetic + Lagrange interpolation per span (own code, checks/C09.py)']
    run.bounds = {'1D spaces': 'degree 1..3 (4 thorough), <= 3 spans, all interior multiplicity patterns listed, derivative orders du,dv <= min(p,2) (<= p thorough)',
                  'asym': 'degree pairs (1,2),(2,1),(2,3),(1,3); common mesh; quadrature grid = mesh or bisected mesh',
                  'load vectors': '2D/3D, scalar and 2-vector data, with/without geometry, parametric/physical', 'closed forms': '2x2, 3x3, all real matrices with det != 0'}
    run.out_of_scope += ['low-rank fast assembler (fastasm.cc, C++; no IR->SMT translator in reach): not applicable', 'positive (semi)definiteness', 'compiled assemblers with geometry (C01)',
                         'weight functions are checked against the quadrature sum only (the default node count is not exact for them by construction)', 'rounding']

    def fresh(h):
        """every explored path starts from freshly built code objects (0.07 s): module-level state a change may introduce (memo tables,
        arrays scaled in place) then lives exactly as long as it would in one user session made of the calls of this one harness, instead of
        accumulating over all harnesses and paths of this process"""
        def run_(c):
            a, k, t, q, b = load_code()
            for old, new in ((an, a), (kvn, k), (atc, t), (qn, q)):
                old.clear(); old.update(new)
            return h(c)
        return run_

    def do(group, h, kind, bound, to=120000):
        st = sx.explore(fresh(h), timeout_ms=to, stop_at_first=False, sat_search=True, clear_div=True, export_every=29 if thorough else 0)
        run.absorb(st, group, bound=bound, sample={'obligation': group, **bound})
        if thorough and st.smt2: run.cross_check(st.smt2[:1], timeout_s=60)
        if st.cex:
            r = realbuild.run_real(REPLAY, {'kind': kind}, only=['bspline_cy', 'assemble_tools_cy'])
            names = sorted({cx['name'] for cx in st.cex})
            run.report('%s:%s' % (group, ';'.join(b.split(':')[0] for b in r['bad'])[:80]), '%s %s: solver: %s; real build: %s' % (group, bound, names[:3], r['bad'][:4]), {'kind': kind, 'bound': bound}, r['reproduced'])

    if run.want('closed'):
        for d in (2, 3):
            do('closed-forms', closed_form_harness(atc, d), 'closed', {'size': d})
    if run.want('assemble1d'):
        cfgs = [(1, [0, 1], []), (1, [0, F(1, 2), 1], [1]), (2, [0, F(1, 4), 1], [1]), (2, [0, F(1, 2), 1], [2]), (3, [0, 1, 3], [2])]
        if thorough: cfgs += [(3, [0, F(1, 2), 1, 2], [1, 3]), (2, [0, 1, 2, 4], [1, 2]), (4, [0, 1], []), (3, [0, F(1, 4), 1], [1])]
        for p, breaks, mults in cfgs:
            dmax = p if thorough else min(p, 2)
            for du in range(dmax + 1):
                for dv in range(dmax + 1):
                    do('assemble-1d', assemble1d_harness(an, kvn, p, breaks, mults, du, dv, None, False, True), 'assemble1d',
                       {'p': p, 'breaks': [str(b) for b in breaks], 'mults': mults, 'du': du, 'dv': dv, 'nqp': 'default'})
            do('assemble-1d', assemble1d_harness(an, kvn, p, breaks, mults, 0, 0, p + 2, True, False), 'assemble1d',
               {'p': p, 'breaks': [str(b) for b in breaks], 'mults': mults, 'du': 0, 'dv': 0, 'nqp': p + 2, 'weight': 'a + b x'})
        for p, breaks, mults, du, dv in [(1, [0, F(1, 2), 1], [1], 0, 0), (2, [0, F(1, 4), 1], [1], 1, 1)] + ([(2, [0, 1, 3], [2], 0, 1), (3, [0, 1], [], 0, 0)] if thorough else []):
            do('assemble-1d', sequence_harness(an, kvn, p, breaks, mults, du, dv), 'assemble1d',
               {'p': p, 'breaks': [str(b) for b in breaks], 'mults': mults, 'du': du, 'dv': dv, 'sequence': 'weighted, weighted, plain, other weight, plain'})
    if run.want('asym'):
        acfg = [(1, 2, [0, F(1, 2), 1], [1], [1], None, True), (2, 1, [0, 1, 3], [1], [1], 'fine', True), (2, 3, [0, F(1, 2), 1], [1], [2], None, True), (1, 3, [0, 1], [], [], None, True)]
        if thorough: acfg += [(2, 2, [0, F(1, 4), 1], [2], [1], 'fine', True), (3, 1, [0, 1, 2], [2], [1], None, True), (1, 3, [0, 1, 2, 3], [1, 1], [1, 3], None, True)]
        for p1, p2, breaks, m1, m2, quad, exact in acfg:
            for du, dv in [(0, 0), (1, 1), (1, 0), (0, 1)] + ([(2, 0), (0, 2)] if thorough and p1 >= 2 and p2 >= 2 else []):
                if du > p1 or dv > p2: continue
                do('assemble-1d-asym', asym_harness(an, kvn, p1, p2, breaks, m1, m2, du, dv, quad, exact), 'asym',
                   {'p1': p1, 'p2': p2, 'breaks': [str(b) for b in breaks], 'mults': [m1, m2], 'du': du, 'dv': dv, 'quadgrid': quad or 'mesh of space 1'})
    if run.want('kron'):
        for dim in (2, 3):
            do('kronecker-paths', kron_harness(an, dim), 'kron', {'dim': dim})

    if run.want('load'):
        an, kvn, atc, qn, bsp = load_code()
        lcfg = [(2, False, False, False), (2, True, False, False), (2, True, True, False), (2, True, False, True), (3, True, False, False)]
        if thorough: lcfg += [(3, True, True, False), (3, False, False, True), (2, False, False, True)]
        for dim, wg, phys, vec in lcfg:
            do('load-vectors', load_harness(an, kvn, dim, wg, phys, vec), 'load', {'dim': dim, 'geometry': wg, 'physical': phys, 'vector data': vec})
    if run.want('normal'):
        for dim in (2, 3):
            do('boundary-normals', normal_harness(an, dim), 'normal', {'dim': dim})

    if not run.args.no_canaries and run.args.only is None:
        def canary(name, file, pat, rep, mk):
            src = srcload.read(file) if not file.endswith('.pyx') else open('/repo/' + file).read()
            if pat not in src: run.canary(name, False, skipped=True); return
            key = {'pyiga/assemble.py': 'assemble', 'pyiga/quadrature.py': 'quadrature', 'pyiga/assemble_tools_cy.pyx': 'assemble_tools_cy'}[file]
            a2, k2, t2, q2, b2 = load_code(None, {key: (lambda s: s.replace(pat, rep, 1))})
            st = sx.explore(mk(a2, k2, t2), timeout_ms=60000, sat_search=True, clear_div=True)
            run.canary(name, bool(st.cex))
        canary('1D assembly: too few Gauss nodes', 'pyiga/assemble.py', 'nqp = int(math.ceil((2 * knotvec.p - du - dv + 1) / 2.0))', 'nqp = int(math.ceil((2 * knotvec.p - du - dv) / 2.0))',
               lambda a, k, t: assemble1d_harness(a, k, 2, [0, F(1, 2), 1], [1], 0, 0, None, False, True))
        canary('1D assembly: trial/test derivative orders swapped', 'pyiga/assemble.py', 'derivs[dv, :, :], derivs[du, :, :], I, J, qweights)', 'derivs[du, :, :], derivs[dv, :, :], I, J, qweights)',
               lambda a, k, t: assemble1d_harness(a, k, 2, [0, F(1, 2), 1], [1], 1, 0, None, False, True))
        canary('asym: first-active indices swapped', 'pyiga/assemble.py', 'derivs2.shape[0], derivs1.shape[0], first_act2, first_act1)', 'derivs2.shape[0], derivs1.shape[0], first_act1, first_act2)',
               lambda a, k, t: asym_harness(a, k, 1, 2, [0, F(1, 2), 1], [1], [2], 0, 0, None, True))
        canary('stiffness 3D: wrong Kronecker factor', 'pyiga/assemble.py', 'K12 = k(MK[1][1], MK[2][0]) + k(MK[1][0], MK[2][1])', 'K12 = k(MK[1][1], MK[2][0]) + k(MK[1][1], MK[2][1])', lambda a, k, t: kron_harness(a, 3))
        canary('gauss_rule: weights not scaled by the half length', 'pyiga/quadrature.py', 'weights = np.outer(h,w)', 'weights = np.outer(2*h,w)', lambda a, k, t: assemble1d_harness(a, k, 1, [0, F(1, 2), 1], [1], 0, 0, None, False, True))
        canary('quadrature rule memoised and scaled in place by a weighted call', 'pyiga/quadrature.py', 'def make_iterated_quadrature(intervals, nqp):\n    return gauss_rule(nqp, intervals[:-1], intervals[1:])',
               '_MEMO = {}\ndef make_iterated_quadrature(intervals, nqp):\n    key = (tuple(intervals), nqp)\n    if key not in _MEMO: _MEMO[key] = gauss_rule(nqp, intervals[:-1], intervals[1:])\n    return _MEMO[key]',
               lambda a, k, t: sequence_harness(a, k, 1, [0, F(1, 2), 1], [1], 0, 0))
        canary('inverse 2x2: sign of an off-diagonal entry', 'pyiga/assemble_tools_cy.pyx', 'Y[i,j, 0,1] = -b / det', 'Y[i,j, 0,1] = b / det', lambda a, k, t: closed_form_harness(t, 2))
        canary('integrate: forgets |det J|', 'pyiga/assemble.py', '        fvals *= geo_det\n    # sum over all coordinate axes', '    # sum over all coordinate axes', lambda a, k, t: load_harness(a, k, 2, True, False, False))
        canary('boundary matrix: upper side not flipped', 'pyiga/assemble.py', 'if side != 0:           # for the upper limit', 'if side == 7:           # for the upper limit', lambda a, k, t: normal_harness(a, 2))
    run.finish()


def replay_file(path):
    w = json.load(open(path))['witness']
    r = realbuild.run_real(REPLAY, {'kind': w['kind']}, only=['bspline_cy', 'assemble_tools_cy'])
    print(json.dumps(r)); print('REPRODUCED' if r['reproduced'] else 'NOT-REPRODUCED')
    sys.exit(1 if r['reproduced'] else 0)


if __name__ == '__main__':
    if '--replay' in sys.argv:
        replay_file(sys.argv[sys.argv.index('--replay') + 1])
    main_wrapper(main)
