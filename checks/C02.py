"""C02 -- B-spline basis evaluation is exact, local, non-negative and sums to one.

Encoded: pyiga/bspline_cy.pyx (whole file, transliterated: pyx_findspan, pyx_findspans,
bspline_active_deriv_single, active_deriv); pyiga/bspline.py: active_ev, _bspline_single_ev_single,
single_ev, collocation, collocation_info, collocation_derivs, collocation_derivs_info;
pyiga/assemble_tools.py: compute_values_derivs.   Oracle: checks/bsp_oracle.py (Cox-de Boor).
"""
import itertools, json, sys
from fractions import Fraction as F
import numpy as np
import z3

from checks.common import Run, main_wrapper, jsonable
from checks import realbuild
from checks.bsp_oracle import Oracle, symbolic_knots, concrete_knots, KV
from symx import core as sx
from symx.core import Sym, lift
from symx.symnp import SymNP
from symx.symsparse import sparse_facade
from symx import srcload
from cyx.load import load_pyx

PID = 'C02'


class _NS:
    def __init__(self, d): self.__dict__.update(d)


def load_code(enc=None, cy_transform=None, py_transform=None):
    cy = load_pyx('pyiga/bspline_cy.pyx', encoded=enc, transform=cy_transform)
    cy['np'] = SymNP()
    sc = _NS({}); sc.sparse = sparse_facade()
    ns = {'np': SymNP(), 'scipy': sc, 'active_deriv': cy['active_deriv'], 'pyx_findspan': cy['pyx_findspan'],
          'pyx_findspans': cy['pyx_findspans']}
    srcload.load_defs('pyiga/bspline.py', ['active_ev', '_bspline_single_ev_single', 'single_ev', 'collocation',
                                           'collocation_info', 'collocation_derivs', 'collocation_derivs_info'],
                      ns, encoded=enc, transform=py_transform)
    at = {'np': SymNP(), 'bspline': _NS(ns)}
    srcload.load_defs('pyiga/assemble_tools.py', ['compute_values_derivs'], at, encoded=enc)
    ns['compute_values_derivs'] = at['compute_values_derivs']
    return cy, ns


def val(x):
    return sx._toreal(lift(x))


def kernel_harness(kvz, pre, p, numderiv, cy, ns, what=('oracle', 'props', 'single')):
    u = z3.Real('u')
    n = len(kvz) - p - 1

    def run(c):
        for q in pre: c.assume(q)
        c.assume(z3.And(u >= kvz[0], u <= kvz[-1]))
        kv = KV(kvz, p)
        span = cy['pyx_findspan'](kv.kv, p, Sym(u))
        res = np.asarray(cy['active_deriv'](kv, Sym(u), numderiv))
        first = span - p
        orc = Oracle(kvz, p, u)
        # span contract (also C19): the unique non-empty span containing u, last one at the right end
        c.check(z3.And(z3.BoolVal(p <= span < len(kvz) - p - 1), kvz[span] <= u, kvz[span] < kvz[span + 1],
                       z3.Or(u < kvz[span + 1], z3.And(u == kvz[-1], kvz[span + 1] == kvz[-1]))), 'findspan contract')
        if 'oracle' in what:
            eqs = []
            for k in range(numderiv + 1):
                for j in range(p + 1):
                    eqs.append(val(res[k, j]) == orc.dN(first + j, k))
            c.check(z3.And(*eqs), 'values and derivatives = Cox-de Boor')
            c.check(z3.And(*[orc.N(i) == 0 for i in range(n) if i < first or i > first + p] or [z3.BoolVal(True)]),
                    'functions outside first_active..first_active+p vanish')
        if 'props' in what:
            c.check(z3.And(*[val(res[0, j]) >= 0 for j in range(p + 1)]), 'non-negative')
            c.check(z3.Sum([val(res[0, j]) for j in range(p + 1)]) == 1, 'partition of unity')
            for k in range(1, numderiv + 1):
                c.check(z3.Sum([val(res[k, j]) for j in range(p + 1)]) == 0, 'derivatives sum to zero')
                if k > p:
                    c.check(z3.And(*[val(res[k, j]) == 0 for j in range(p + 1)]), 'orders > p vanish')
        if 'single' in what:
            # single-function route = all-active route (value of every basis function)
            sv = [ns['single_ev'](kv, i, Sym(u)) for i in range(n)]
            eqs = []
            for i in range(n):
                if first <= i <= first + p:
                    eqs.append(val(sv[i]) == val(res[0, i - first]))
                else:
                    eqs.append(val(sv[i]) == 0)
            c.check(z3.And(*eqs), 'single_ev = active_ev (all functions)')
        c.witness('kernel')
    return run, u


def load_splev_routes(enc=None, py_transform=None):
    """bspline.ev / bspline.deriv with scipy.interpolate.splev bound to its documented contract (FITPACK splev/splder):
    splev(x, (t, c, k), der) = sum_i c_i N_{i,k,t}^(der)(x) for 0 <= der <= k (right-continuous, right end closed), ValueError otherwise"""
    def splev(x, tck, der=0, ext=0):
        t, c, k = tck
        if not (0 <= der <= k): raise ValueError('0<=der=%d<=k=%d must hold' % (der, k))
        tz = [lift(v) for v in list(t)]
        out = np.empty(len(x), dtype=object)
        for r, u in enumerate(list(x)):
            orc = Oracle(tz, k, lift(u))
            out[r] = Sym(z3.Sum([lift(c[i]) * orc.dN(i, der) for i in range(len(tz) - k - 1)]))
        return out
    sc = _NS({}); sc.interpolate = _NS({'splev': splev})
    ns = {'np': SymNP(), 'scipy': sc}
    srcload.load_defs('pyiga/bspline.py', ['ev', 'deriv'], ns, encoded=enc, transform=py_transform)
    return ns


def splev_harness(kvz, pre, p, cy, sns):
    """ev/deriv (the FITPACK route) = sum_i c_i N_i^(d) with the values of the active_deriv route, for every derivative order 0..p"""
    u = z3.Real('u')
    n = len(kvz) - p - 1
    cs = [z3.Real('c%d' % i) for i in range(n)]

    def run(c):
        for q in pre: c.assume(q)
        c.assume(z3.And(u >= kvz[0], u <= kvz[-1]))
        kv = KV(kvz, p)
        coeffs = np.empty(n, dtype=object)
        for i, t in enumerate(cs): coeffs[i] = Sym(t)
        nodes = np.empty(1, dtype=object); nodes[0] = Sym(u)
        span = cy['pyx_findspan'](kv.kv, p, Sym(u)); first = span - p
        res = np.asarray(cy['active_deriv'](kv, Sym(u), p))
        v = sns['ev'](kv, coeffs, nodes)
        c.check(val(v[0]) == z3.Sum([cs[first + j] * val(res[0, j]) for j in range(p + 1)]), 'ev (splev route) = sum c_i N_i (active_ev route)')
        for d in range(p + 1):
            dv = sns['deriv'](kv, coeffs, d, nodes)
            c.check(val(np.asarray(dv).ravel()[0]) == z3.Sum([cs[first + j] * val(res[d, j]) for j in range(p + 1)]),
                    'deriv(order d <= p) (splev route) = sum c_i N_i^(d) (active_deriv route)')
        c.witness('splev routes')
    return run, u, cs


REPLAY_SPLEV = r'''
import sys, json, numpy as np
from fractions import Fraction as F
w = json.load(sys.stdin)
from pyiga import bspline
p = w['p']; kv = bspline.KnotVector(np.array([float(F(x)) for x in w['kv']]), p)
rng = np.random.RandomState(3)
bad = []
br = np.unique(kv.kv)
us = np.concatenate(([float(F(w['u']))], (br[:-1] + br[1:]) / 2, br[:-1] + 0.3 * (br[1:] - br[:-1])))
for c in (np.array([float(F(x)) for x in w['c']]), rng.rand(kv.numdofs)):
    try:
        D = bspline.collocation_derivs(kv, us, derivs=p)
        if not np.allclose(bspline.ev(kv, c, us), D[0] @ c, atol=1e-9): bad.append('ev')
        for d in range(p + 1):
            got = np.asarray(bspline.deriv(kv, c, d, us), dtype=float)
            ref = D[d] @ c
            if got.shape != ref.shape or not np.allclose(got, ref, rtol=1e-7, atol=1e-8 * (1 + abs(ref).max())): bad.append('deriv order %d' % d)
    except Exception as e:
        bad.append('exception %s: %s' % (type(e).__name__, e))
print(json.dumps({'reproduced': bool(bad), 'bad': sorted(set(bad))}))
'''


def colloc_harness(kvz, pre, p, derivs, npts, cy, ns):
    us = [z3.Real('u%d' % i) for i in range(npts)]
    n = len(kvz) - p - 1

    def run(c):
        for q in pre: c.assume(q)
        for u in us: c.assume(z3.And(u >= kvz[0], u <= kvz[-1]))
        kv = KV(kvz, p)
        nodes = np.empty(npts, dtype=object)
        for i, u in enumerate(us): nodes[i] = Sym(u)
        C = ns['collocation'](kv, nodes).toarray()
        Cd = [m.toarray() for m in ns['collocation_derivs'](kv, nodes, derivs=derivs)]
        V = ns['compute_values_derivs'](kv, nodes, derivs)
        ae = ns['active_ev'](kv, nodes)
        idx, vals = ns['collocation_info'](kv, nodes)
        eqs = []; eqs2 = []; eqs3 = []
        for r, u in enumerate(us):
            orc = Oracle(kvz, p, u)
            for j in range(n):
                eqs.append(val(C[r, j]) == orc.N(j))
                for d in range(derivs + 1):
                    eqs2.append(val(Cd[d][r, j]) == orc.dN(j, d))
                    eqs3.append(val(V[j, r, d]) == val(Cd[d][r, j]))
            for j in range(p + 1):
                eqs3.append(val(ae[j, r]) == val(vals[r, j]))
                eqs3.append(val(vals[r, j]) == val(C[r, int(idx[r]) + j]))
        c.check(z3.And(*eqs), 'collocation matrix = Cox-de Boor values')
        c.check(z3.And(*eqs2), 'derivative collocation matrices = Cox-de Boor derivatives')
        c.check(z3.And(*eqs3), 'compute_values_derivs / active_ev / collocation_info agree with the matrices')
        c.witness('colloc')
    return run, us


REPLAY = r'''
import sys, json, numpy as np
from fractions import Fraction as F
w = json.load(sys.stdin)
from pyiga import bspline
kvq = [F(x) for x in w['kv']]; p = w['p']
US = [F(x) for x in (w.get('us') or [w['u']])]
kv = bspline.KnotVector(np.array([float(x) for x in kvq]), p)
n = kv.numdofs
def N(u, i, q):
    if q == 0:
        lo, hi = kvq[i], kvq[i+1]
        return F(1) if (lo <= u < hi) or (u == kvq[-1] and lo < hi and hi == kvq[-1]) else F(0)
    d1 = kvq[i+q] - kvq[i]; d2 = kvq[i+q+1] - kvq[i+1]
    return (0 if d1 == 0 else (u - kvq[i]) / d1 * N(u, i, q-1)) + (0 if d2 == 0 else (kvq[i+q+1] - u) / d2 * N(u, i+1, q-1))
def dN(u, i, k, q):
    if k == 0: return N(u, i, q)
    if q == 0: return F(0)
    d1 = kvq[i+q] - kvq[i]; d2 = kvq[i+q+1] - kvq[i+1]
    return (0 if d1 == 0 else q / d1 * dN(u, i, k-1, q-1)) - (0 if d2 == 0 else q / d2 * dN(u, i+1, k-1, q-1))
nd = w['numderiv']
bad = []
def close(got, ref):
    # "to rounding accuracy", row by row relative to the size of the row (derivatives on long spans are tiny but not zero)
    got = np.asarray(got, dtype=float); ref = np.asarray(ref, dtype=float)
    return got.shape == ref.shape and np.all(np.abs(got - ref) <= 1e-7 * np.abs(ref).max() + 1e-300) if ref.size else got.shape == ref.shape
try:
    REF = [np.array([[float(dN(u, i, k, p)) for i in range(n)] for k in range(nd + 1)]) for u in US]
    for u, ref in zip(US, REF):
        uf = float(u)
        first = kv.first_active_at(uf)
        res = np.asarray(bspline.active_deriv(kv, uf, nd))
        got = np.zeros((nd + 1, n)); got[:, first:first+p+1] = res
        if not all(close(got[k], ref[k]) for k in range(nd + 1)): bad.append('active_deriv')
        sv = np.array([bspline.single_ev(kv, i, uf) for i in range(n)])
        if not close(sv, ref[0]): bad.append('single_ev')
        C = bspline.collocation(kv, np.array([uf])).toarray()[0]
        if not close(C, ref[0]): bad.append('collocation')
        Cd = [m.toarray()[0] for m in bspline.collocation_derivs(kv, np.array([uf]), derivs=min(nd, 2))]
        for d, row in enumerate(Cd):
            if not close(row, ref[d]): bad.append('collocation_derivs[%d]' % d)
    # array forms with the nodes in the given order (also: reversed, and a back-and-forth order over further points)
    orders = [list(range(len(US)))]
    if len(US) > 1: orders.append(orders[0][::-1])
    br = sorted(set(kvq)); extra = [(a + b) / 2 for a, b in zip(br, br[1:])]
    PTS = US + extra; REFX = REF + [np.array([[float(dN(u, i, k, p)) for i in range(n)] for k in range(nd + 1)]) for u in extra]
    zig = sorted(range(len(PTS)), key=lambda j: PTS[j]); zig = zig[::2] + zig[1::2][::-1]
    for order, pts, refs in [(o, US, REF) for o in orders] + [(zig, PTS, REFX), (zig[::-1], PTS, REFX)]:
        arr = np.array([float(pts[j]) for j in order])
        A = np.asarray(bspline.active_deriv(kv, arr, nd))        # (nd+1, p+1, npts)
        Cm = bspline.collocation(kv, arr).toarray()
        Cds = [m.toarray() for m in bspline.collocation_derivs(kv, arr, derivs=min(nd, 2))]
        for r, j in enumerate(order):
            first = kv.first_active_at(float(pts[j]))
            got = np.zeros((nd + 1, n)); got[:, first:first+p+1] = A[:, :, r]
            if not all(close(got[k], refs[j][k]) for k in range(nd + 1)): bad.append('active_deriv (array argument, node order %s)' % order)
            if not close(Cm[r], refs[j][0]): bad.append('collocation (array argument, node order %s)' % order)
            for d in range(len(Cds)):
                if not close(Cds[d][r], refs[j][d]): bad.append('collocation_derivs[%d] (array argument, node order %s)' % (d, order))
except Exception as e:
    bad.append('exception %s: %s' % (type(e).__name__, e))
print(json.dumps({'reproduced': bool(bad), 'bad': sorted(set(bad))[:8]}))
'''


def witness_from(model, kvz, p, us, numderiv):
    kvv = [sx.model_value(model, t) for t in kvz]
    ul = us if isinstance(us, list) else [us]
    return {'kv': [str(F(v)) for v in kvv], 'p': p, 'numderiv': numderiv, 'u': str(F(sx.model_value(model, ul[0]))),
            'us': [str(F(sx.model_value(model, t))) for t in ul]}


def robustify(run, h_factory, kvz, pre):
    """counterexamples on a measure-zero set with rational knots replay exactly since the replay oracle is rational"""
    return None


def main():
    run = Run(PID, level='other', description='B-spline kernels vs the Cox-de Boor recursion for all real evaluation points, '
                                              'with fully symbolic or concrete rational knot vectors.')
    thorough = run.tier == 'thorough'
    enc = srcload.Encoded()
    cy, ns = load_code(enc)
    run.add_encoded(enc)
    run.stubs += ['scipy.interpolate.splev -> contract stub: sum_i c_i N_i^(der)(x) for 0 <= der <= k (right-continuous), ValueError otherwise', 'np allocation -> object arrays (symnp)', 'scipy.sparse.coo_matrix(...).tocsr() -> dense object matrix (symsparse)']
    run.assumptions += ['doubles interpreted as exact reals ("to rounding accuracy" is outside the claim)',
                        'documented precondition only: open knot vector, non-decreasing knots, interior multiplicity <= p, u in [a,b]',
                        'C array reads with negative index (numderiv > p+1 reads NDU[-1,..]; result multiplied by fac = 0) follow numpy wrap-around here; in C this is an out-of-bounds read -- reported separately in DESIGN.md, not decided']
    run.bounds = {'symbolic knots': 'p<=3 quick / p<=4 thorough, <=3 (quick) / <=5 (thorough) interior knots, coincident knots included',
                  'concrete rational knots, symbolic u': 'p<=6 quick (8 on two representatives) / p<=12 thorough',
                  'derivative orders': '0..p+2', 'collocation': '1-2 symbolic nodes, derivs<=2'}
    run.out_of_scope += ['rounding error', 'FITPACK itself (scipy splev is FFI): bspline.ev/deriv are checked under the documented splev contract, the real replay runs the real FITPACK', 'p>12', 'tensor-product evaluators (see C07)']

    def do(group, h, bound, kvz, p, us, nd, to=60000):
        st = sx.explore(h, timeout_ms=to, export_every=11 if thorough else 0, max_paths=5000)
        run.absorb(st, group, bound=bound, sample={'obligation': group, **bound})
        if thorough and st.smt2: run.cross_check(st.smt2[:1], timeout_s=60)
        for cex in st.cex:
            w = witness_from(cex['model'], kvz, p, us, nd)
            r = realbuild.run_real(REPLAY, w)
            run.report('%s:%s' % (group, cex['name']), '%s fails for p=%d kv=%s u=%s (%s)' % (cex['name'], p, w['kv'], w['u'], r['bad']),
                       w, r['reproduced'])

    # ---- (a) fully symbolic knot vectors
    if run.want('symbolic'):
        cfg = [(1, 2), (2, 2), (2, 3), (3, 1), (3, 2)]
        if thorough: cfg += [(1, 4), (2, 4), (3, 3), (3, 4), (4, 2), (4, 3), (2, 5)]
        for p, nint in cfg:
            kvz, pre = symbolic_knots(p, nint)
            nd = p + 2
            what = ('oracle', 'props', 'single') if (p <= 2 or thorough) else ('oracle', 'props')
            h, u = kernel_harness(kvz, pre, p, nd, cy, ns, what=what)
            do('symbolic-knots kernel', h, {'p': p, 'interior knots': nint, 'numderiv': nd}, kvz, p, u, nd, to=120000 if thorough else 60000)
        for p, nint in [(1, 1), (2, 2)] + ([(3, 2), (2, 3)] if thorough else []):
            kvz, pre = symbolic_knots(p, nint)
            h, us = colloc_harness(kvz, pre, p, 2, 2 if p < 3 else 1, cy, ns)
            do('symbolic-knots collocation', h, {'p': p, 'interior knots': nint, 'derivs': 2, 'nodes': 2 if p < 3 else 1}, kvz, p, us, 2)

    # ---- (b) concrete rational knot vectors, symbolic evaluation point
    if run.want('concrete'):
        fam = []
        degs = [1, 2, 3, 4, 5, 6] if not thorough else list(range(0, 11))
        for p in degs:
            mm = max(p, 1)
            fam.append((p, [0, F(1, 3), F(1, 2), 1], [1, min(2, mm)]))
            fam.append((p, [0, F(1, 10**6), F(3, 10), 1], [min(mm, 3), 1]))
            if p >= 2:
                fam.append((p, [-2, F(-1, 1000), F(1, 7), 5, 10**4], [mm, 1, mm - 1]))
        fam.append((8, [0, F(1, 10**6), F(3, 10), 1], [1, 3]))
        fam.append((8, [0, F(1, 4), F(1, 2), 1], [8, 1]))
        if thorough:
            fam.append((12, [0, F(1, 4), F(1, 2), 1], [1, 1]))
            for p in (2, 3, 4):
                for mults in itertools.product(range(1, p + 1), repeat=3):
                    fam.append((p, [0, F(1, 5), F(1, 2), F(9, 10), 1], list(mults)))
        for p, breaks, mults in fam:
            if p == 0: mults = [1] * (len(breaks) - 2)
            kvz, kvq = concrete_knots(p, breaks, mults)
            nd = p + 2 if p <= 6 else 3
            h, u = kernel_harness(kvz, [], p, nd, cy, ns, what=('oracle', 'props', 'single') if p <= 6 else ('oracle', 'props'))
            do('concrete-knots kernel', h, {'p': p, 'breaks': [str(b) for b in breaks], 'mults': mults, 'numderiv': nd}, kvz, p, u, nd,
               to=300000 if thorough else 60000)
        for p, breaks, mults in [(2, [0, F(1, 3), 1], [2]), (3, [0, F(1, 1000), F(1, 2), 1], [1, 3])]:
            kvz, kvq = concrete_knots(p, breaks, mults)
            h, us = colloc_harness(kvz, [], p, 2, 2, cy, ns)
            do('concrete-knots collocation', h, {'p': p, 'breaks': [str(b) for b in breaks], 'mults': mults}, kvz, p, us, 2)

    # ---- (c) the FITPACK route ev/deriv under the splev contract
    if run.want('splev'):
        enc2 = srcload.Encoded(); sns = load_splev_routes(enc2); run.add_encoded(enc2)
        scfg = [('sym', 1, 1), ('sym', 2, 1), ('sym', 2, 2)] + ([('sym', 3, 2), ('sym', 3, 3)] if thorough else [])
        scfg += [('con', 3, ([0, F(1, 3), F(1, 2), 1], [1, 3])), ('con', 4, ([0, F(1, 4), 1], [2]))] + ([('con', 6, ([0, F(1, 3), 1], [4]))] if thorough else [])
        for kind, p, arg in scfg:
            if kind == 'sym': kvz, pre = symbolic_knots(p, arg); bound = {'p': p, 'interior knots': arg}
            else:
                kvz, kvq = concrete_knots(p, arg[0], arg[1]); pre = []; bound = {'p': p, 'breaks': [str(b) for b in arg[0]], 'mults': arg[1]}
            h, u, cs = splev_harness(kvz, pre, p, cy, sns)
            st = sx.explore(h, timeout_ms=120000 if thorough else 60000, max_paths=5000)
            run.absorb(st, 'splev routes (ev/deriv)', bound=bound, sample={'obligation': 'ev/deriv', **bound})
            for cex in st.cex:
                m = cex['model']
                w = {'kv': [str(F(sx.model_value(m, t))) for t in kvz], 'p': p, 'u': str(F(sx.model_value(m, u))), 'c': [str(F(sx.model_value(m, t))) for t in cs], 'kind': 'splev'}
                r = realbuild.run_real(REPLAY_SPLEV, w)
                run.report('splev:%s' % cex['name'][:50], '%s fails for p=%d kv=%s u=%s (%s)' % (cex['name'], p, w['kv'], w['u'], r['bad']), w, r['reproduced'])

    # ---- translator validation on the repo's test inputs
    if run.want('validate'):
        validate(run)

    # ---- canaries
    if not run.args.no_canaries and run.want('symbolic'):
        def canary(name, pat, rep, where='cy'):
            src = open('/repo/pyiga/' + ('bspline_cy.pyx' if where == 'cy' else 'bspline.py')).read()
            if pat not in src:
                run.canary(name, False, skipped=True); return
            tr = lambda s: s.replace(pat, rep, 1)
            cy2, ns2 = load_code(cy_transform=tr if where == 'cy' else None, py_transform=tr if where == 'py' else None)
            kvz, pre = symbolic_knots(2, 2)
            h, _ = kernel_harness(kvz, pre, 2, 3, cy2, ns2)
            st = sx.explore(h, timeout_ms=60000)
            run.canary(name, bool(st.cex))
        canary('findspan: >= -> > at right end', 'if u >= kv[n - p - 1]:', 'if u > kv[n - p - 1]:')
        canary('findspan: kv[c] > u -> >=', 'if kv[c] > u:', 'if kv[c] >= u:')
        canary('derivative factor', 'fac *= pk', 'fac *= (pk + 1)')
        canary('single_ev degree-0 indicator', 'if u >= kv[i+j] and u < kv[i+j+1]:', 'if u > kv[i+j] and u < kv[i+j+1]:', where='py')
        def canary2(name, pat, rep):
            if pat not in srcload.read('pyiga/bspline.py'): run.canary(name, False, skipped=True); return
            sns2 = load_splev_routes(py_transform=lambda t: t.replace(pat, rep, 1))
            kvz, pre = symbolic_knots(2, 1)
            h, _, _ = splev_harness(kvz, pre, 2, cy, sns2)
            st = sx.explore(h, timeout_ms=60000)
            run.canary(name, bool(st.cex))
        canary2('deriv: highest derivative order treated as zero', "    return scipy.interpolate.splev(u, (knotvec.kv, coeffs, knotvec.p), der=deriv)",
                "    if deriv >= knotvec.p: return np.zeros(np.shape(u))\n    return scipy.interpolate.splev(u, (knotvec.kv, coeffs, knotvec.p), der=deriv)")
        canary2('ev: evaluates with degree p-1', 'return scipy.interpolate.splev(u, (knotvec.kv, coeffs, knotvec.p))', 'return scipy.interpolate.splev(u, (knotvec.kv[1:-1], coeffs, knotvec.p - 1))')
    run.finish()


VALIDATE = r'''
import sys, json, numpy as np
w = json.load(sys.stdin)
from pyiga import bspline
out = []
for p, a, b, n, mult, pts, nd in w['cases']:
    kv = bspline.make_knots(p, a, b, n, mult)
    out.append([np.asarray(bspline.active_deriv(kv, np.array(pts), nd)).tolist(), bspline.pyx_findspans(kv.kv, kv.p, np.array(pts)).tolist(), kv.kv.tolist()])
print(json.dumps(out))
'''


def validate(run):
    cases = [[3, 0.0, 1.0, 10, 1, [0.0, 0.05, 0.1, 0.5, 0.999, 1.0], 3], [2, 0.0, 1.0, 4, 2, [0.0, 0.25, 0.3, 1.0], 4],
             [4, -1.0, 2.0, 5, 3, [-1.0, 0.2, 1.4, 2.0], 2], [1, 0.0, 1.0, 3, 1, [0.0, 1 / 3, 0.5, 1.0], 3]]
    real = realbuild.run_real(VALIDATE, {'cases': cases})
    cyc = load_pyx('pyiga/bspline_cy.pyx')
    mism = 0
    for (p, a, b, n, mult, pts, nd), (vals, spans, kvl) in zip(cases, real):
        class K: pass
        k = K(); k.kv = np.array(kvl); k.p = p
        mine = np.asarray(cyc['active_deriv'](k, np.array(pts), nd))
        ms = np.asarray(cyc['pyx_findspans'](k.kv, p, np.array(pts)))
        if not np.allclose(mine, np.array(vals), rtol=1e-9, atol=1e-9) or ms.tolist() != spans:
            mism += 1
    run.translator_validation['cases'] += len(cases)
    run.translator_validation['mismatches'] += mism
    if mism:
        run.inconclusive_msg('translator validation: %d mismatching cases (bspline_cy)' % mism)


def replay_file(path):
    w = json.load(open(path))['witness']
    r = realbuild.run_real(REPLAY_SPLEV if w.get('kind') == 'splev' else REPLAY, w)
    print(json.dumps(r)); print('REPRODUCED' if r['reproduced'] else 'NOT-REPRODUCED')
    sys.exit(1 if r['reproduced'] else 0)


if __name__ == '__main__':
    if '--replay' in sys.argv:
        replay_file(sys.argv[sys.argv.index('--replay') + 1])
    main_wrapper(main)
