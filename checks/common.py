"""Shared runner infrastructure: obligations, evidence, known findings, replay, exit codes.

exit 0 = every obligation discharged (unsat on every path), possibly with KNOWN-FINDING lines
exit 1 = a counterexample was returned by the solver AND reproduced on the real code, and it is
         not listed in known_findings.json
exit 2 = inconclusive / harness error (unknown, timeout, counterexample that does not replay)
"""
import argparse, json, os, sys, time, traceback, subprocess, tempfile, hashlib
from fractions import Fraction

VERIF = os.path.dirname(os.path.dirname(os.path.abspath(__file__)))
REPO = os.environ.get('VERIF_REPO', '/repo')
EVID = os.path.join(VERIF, 'evidence')
REPLAY_DIR = os.path.join(EVID, 'replay')


def jsonable(x):
    import numpy as np
    if isinstance(x, Fraction):
        return str(x)
    if isinstance(x, (np.integer,)):
        return int(x)
    if isinstance(x, (np.floating,)):
        return float(x)
    if isinstance(x, np.ndarray):
        return [jsonable(v) for v in x.tolist()]
    if isinstance(x, dict):
        return {str(k): jsonable(v) for k, v in x.items()}
    if isinstance(x, (list, tuple, set, frozenset)):
        return [jsonable(v) for v in x]
    if isinstance(x, (int, float, str, bool)) or x is None:
        return x
    return str(x)


def load_known():
    p = os.path.join(VERIF, 'known_findings.json')
    if not os.path.exists(p):
        return []
    with open(p) as f:
        return json.load(f).get('findings', [])


class Run:
    def __init__(self, pid, level='other', description=''):
        ap = argparse.ArgumentParser()
        ap.add_argument('--tier', default=os.environ.get('VERIF_TIER', 'quick'), choices=['quick', 'thorough'])
        ap.add_argument('--replay', default=None)
        ap.add_argument('--only', default=None, help='comma separated obligation-group names (debugging)')
        ap.add_argument('--no-canaries', action='store_true')
        self.args = ap.parse_args()
        self.pid = pid
        self.tier = self.args.tier
        self.seed = int(os.environ.get('VERIF_SEED', '0') or 0)
        self.level = level
        self.description = description
        self.t0 = time.time()
        self.groups = []          # dicts
        self.violations = []      # reproduced, unknown to known_findings
        self.known_hits = []
        self.inconclusive = []
        self.encoded = []
        self.stubs = []
        self.assumptions = []
        self.bounds = {}
        self.out_of_scope = []
        self.samples = []
        self.canaries = []
        self.cross = {'queries': 0, 'agree': 0, 'disagree': 0, 'no_answer': 0, 'solver': None}
        self.solver_s = 0.0
        self.queries = {'unsat': 0, 'sat': 0, 'unknown': 0}
        self.branch_queries = 0
        self.paths = 0
        self.translator_validation = {'cases': 0, 'mismatches': 0}
        self.nreplay = 0
        self.extra = {}
        self.known = [k for k in load_known() if k.get('property') == pid]
        os.makedirs(REPLAY_DIR, exist_ok=True)

    # ------------------------------------------------------------------ bookkeeping
    def want(self, group):
        return self.args.only is None or group in self.args.only.split(',')

    def add_encoded(self, enc):
        for it in (enc.summary() if hasattr(enc, 'summary') else enc):
            if it not in self.encoded:
                self.encoded.append(it)

    def absorb(self, stats, group, bound=None, sample=None):
        """merge symx Stats of one obligation group"""
        self.solver_s += stats.solver_s
        for k in self.queries: self.queries[k] += stats.queries[k]
        self.branch_queries += stats.branch_queries
        self.paths += stats.paths
        g = {'group': group, 'paths': stats.paths, 'queries': dict(stats.queries),
             'obligations': {n: dict(d) for n, d in stats.obligations.items()},
             'wall_s': round(getattr(stats, 'wall_s', 0.0), 3)}
        if bound is not None: g['bound'] = bound
        self.groups.append(g)
        if os.environ.get('VERIF_VERBOSE'):
            print('[%6.1fs] %s %s paths=%d q=%s wall=%.1fs' % (time.time() - self.t0, group, bound, stats.paths, stats.queries,
                                                               getattr(stats, 'wall_s', 0)), file=sys.stderr, flush=True)
        if sample is not None and len(self.samples) < 12:
            self.samples.append(sample)
        if stats.unknown:
            self.inconclusive.append('%s: unknown on %s' % (group, sorted(set(stats.unknown))[:5]))
        return g

    def record_queries(self, group, results, solver_s=0.0, bound=None, sample=None, paths=1):
        """for checks that drive z3 directly: results = dict name -> 'unsat'|'sat'|'unknown'"""
        q = {'unsat': 0, 'sat': 0, 'unknown': 0}
        for n, r in results.items():
            q[r] += 1; self.queries[r] += 1
        self.solver_s += solver_s
        self.paths += paths
        g = {'group': group, 'paths': paths, 'queries': q, 'wall_s': round(solver_s, 3)}
        if bound is not None: g['bound'] = bound
        self.groups.append(g)
        if sample is not None and len(self.samples) < 12:
            self.samples.append(sample)
        unk = [n for n, r in results.items() if r == 'unknown']
        if unk:
            self.inconclusive.append('%s: unknown on %s' % (group, unk[:5]))

    def inconclusive_msg(self, msg):
        self.inconclusive.append(msg)

    # ------------------------------------------------------------------ violations
    def report(self, key, what, witness, reproduced):
        """A solver counterexample.  `key` identifies the specific failing object (matched against
        known_findings.json), `reproduced` is the outcome of replaying on the real code."""
        self.nreplay += 1
        if not reproduced:
            self.inconclusive.append('counterexample for %s did not reproduce on the real code (encoding or stub wrong): %s'
                                     % (key, what))
            return 'noreplay'
        for k in self.known:
            if k.get('status', 'known') == 'known' and k.get('key') == key:
                self.known_hits.append((k, what))
                return 'known'
        n = len(self.violations)
        path = os.path.join(REPLAY_DIR, '%s-%d.json' % (self.pid, n))
        with open(path, 'w') as f:
            json.dump(jsonable({'property': self.pid, 'key': key, 'what': what, 'witness': witness}), f, indent=1)
        self.violations.append({'key': key, 'what': what, 'replay': path})
        return 'violation'

    # ------------------------------------------------------------------ second solver
    def cross_check(self, smt2_items, timeout_s=60):
        """re-discharge exported queries with the independent Debian z3 4.8.12 binary"""
        z3bin = '/usr/bin/z3'
        if not os.path.exists(z3bin):
            return
        self.cross['solver'] = 'z3 4.8.12 (/usr/bin/z3)'
        for (name, text, ans) in smt2_items:
            with tempfile.NamedTemporaryFile('w', suffix='.smt2', delete=False, dir='/tmp') as f:
                f.write(text + '\n(check-sat)\n' if '(check-sat)' not in text else text)
                fn = f.name
            try:
                out = subprocess.run([z3bin, '-smt2', '-T:%d' % timeout_s, fn], capture_output=True, text=True,
                                     timeout=timeout_s + 10).stdout
            except subprocess.TimeoutExpired:
                out = 'timeout'
            finally:
                os.unlink(fn)
            self.cross['queries'] += 1
            first = out.strip().splitlines()[0] if out.strip() else ''
            if '(error' in out or first not in ('sat', 'unsat'):
                self.cross['no_answer'] += 1
            elif first == ans:
                self.cross['agree'] += 1
            else:
                self.cross['disagree'] += 1
                self.inconclusive.append('solver disagreement on %s: z3 5.1.0 %s vs z3 4.8.12 %s' % (name, ans, first))

    # ------------------------------------------------------------------ canaries
    def canary(self, name, detected, skipped=False):
        self.canaries.append({'mutant': name, 'detected': bool(detected), 'skipped': bool(skipped)})
        if not skipped and not detected:
            self.inconclusive.append('canary mutant not detected: %s (check lost its teeth)' % name)

    # ------------------------------------------------------------------ finish
    def finish(self):
        wall = time.time() - self.t0
        nobl = sum(self.queries.values())
        distinct = len({json.dumps(g.get('bound', g['group']), sort_keys=True, default=str) + g['group'] for g in self.groups})
        cov = {
            'explanation': ('bounded symbolic verification: the listed functions are read from /repo at run time, executed '
                            'on z3-backed symbolic inputs, and each obligation is discharged by z3 as '
                            'path-condition /\\ assumptions /\\ not(property); unsat on every path = holds for all '
                            'values within the stated bounds. ' + self.description),
            'evaluations': max(nobl, 1),
            'distinct_nontrivial': max(distinct, 0),
            'rule': 'one evaluation = one solver query for an obligation on one path; distinct_nontrivial = number of '
                    'distinct (obligation group, bound) combinations whose queries mention at least one symbolic input',
            'samples': self.samples[:12] if self.samples else [g['group'] for g in self.groups[:5]],
            'functions_encoded': self.encoded,
            'stubs': self.stubs,
            'bounds': self.bounds,
            'outside_claim': self.out_of_scope,
            'paths': self.paths,
            'queries': self.queries,
            'branch_feasibility_queries': self.branch_queries,
            'solver_time_s': round(self.solver_s, 3),
            'solver': 'z3 %s' % _z3ver(),
            'groups': self.groups,
            'canary_mutants': self.canaries,
            'second_solver': self.cross,
            'translator_validation': self.translator_validation,
            'counterexamples_replayed': self.nreplay,
            'known_findings_hit': [k.get('key') for k, _ in self.known_hits],
            'inconclusive': self.inconclusive,
        }
        if self.level == 'translation_validation':
            cov['programs'] = self.extra.get('programs', 0)
            cov['disagreements_checked'] = self.nreplay
        cov.update({k: v for k, v in self.extra.items() if k not in cov})
        ev = {'property_id': self.pid, 'tier': self.tier, 'seed': self.seed, 'level': self.level,
              'coverage': jsonable(cov), 'assumptions': self.assumptions, 'wall_s': round(wall, 2),
              'violations': len(self.violations)}
        os.makedirs(EVID, exist_ok=True)
        with open(os.path.join(EVID, self.pid + '.json'), 'w') as f:
            json.dump(ev, f, indent=1)
        seen = set()
        for k, what in self.known_hits:
            if k.get('key') in seen: continue
            seen.add(k.get('key'))
            print('KNOWN-FINDING: property=%s %s [%s]' % (self.pid, k.get('text', what), k.get('key')))
        for v in self.violations:
            print('VIOLATION property=%s replay=%s' % (self.pid, v['replay']))
            print('  ' + v['what'])
        print('%s %s: %d paths, queries %s, solver %.1fs, wall %.1fs, canaries %d/%d, violations %d, known %d'
              % (self.pid, self.tier, self.paths, self.queries, self.solver_s, wall,
                 sum(c['detected'] for c in self.canaries), sum(not c['skipped'] for c in self.canaries),
                 len(self.violations), len(self.known_hits)))
        if self.violations:
            sys.exit(1)
        if self.inconclusive:
            for m in self.inconclusive:
                print('INCONCLUSIVE: ' + m)
            sys.exit(2)
        sys.exit(0)


def _z3ver():
    import z3
    return z3.get_version_string()


def main_wrapper(fn):
    """run a check's main(); any harness exception = exit 2 (never a silent pass)"""
    try:
        fn()
    except SystemExit:
        raise
    except BaseException:
        traceback.print_exc()
        print('HARNESS-ERROR (inconclusive)')
        sys.exit(2)


def real_python():
    return os.path.join(VERIF, '.venv', 'bin', 'python')
