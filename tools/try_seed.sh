#!/bin/bash
# usage: try_seed.sh PID SEEDDIR [tier]
# 1) confirm in the scratch worktree /tmp/wt_base: suite passes with the patch, demo fails with it and passes without it
# 2) apply to /repo, run ./check PID --tier <tier>, undo.   Prints a one-line summary.
PID=$1; SD=$2; TIER=${3:-quick}
WT=/tmp/wt_base
LOG=/tmp/seedlog/$(echo $SD | tr '/' '_'); mkdir -p /tmp/seedlog
cd $WT && git checkout -q --detach $(git -C /repo rev-parse HEAD) 2>/dev/null && git checkout -q -- . 
pyx=$(grep -c '^+++ .*\.\(pyx\|pxi\|cc\)' $SD/patch.diff)
if [ "$SKIP_CONFIRM" != "1" ]; then
  C0=$(mktemp -d /tmp/seedcache.XXXXXX); d0=$(XDG_CACHE_HOME=$C0 PYTHONPATH=$WT /venv/bin/python $SD/demo.py >$LOG.demo_clean 2>&1; echo $?)
  git apply $SD/patch.diff || { echo "$PID $SD: patch does not apply"; exit 3; }
  if [ $pyx -gt 0 ]; then /venv/bin/python setup.py build_ext --inplace -j 8 >$LOG.build 2>&1; rm -rf build; fi
  suite=$(PYTHONPATH=$WT /venv/bin/python -m pytest -q -p no:cacheprovider --timeout=900 -x 2>&1 | tail -1)
  C1=$(mktemp -d /tmp/seedcache.XXXXXX); d1=$(XDG_CACHE_HOME=$C1 PYTHONPATH=$WT /venv/bin/python $SD/demo.py >$LOG.demo_patched 2>&1; echo $?)
  git checkout -q -- .
  if [ $pyx -gt 0 ]; then /venv/bin/python setup.py build_ext --inplace -j 8 >$LOG.build 2>&1; rm -rf build; fi
else d0=skip; d1=skip; suite=skip; fi
cd /verif
git -C /repo apply $SD/patch.diff || { echo "$PID $SD: patch does not apply to /repo"; exit 3; }
t0=$(date +%s)
timeout 3600 ./check $PID --tier $TIER >$LOG.check_$TIER 2>&1; rc=$?
t1=$(date +%s)
git -C /repo checkout -- .
echo "$PID $SD: demo clean=$d0 patched=$d1 suite=[$suite] check($TIER) exit=$rc ($((t1-t0))s) $(grep -c '^VIOLATION' $LOG.check_$TIER) violation lines"
[ -n "$C0" ] && rm -rf "$C0"; [ -n "$C1" ] && rm -rf "$C1"
