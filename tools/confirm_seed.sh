#!/bin/bash
# usage: confirm_seed.sh SEEDDIR   -- confirmation only, in the scratch worktree /tmp/wt_base (never touches /repo):
# demo passes on the clean tree, the suite passes with the patch, demo fails with the patch.  One line of output.
SD=$1; WT=/tmp/wt_base
cd $WT && git checkout -q --detach $(git -C /repo rev-parse HEAD) 2>/dev/null && git checkout -q -- .
pyx=$(grep -c '^+++ .*\.\(pyx\|pxi\|cc\)' $SD/patch.diff)
C0=$(mktemp -d /tmp/seedcache.XXXXXX); d0=$(XDG_CACHE_HOME=$C0 PYTHONPATH=$WT timeout 1800 /venv/bin/python $SD/demo.py >/dev/null 2>&1; echo $?)
git apply $SD/patch.diff || { echo "$SD: patch does not apply"; exit 3; }
if [ $pyx -gt 0 ]; then /venv/bin/python setup.py build_ext --inplace -j 8 >/tmp/wt_base.build.log 2>&1; rm -rf build; fi
suite=$(PYTHONPATH=$WT /venv/bin/python -m pytest -q -p no:cacheprovider --timeout=900 -x 2>&1 | tail -1)
C1=$(mktemp -d /tmp/seedcache.XXXXXX); d1=$(XDG_CACHE_HOME=$C1 PYTHONPATH=$WT timeout 1800 /venv/bin/python $SD/demo.py >/dev/null 2>&1; echo $?)
git checkout -q -- .
if [ $pyx -gt 0 ]; then /venv/bin/python setup.py build_ext --inplace -j 8 >/tmp/wt_base.build.log 2>&1; rm -rf build; fi
echo "$SD: demo_clean=$d0 demo_patched=$d1 suite=[$suite]"
[ -n "$C0" ] && rm -rf "$C0"; [ -n "$C1" ] && rm -rf "$C1"
