#!/bin/sh
# round-3 prompt: like round 2, the ideas of rounds 1 and 2 are listed as already used
PID=$1
H=$(python3 -c "import json;print('; '.join(json.load(open('/verif/seeded/round2_hints.json'))['$PID']))")
python3 /verif/tools/seed_prompt.py $PID /tmp/wt2_$PID /tmp/seed3_$PID "Four other reviewers already used the following ideas, so choose DIFFERENT code sites and a different kind of mistake (prefer parts of the statement none of these touches): $H"
