#!/bin/sh
# usage: mk_worktree.sh DIR   -- scratch git worktree of /repo HEAD with freshly built extensions
set -e
D=$1
git -C /repo worktree add --detach "$D" HEAD >/dev/null 2>&1
cd "$D"
/venv/bin/python setup.py build_ext --inplace -j 8 >/tmp/$(basename $D).build.log 2>&1
rm -rf build
echo "worktree $D ready"
