#!/usr/bin/env python3
"""writes meta.json for the seeds of rounds 2 and 3 (seeded/<pid>-r2-<n>, seeded/<pid>-r3-<n>) and seeded/TABLE_r2r3.json from
the description tables (what each change breaks / needs) and the result lines of the final runs (tools/try_seed_wt.sh output)."""
import json, os, re, sys, glob
HERE = os.path.dirname(os.path.dirname(os.path.abspath(__file__)))
sys.path.insert(0, os.path.join(HERE, 'seeded'))
from table2_base import T
from table3_base import T3
from table4_base import T4
desc = dict(T); desc.update(T3); desc.update(T4)
# result lines:  "<PID> <seeddir> [<CK>]: exit=<rc> (..s) N violation lines, M inconclusive"
res = {}
for f in sorted(glob.glob(os.path.join(HERE, 'seeded', 'final_run_logs', '*.txt')), key=lambda q: (os.path.basename(q).startswith('follow'), q)):     # follow-up runs (after replay fixes) are read last
    for line in open(f):
        m = re.match(r'^(C\d+) (\S+) \[(C\d+)\]: exit=(\d+)', line)
        if not m: continue
        pid, sd, ck, rc = m.group(1), m.group(2), m.group(3), int(m.group(4))
        sd = sd.rstrip('/')
        if '/tmp/seed3_' in sd: key = '%s-r3-%s' % (pid, os.path.basename(sd))
        elif '/tmp/seed4_' in sd: key = '%s-r4-%s' % (pid, os.path.basename(sd))
        elif '/tmp/rb/' in sd: key = os.path.basename(sd)
        else: key = os.path.basename(sd)
        res.setdefault(key, {})[ck] = rc
table = {}
for key, (breaks, needs, by) in sorted(desc.items()):
    r = res.get(key, {})
    caught = sorted(ck for ck, rc in r.items() if rc == 1)
    pid = key.split('-')[0]
    if caught:
        result = 'caught (quick tier, exit 1) by ' + ', '.join(caught)
    elif by is None:
        result = 'not caught (declared limitation, see DESIGN 10.11 / 10.14)'
    else:
        result = 'not caught in the final run: ' + json.dumps(r)
    table[key] = {'breaks': breaks, 'needs': needs, 'result': result, 'caught_by': caught or None, 'runs': r}
    dst = os.path.join(HERE, 'seeded', key)
    if os.path.isdir(dst):
        meta = {'property': pid, 'round': 2 if '-r2-' in key else (3 if '-r3-' in key else 4), 'breaks': breaks, 'needs_to_manifest': needs,
                'confirmed': 'scratch worktree of the /repo HEAD of that time: full suite passes with the patch (191 passed), demo.py exits 1 with the patch and 0 without it '
                             '(tools/confirm_seed.sh; separate empty compile cache per demo run)',
                'check_result': result, 'caught_by': caught or None, 'origin': 'independent sub-agent given only the property text (and the ideas already used in earlier rounds)'}
        json.dump(meta, open(os.path.join(dst, 'meta.json'), 'w'), indent=1)
json.dump(table, open(os.path.join(HERE, 'seeded', 'TABLE_r2r3.json'), 'w'), indent=1)
n = len(table); c = sum(1 for v in table.values() if v['caught_by'])
print('rounds 2-4: %d seeds, %d caught' % (n, c))
for k, v in table.items():
    if not v['caught_by']: print('  not caught:', k, '|', v['result'])
# round 1 results of the final run (for DESIGN)
r1 = {k: v for k, v in res.items() if re.match(r'^C\d+-\d+$', k)}
print('round 1 final run:', {k: v for k, v in sorted(r1.items())})
T1p = os.path.join(HERE, 'seeded', 'TABLE.json'); T1 = json.load(open(T1p))
for k, v in r1.items():
    if k in T1:
        caught = sorted(ck for ck, rc in v.items() if rc == 1)
        T1[k]['final_run'] = v
        if caught:
            T1[k]['result'] = 'caught (quick, exit 1)'; T1[k]['caught_by'] = (T1[k].get('caught_by') or '') if (T1[k].get('caught_by') or '').startswith(tuple(caught)) else ', '.join(caught) + ((': ' + T1[k]['caught_by']) if T1[k].get('caught_by') else '')
json.dump(T1, open(T1p, 'w'), indent=1)
