#!/usr/bin/env python3
"""Regenerates /verif/MANIFEST.json from the table below (keeps it schema-valid at all times)."""
import json, os
HERE = os.path.dirname(os.path.dirname(os.path.abspath(__file__)))

CHECKS = {
 'C15': dict(
   category='other', design_ref='4/C15',
   text='Bounded symbolic verification: the transliterated mlmatrix_cy kernels and the MLStructure/index-map source are executed on '
        'symbolic per-level patterns (block sizes 1..3 and stored positions are solver variables); z3 shows for every pattern within '
        'the bound that the reported nonzeros are the Kronecker pattern in data-layout order, lower_tri/row queries are the exact '
        'filters, matvec equals the dense definition and the index maps are mutually inverse; compute_sparsity_ij on symbolic monotone support tables (unequal function counts) lists exactly the '
        'overlapping pairs in lexicographic order; the MLMatrix object keeps these properties through data assignment and reordering. Counterexamples are replayed on the real build.',
   note='Trusted: z3; cyx transliteration (validated against the compiled kernels); symnp/symsparse stubs; integers do not wrap within the bound; '
        'doubles as reals. Bound: L<=4, blocks<=3x3, nnz/level<=3.',
   technique='symbolic execution of transliterated Cython + z3 (LIA/NIA) with replay'),
 'C02': dict(
   category='other', design_ref='4/C02',
   text='Bounded symbolic verification: the transliterated bspline_cy kernels (findspan, active_deriv) and the Python routes '
        '(single_ev, active_ev, collocation(_derivs)(_info), compute_values_derivs) are executed with the evaluation point and, up to p=3/4, '
        'the whole open knot vector as real solver variables; z3 (NRA) proves equality with the Cox-de Boor recursion, locality, '
        'non-negativity, partition of unity and vanishing derivative sums for every real point including knots and end points. bspline.ev/deriv (the FITPACK route) run from source '
        'with scipy.interpolate.splev bound to its documented contract and are proved equal to the active_deriv route for every derivative order 0..p, symbolic knots, coefficients and point.',
   note='Trusted: z3, cyx transliteration (validated against compiled kernels), oracle recursion in checks/bsp_oracle.py, the splev contract (FITPACK itself is FFI; the replay runs it), doubles as reals. '
        'Bound: symbolic knots p<=3 (quick)/4 (thorough); concrete rational knots p<=8 (quick)/12; derivative orders <=p+2.',
   technique='symbolic execution of transliterated Cython + z3 (QF_NRA) vs recursive oracle'),
 'C06': dict(
   category='translation_validation', design_ref='4/C06',
   text='Per-program translation validation: each form of a fixed corpus and of a seeded bounded grammar is built and finalised by the real '
        'vform module (source exec\'d from /repo); z3 decides D[[original]] = D[[after add()]] = D[[after finalize()]] for all environments '
        '(geometry jets with det J != 0, field jets, parameters, basis jets), plus definition-before-use of the emitted variable order; the composite operations a form is written with '
        '(matrix/vector products incl. non-square factors, outer/cross/inner products, transposition, repeated differentiation in one call for fields, let-variables and basis functions) equal their definitions in scalar primitives. '
        'Counterexample models are replayed numerically on the real pyiga.vform.',
   note='Trusted: z3, vfsem denotational semantics (own code incl. own definitions of all tensor nodes, chain rule via abstract inverse Jacobian), builtin functions uninterpreted, '
        'reals for doubles except constant-only subexpressions. Undecided programs (solver timeout) are listed, not counted.',
   technique='translation validation per program with z3 (QF_NRA+UF) over a denotational semantics'),
 'C13': dict(
   category='translation_validation', design_ref='4/C13',
   text='Non-interference of the compile-cache key: the real hashing code of vform.py and the key construction of compile.py run with an '
        'injective hash model; one token-bearing attribute of a real form is made symbolic (L, then L\') and z3 decides L != L\' /\\ key(L) = key(L\'). '
        'unsat = the token separates cache entries for all values; sat = the key ignores it, then the admissible concrete values are decided against '
        'the real compile.generate (equal vf.hash(), different text = violation). Structural pairs: operand order, multiplicity of repeated terms, a term added after the hash was taken (refused or key changes). Freshness: generator output today vs shipped assemblers.pyx/genericasm.pxi (byte comparison).',
   note='Trusted: hash model (injective on strings/tuples, CPython numeric hash on integral numbers so that hash(-1)==hash(-2) is visible), z3, token templates (30 token kinds x contexts, incl. tokens behind nested definitions); a token that the key only observes through a concretising conversion is decided by the real generate() on admissible value pairs; freshness comparison is textual, not solver-decided.',
   technique='non-interference query over real hashing code with injective hash model (z3) + ground truth via real code generator'),
 'C10': dict(
   category='other', design_ref='4/C10',
   text='Bounded symbolic verification of RestrictedLinearSystem (source exec\'d with a dense-object model of scipy.sparse): matrix, right-hand side, '
        'prescribed values and the free solution are symbolic reals, the constrained index sequence is a symbolic injective sequence without ordering '
        'assumption (each order is a forked path); z3 proves that complete() takes the prescribed values, that a solution of the restricted system solves '
        'every non-eliminated equation, and that restrict/extend/restrict_matrix/restrict_rhs are consistent; slice_indices/boundary_dofs/boundary_cells/'
        'combine_bcs are checked for all shapes <= 3x3x3, indices, flips and bdspecs; dense and sparse matrices with elim_rows; compute_initial_condition_01 runs with a symbolic '
        'time knot vector (symbolic interval, coincident knots allowed) and linalg.solve as a contract whose solvability is an obligation; compute_dirichlet_bc with the interpolation '
        'replaced by a symbolic coefficient array: every face dof and component block exactly once, paired with the coefficient of its own face position (2D/3D, scalar/vector data).',
   note='Trusted: z3, symsparse stub, reals for doubles. Index inputs are decided by exhaustive forking within the bound (n<=4/5), matrix/vector data by the solver.',
   technique='symbolic execution of real Python source + z3 (LRA/NRA), index order by solver-driven forking'),
 'C14': dict(
   category='other', design_ref='4/C14',
   text='Inductive step on a symbolic pre-state: the real Multipatch.join_dofs/_new_shared_dof/finalize run on symbolic containers (class ids integer '
        'variables, symbolic number of classes); assuming the representation invariant, z3 proves that one join with arbitrary patches/dofs re-establishes '
        'the invariant and realises exactly the equivalence closure, and that finalize numbers the classes gap-free with numdofs = number of classes. '
        'One step from every invariant state covers join histories of any length/order/repetition over the index domain. Counterexamples are turned into '
        'concrete join histories and replayed on the real Multipatch (numbering, 0/1 patch-to-global matrices). Interface detection (_check_geo_match, _find_matching_boundaries, detect_interfaces) '
        'runs on symbolic face maps over small rational grids: every pair of coinciding faces (also two per patch pair) is reported once with the right flip flags, nothing else is. '
        'Numbering after finalize on a symbolic invariant state: patch_to_global_idx separates exactly the classes (also for a patch that shares nothing), patch_to_global in both column layouts is the 0/1 matrix of that numbering, '
        'Multipatch.compute_dirichlet_bcs maps every (patch, face) triple through the numbering of its own patch for interleaved triples.',
   note='Trusted: z3, SymDict/SymSetList container models, the stated invariant (every class spans >= 2 patches or is empty; dict and sets agree). '
        'Bound: 3-4 patches x 2-3 local dofs, <= 2-3 pre-existing classes; single-pair joins.',
   technique='inductive invariant step over symbolic container state (z3 LIA), concrete-history replay'),
 'C12': dict(
   category='other', design_ref='4/C12',
   text='Bounded symbolic verification of solvers.py (source exec\'d with contract stubs): dirk_step and rosenbrock_step run on symbolic affine problems '
        'F(y)=Ky+g with symbolic M, K, g, x, tau (1x1, 2x2); newton inside the step is replaced by its contract evaluated on the real closure, make_solver by '
        '"B y = r"; z3 proves the stage equations, the weight formulas (main/embedded), the returned F(x_new) and exact integration of y\'=const for every '
        'shipped tableau; order conditions up to the documented order are discharged as ground queries on the exact rationals of the constants (tolerance 1e-8); '
        'two Rosenbrock steps sharing the data dict and a Jacobian buffer each satisfy their own stage equations; the step-size factor of the adaptive driver stays in [0.2, 5] for every error estimate; constant/adaptive drivers (incl. the constant-step fallback, the Fx cache and data-dict contracts, time arguments with t0 != 0) and newton are verified against unconstrained '
        'stepper/residual stubs (<= 4 steps / attempts, maxiter <= 3); driver counterexamples are replayed on the real drivers with scripted error estimates.',
   note='Trusted: z3, stubs (solver contract, newton contract, norm = fresh non-negative), reals for doubles, Rosenbrock order reading (main = err_order+1). '
        'Known finding: coeffs_dirk34 is inconsistent (known_findings.json).',
   technique='compositional symbolic execution with contract stubs + z3 (NRA); ground order-condition queries'),
 'C11': dict(
   category='other', design_ref='4/C11',
   text='Bounded symbolic verification: the transliterated relaxation_cy kernels and solvers.gauss_seidel (sparse and dense routes) run on CSR structures '
        'with symbolic data (incl. unsorted columns), symbolic x, b and symbolic index sequences; z3 proves equality with the textbook Gauss-Seidel recurrence '
        '(forward/backward/symmetric, <=2 iterations, index lists of length 0..3), the fixed-point property, and the inductive energy step (one row update of a symmetric system with '
        'a_ii > 0 never increases the energy error); iterative_solve is verified against an unconstrained step stub (stopping rule), twogrid for array '
        'starting vectors (also integer-typed ones, with numpy\'s integer-array semantics modelled) and the Galerkin orthogonality after one cycle, local_mg_step for the fixed-point property with all five smoothers on symbolic '
        'two-level systems, and the energy norm of the error does not increase in one cycle with exact subspace solves on symbolic SPD systems (A = L L^T; orthogonality and semidefiniteness lemmas per exact solve, '
        'final inequality by a sound linear relaxation); solve_hmultigrid hands tolerance, iteration limit, strategy and smoother to the generic driver unchanged.',
   note='Trusted: z3, cyx transliteration, symsparse/CSR stubs, solver contract (B nonsingular, B y = r), norm stubs, reals for doubles. '
        'Bound: n <= 3/4, maxiter <= 3. Hierarchical smoothing sets/prolongators on real spaces are outside this check.',
   technique='symbolic execution of transliterated Cython + Python source with z3 (NRA); inductive energy step; lemma-based proof of energy non-increase with linear relaxation (monomials as atoms)'),
 'C19': dict(
   category='other', design_ref='4/C19',
   text='make_knots (source exec\'d with documented-algorithm stubs for np.arange/linspace/repeat/concatenate on symbolic-length sequences) is decided '
        'under two encodings of double arithmetic: the standard model of rounding (reals, |delta|<=2^-53 per operation; unsat is sound for doubles) proves '
        'count/monotonicity/strict interior position of the breakpoints (and, if the end knots are computed rather than copied, that they are exactly a and b) for all a, b, n in the stated range, and the exact IEEE-754 encoding (QF_FP, n as a '
        'bit-vector) hunts for double counterexamples that are replayed on the real numpy. KnotVector queries (mesh, support, mesh-support, span indices, '
        'findspan, first_active, Greville, refine, ==) and Spline.derivative run on fully symbolic knot vectors (coincident knots included) against '
        'direct definitions / the Cox-de Boor oracle.',
   note='Trusted: z3, the numpy stubs (documented algorithms), standard model validity in the normal range. Claim range for make_knots: |a|,|b|<=1e5, b-a>=1e-6, n<=2000. '
        'Exact-FP search is bug hunting only (unknown = nothing found).',
   technique='SMT over a standard-model encoding of rounding (NRA) + exact QF_FP bug hunting; symbolic execution for the queries'),
 'C16': dict(
   category='other', design_ref='4/C16',
   text='Bounded symbolic verification: the operator classes of operators.py (on top of the real scipy LinearOperator), kronecker.py and the tensor-product '
        'application routines of tensor.py are exec\'d from source and applied to symbolic operands (dense object arrays, sparse model, abstract operators) and '
        'symbolic vector / (n,1) / multi-column arguments; z3 proves entrywise equality with the explicit dense definition (np.kron, block assembly, sum P B P^T, '
        'mode-wise products) for the operator, its transpose and its adjoint, for 1-3 factors with independent shapes <= 3 (incl. rectangular factors whose product is square), '
        'integer-typed argument vectors (numpy\'s integer-array semantics modelled: stores into integer buffers truncate), rectangular block layouts with null blocks, None placeholders and trailing axes; CSRRowSubset products for symbolic CSR data and every row subset (any order) within the bound.',
   note='Trusted: z3, symsparse stub, scipy LinearOperator dispatch, reals for doubles. Not applicable part: solver factories (LAPACK/SuperLU/eigh behind FFI).',
   technique='symbolic execution of real Python source on object arrays + z3 (polynomial identities)'),
 'C18': dict(
   category='other', design_ref='4/C18',
   text='Bounded symbolic verification (homomorphism): tensor.py is exec\'d from source and canonical, Tucker, sum and product tensors and Kronecker-rank '
        'operators are built from symbolic entries; z3 proves that +, -, negation, format conversion (both directions), basis joining, mode products incl. None '
        'placeholders, padding, squeezing, operator apply/compose/transpose/kron/slice/asmatrix and the canonical norm (on the argument of the square root) '
        'commute with expansion to the full array; indexing is checked for every index expression of a bounded family (negative ints, slices with '
        'start/stop/step in [-3,3] or None, index lists, missing trailing axes; concretised by solver-driven forking) against numpy indexing of the expanded '
        'array; TensorGenerator returns exactly the wrapped entries; rank_1_update / aca3d_update kernels (transliterated) equal their definitions.',
   note='Trusted: z3, symsparse stub, numpy indexing as the oracle for index expressions, reals for doubles. Not applicable part: QR/SVD based operations and ACA/ALS/GTA.',
   technique='symbolic execution of real Python source on object arrays + z3; index expressions by exhaustive solver-driven forking'),
 'C07': dict(
   category='other', design_ref='4/C07',
   text='Bounded symbolic verification: the spline function classes and every geometry constructor/operation of bspline.py/geometry.py are exec\'d from source on an '
        'abstract B-spline basis (fresh solver variables per (knot vector, node, derivative order) constrained only by what C02 proves: local support with a symbolic '
        'first-active index, partition of unity, derivative sums zero, end-point interpolation) with symbolic coefficients, weights, points, offsets, matrices and angles. '
        'z3 proves for source dimension 1-3 and scalar/vector/matrix targets that single-point, grid and scattered evaluation, Jacobians and Hessians agree with the '
        'tensor-contraction definition (x column first, (xx,xy,xz,yy,yz,zz) order), that NURBS values/Jacobians/Hessians satisfy the Leibniz relations of a quotient, that '
        'composition/boundary restriction/user functions evaluate the documented map, that every operation denotes the documented map and leaves its operand unchanged, '
        'and (real basis kernels, symbolic parameter t, angle and radius) that circular arcs lie on the exact circle with the documented end points, that circular_arc accepts exactly the angles in (0, 2 pi] (end points included) and hands them to a constructor whose precondition they meet; '
        'scattered-point evaluation follows the logical index of non-contiguous coordinate arrays; circle, disk and annulus to relative 1e-12 (float trig constants).',
   note='Trusted: z3, the abstract-basis contract (= C02), ratnorm (division clearing; inputs with a vanishing divisor are outside the claim), symnp/symsparse, reals for doubles. '
        'Bound: degrees 1-2 / 2-4 dofs per axis in the abstract basis, 1-2 nodes per axis; larger NURBS binary operations at coefficient level.',
   technique='symbolic execution of real Python source on an abstract basis + z3 (polynomial identities after division clearing, NRA for arcs)'),
 'C09': dict(
   category='other', design_ref='4/C09',
   text='Bounded symbolic verification: the 1D Galerkin assembly routines of assemble.py (element matrices, COO index construction, symmetric and two-space variants, '
        'custom quadrature grids, weight functions), quadrature.py, the Kronecker paths, inner_products/integrate, the closed-form 2x2/3x3 determinants and inverses '
        '(transliterated Cython) and the boundary-Jacobian restriction are executed on symbolic data. With arbitrary nodes/weights z3 proves that every matrix entry is the '
        'quadrature sum of the products of the Cox-de Boor basis derivatives (first-active index arithmetic for every listed multiplicity pattern); with the Gauss-Legendre '
        'rule given by its exact algebraic values (defining equations of the radicals, q <= 5) z3 proves that each entry with the default node count equals the exact rational '
        'integral of the piecewise polynomial, that mass entries sum to the interval length and that constants are in the kernel of the stiffness matrix; Kronecker paths equal '
        'the Kronecker sums in the documented axis order; load vectors/integrals equal the weighted sums with |det J| for all function values, Jacobians and collocation entries; '
        'a call history on one knot vector (weighted, weighted again, unweighted, other weight, unweighted) yields each time the matrix of its own definition (no state leaks between calls); '
        'X Y = I and det = Leibniz for all nonsingular 2x2/3x3 matrices; boundary normals are orthogonal to the face and point outward whenever det J > 0.',
   note='Trusted: z3, exact rational reference integrals (own code), the algebraic form of the Gauss-Legendre rule (numpy delivers its rounding), symnp/symsparse, reals for doubles. '
        'Knot vectors are concrete (dyadic) and enumerated; data are symbolic. Code objects are rebuilt for every explored path (module-level state lives for one harness). Not applicable part: the low-rank fast assembler (C++).',
   technique='symbolic execution of real Python/Cython source + z3 (polynomial identities; algebraic Gauss nodes via defining equations)'),
 'C03': dict(
   category='other', design_ref='4/C03',
   text='Hybrid bounded check: HDiscretization.assemble_matrix/assemble_functional (source exec\'d from /repo) run on the real HSpace/HMesh/MLStructure code for an enumerated '
        'family of refinement histories (HB and THB, disparity 1/2/inf, bdspecs None/[]/faces, incl. assemble-refine-assemble sequences on one object and histories whose '
        'intermediate level has active cells but no active function, T-admissible refinement with finite disparity, repeated interior knots) while the tensor-product '
        'level matrices and vectors are symbolic (the level assembler is replaced by its contract: symbolic entries at the structural nonzeros of exactly the requested rows). '
        'Per space z3 decides, for all level matrices at once, that entry (i,j) is the bilinear form of the two hierarchical functions on the finer of their levels '
        '(independent level matrices), that with Galerkin-nested levels the result is I^T A_fine I for the space\'s own representation matrix, that symmetric assembly of a symmetric '
        'matrix gives the same result, that THB = T^T HB T, and the analogous statements for functionals.',
   note='Trusted: z3, the level-assembler contract (C01/C08), real transfer matrices (entries replaced by the dyadic rational within 1e-12), tolerance 1e-9 for symbols in [-1,1]. '
        'The quantifier over refinement histories is by ENUMERATION inside the stated family and is not a solver verdict; the quantifier over forms/geometries/data is the solver\'s.',
   technique='symbolic execution of real Python source on enumerated hierarchical spaces with symbolic level matrices + z3 (LRA)'),
 'C08': dict(
   category='other', design_ref='4/C08',
   text='Bounded symbolic verification of the assembly drivers: assemble_entries/assemble_entries_vec (source), the transliterated base assembler classes, vector cores with '
        'symmetric mirroring and block transposition, multi_entries/multi_blocks chunk dispatch and chunk_tasks run with an entry function that returns symbolic (block) entries '
        '(contract of generated assemblers: writes only for overlapping supports). z3 proves for 1D-3D spaces (also two different spaces), 1-3 components incl. non-square blocks, '
        'that symmetric=True (under the symmetry contract) and symmetric=False, formats csr/csc/coo/bsr/mlb and layouts packed/blocked all produce the matrix of the entry function '
        '(blocked = documented permutation), that arbitrary index lists (symbolic pairs, duplicates, pairs outside the pattern) give the same entries for 1/2/3/16 threads and every '
        'chunk order, that chunks partition the tasks in order, and that outer iterations of the parallel vector kernel have pairwise disjoint write sets and read only their own writes '
        '(hence any schedule gives the same memory contents).',
   note='Trusted: z3, cyx transliteration (signed casts kept), entry-function contract (C01), sequentialised thread pool / prange, symsparse BSR/COO models. Spaces are concrete and enumerated; '
        'entries and index pairs are symbolic. Real threads/OpenMP are outside the claim. Configurations rejected by an explicit "not implemented" assertion (1D symmetric) are counted, not failures.',
   technique='symbolic execution of real Python source + transliterated Cython with z3; write-set disjointness for schedule independence'),
 'C05': dict(
   category='other', design_ref='4/C05',
   text='(A) Bounded symbolic verification of bspline.knot_insertion: the whole open knot vector (coincident knots allowed), the inserted knot (anywhere strictly inside, also on existing '
        'knots) and the evaluation point are solver variables; z3 proves on every polynomial piece of the refined vector that each old basis function equals the combination of the new '
        'ones given by the columns of the returned matrix, and that rows sum to one (degree <= 3 quick / 5 thorough). (B) Hybrid: the real HSpace.prolongate_to (every prefix of a history '
        'to the full history, acting on HB coefficients), HSpace.boundary (all faces, different knot vectors per direction), thb_to_hb/hb_to_thb run on enumerated refinement histories; '
        'for a symbolic coefficient vector z3 decides that the function, expressed in the finest-level tensor-product basis, is preserved. Also per space: HMesh.P of every level and '
        'direction = exact knot insertion; represent_fine on EVERY virtual level for HB and THB = the textbook basis of that level; virtual_hierarchy_prolongators for both bases: the '
        'composition of all preserves the function and, composed from any level, the columns span exactly that level\'s space (existential LRA query per column + independence query). '
        'Known finding: THB virtual_hierarchy_prolongators on spaces with >= 3 levels (known_findings.json).',
   note='Trusted: z3, Cox-de Boor piece oracle (own code), ratnorm division clearing; reference in (B): exact knot insertion in Fractions (own Boehm code, self-tested against Cox-de Boor on every use) '
        'and the textbook (T)HB definition -- not the library\'s HMesh.P. Real float matrices enter with entries replaced by the dyadic rational within 1e-12; tolerance 1e-9. '
        'In (B) the history quantifier is by ENUMERATION (incl. graded knots per direction, sharply nested regions, empty intermediate levels), the solver only quantifies over coefficient vectors. '
        'Not applicable: bspline.prolongation for arbitrary knot vectors (numeric collocation solve; only its results inside HMesh.P are compared), HSplineFunc evaluation routes (replay only).',
   technique='symbolic execution of real Python source + z3 (rational-function identities per polynomial piece; LRA for the hybrid part)'),
 'C01': dict(
   category='translation_validation', design_ref='4/C01',
   text='Per-program translation validation of the code generator (step B of the two-step argument; step A, original form = finalised form, is C06 on the same corpus and grammar): '
        'for each form of the fixed corpus (shipped forms, test/doc forms, two-space Petrov-Galerkin forms, operand-order forms) and of a seeded bounded grammar, the text returned by the real '
        'pyiga.compile.generate() is transliterated as a whole class on top of the transliterated base classes and instantiated symbolically (real KnotVector objects with 1-2 spans, mixed degrees '
        'and repeated knots; symbolic univariate basis jets that vanish outside the mesh support; symbolic geometry/field jets, Gauss weights and parameters). For every index pair z3 decides that '
        'entry_impl returns the sum over the quadrature nodes in the support intersection of the denotation of the finalised form (own semantics, vfsem), that nothing is written for disjoint supports, '
        'that vector forms deliver their components in row-major (test, trial) order, that the constructor uses max-degree+1 nodes per span over ALL spaces, and that after update() of the updatable input fields the same object computes the form for the new fields. Violations are replayed on the real '
        'tool-chain: the compiled assembler against the numeric denotation of the ORIGINAL form on real spline data.',
   note='Trusted: z3, vfsem semantics, cyx transliteration, basis/field stubs (contracts of C02/C07), coordinate convention (parametric coordinate c <-> knot-vector axis d-1-c), ratnorm. '
        'Unsupported programs (boundary/surface forms, derivatives of physical fields, degenerate constants) are listed and not counted; gcc/Cython/loader acceptance is only exercised by replays.',
   technique='translation validation per program: symbolic execution of the transliterated generated Cython class vs a denotational semantics, z3 (polynomial/rational identities)'),
}

NA = {
 'C04': 'Refinement state is per-level Python sets of tuples; every operation iterates them, so a symbolic history degenerates to explicit enumeration and there is no real-valued input left for the solver: solver-based checking does not apply (DESIGN.md section 5).',
 'C17': 'Content is numerical solves (LU/Cholesky/CG through LAPACK/scipy behind FFI); in exact arithmetic the claim is the library contract, so there is nothing to encode (DESIGN.md section 5).',
 'C20': 'Outcome is decided by the file system, Cython/setuptools staleness logic, gcc and dlopen under crashes/races; pyiga code is a single try-import/build; nothing to execute symbolically (DESIGN.md section 5).',
}
PENDING = 'check not built yet in this round (planned, see DESIGN.md section 4); not claimed until its harness exists'

def main():
    props = [json.loads(l) for l in open(os.path.join(HERE, 'properties.jsonl'))]
    checks = []
    na = []
    for p in props:
        pid = p['id']
        if pid in CHECKS:
            c = CHECKS[pid]
            checks.append({
                'property_id': pid,
                'quick_cmd': './check %s --tier quick' % pid,
                'thorough_cmd': './check %s --tier thorough' % pid,
                'evidence_file': 'evidence/%s.json' % pid,
                'replay_cmd_template': './check %s --replay {path}' % pid,
                'engine': 'symx+z3',
                'level_claimed': {'category': c['category'], 'text': c['text'], 'design_ref': c['design_ref']},
                'level_note': c['note'],
                'technique': c['technique'],
            })
        else:
            na.append({'property_id': pid, 'reason': NA.get(pid, PENDING)})
    man = {
        'version': 1,
        'setup_cmd': './setup.sh',
        'hooks': {'guard': 'PYIGA_VERIF', 'enable': 'no source hooks are used: checks read and symbolically execute /repo sources directly',
                  'baseline_off_cmd': 'cd /repo && /venv/bin/python -m pytest -ra -q -p no:cacheprovider --timeout=900 --continue-on-collection-errors',
                  'source_commits': [], 'add_only': True},
        'engines': [
            {'name': 'symx', 'path': 'symx/', 'serves_properties': sorted(CHECKS), 'kind_free_text': 'forking symbolic executor over z3 Real/Int proxies running real Python/numpy source (own code)'},
            {'name': 'cyx', 'path': 'cyx/', 'serves_properties': [p for p in ('C01','C02','C07','C08','C09','C11','C15','C18','C19') if p in CHECKS], 'kind_free_text': 'Cython-subset to Python transliterator so .pyx kernels and generated assemblers run under symx'},
        ],
        'checks': checks,
        'not_applicable': na,
        'notes': 'Exit codes: 0 held / 1 reproduced violation / 2 inconclusive or harness error. Fixed and known defects: known_findings.json.',
    }
    with open(os.path.join(HERE, 'MANIFEST.json'), 'w') as f:
        json.dump(man, f, indent=1)
    print('MANIFEST.json: %d checks, %d not applicable' % (len(checks), len(na)))

if __name__ == '__main__':
    main()
