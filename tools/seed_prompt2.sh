#!/bin/sh
# round-2 prompt: same as seed_prompt.py plus a list of ideas that were already used (so the new changes are different)
PID=$1
H=$(python3 -c "import json;print('; '.join(json.load(open('/verif/seeded/round1_hints.json'))['$PID']))")
python3 /verif/tools/seed_prompt.py $PID /tmp/wt2_$PID /tmp/seed2_$PID "Two other reviewers already used the following ideas, so choose DIFFERENT code sites and a different kind of mistake: $H"
