#!/usr/bin/env python3
"""prints the prompt given to an independent sub-agent that seeds a property-breaking change (gets only the property text)"""
import json, sys, os
HERE = os.path.dirname(os.path.dirname(os.path.abspath(__file__)))
pid = sys.argv[1]; wt = sys.argv[2]; out = sys.argv[3]
extra = sys.argv[4] if len(sys.argv) > 4 else ''
p = [json.loads(l) for l in open(os.path.join(HERE, 'properties.jsonl')) if json.loads(l)['id'] == pid][0]
print(f"""You are testing how well a semantic property of the Python/Cython library c-f-h/pyiga (isogeometric analysis toolbox) is protected.
You work ONLY inside the scratch git worktree {wt} (a checkout of the library with its Cython extensions already built in place).
Do not read or touch /repo or /verif or any other directory outside {wt} and {out}.

The property (this is all the information you get about it):

  Title: {p['title']}
  Statement: {p['statement']}
  Quantified over: {p['quantifier']['text']}
  Code the property is anchored in: {json.dumps(p['anchors'])}

Your task: produce TWO independent, realistic source changes to the library (each a separate small patch against the clean worktree,
touching different functions/sites from each other) such that each change
  (a) BREAKS the property above (the library then violates the statement for some input / history / configuration),
  (b) still compiles/imports, and the existing test suite still passes completely with the change applied:
        cd {wt} && PYTHONPATH={wt} /venv/bin/python -m pytest -q -p no:cacheprovider --timeout=900 -x -q
      (191 tests; about 1-2 minutes; make sure `import pyiga; pyiga.__file__` points into {wt}).
      If you change a .pyx/.pxi file you must rebuild: cd {wt} && /venv/bin/python setup.py build_ext --inplace -j 8 && rm -rf build
  (c) is the kind of mistake a maintainer could plausibly make (an off-by-one at a boundary, a wrong index/axis in a rarely used
      branch, a dropped case, a swapped argument, a stale cached value, a wrong constant, an optimisation that is only valid in the common case ...),
      NOT sabotage that looks deliberate, and
  (d) needs something SPECIFIC to manifest: an unusual input (e.g. a value exactly on a boundary, repeated/unsorted entries, a rarely used
      dimension/shape/flag combination), a multi-step sequence of operations, or two cooperating sites that each look fine alone.
      Ordinary use must NOT expose it at once. {extra}

For each change write a demonstration: a small standalone Python program demo.py that uses only the library's public API, exits 0 and prints PASS
on the unchanged library, and exits 1 (printing what went wrong) with the change applied. Run it as: PYTHONPATH={wt} /venv/bin/python demo.py

Deliverables (write exactly these files):
  {out}/1/patch.diff   (output of `git -C {wt} diff` for change 1, applicable with `git apply` on the clean tree)
  {out}/1/demo.py
  {out}/1/notes.md     (which part of the property it breaks, what it needs in order to manifest, commands you ran and their results:
                         test-suite result with the change, demo result with and without the change)
  {out}/2/patch.diff, {out}/2/demo.py, {out}/2/notes.md   likewise for change 2.
Verify everything yourself (suite passes with each change alone; demo fails with it and passes without it). When done, leave the worktree clean
(`git -C {wt} checkout -- .`; if you rebuilt extensions after changing a .pyx, restore the file and rebuild again so the built extensions match the clean tree).
Do not commit anything. Final answer: a short summary of the two changes.""")
