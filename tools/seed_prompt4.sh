#!/bin/sh
# round-4 prompt: the ideas of rounds 1-3 are listed as already used
PID=$1
H=$(python3 -c "import json;print('; '.join(json.load(open('/verif/seeded/round3_hints.json'))['$PID']))")
python3 /verif/tools/seed_prompt.py $PID /tmp/wt4_$PID /tmp/seed4_$PID "Several other reviewers already used the following ideas, so choose DIFFERENT code sites and a different kind of mistake (prefer parts of the statement none of these touches): $H"
