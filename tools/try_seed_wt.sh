#!/bin/bash
# usage: try_seed_wt.sh PID SEEDDIR WT [check-id]   -- like try_seed.sh (check step only) but on a private worktree WT through VERIF_REPO,
# so that /repo stays untouched (used while another batch owns /repo).  Python-only patches (no rebuild).
PID=$1; SD=$2; WT=$3; CK=${4:-$PID}
LOG=/tmp/seedlog/wt_$(echo $SD | tr '/' '_'); mkdir -p /tmp/seedlog
git -C $WT checkout -q -- . && git -C $WT apply $SD/patch.diff || { echo "$PID $SD: patch does not apply"; exit 3; }
t0=$(date +%s)
VERIF_REPO=$WT timeout 3600 /verif/check $CK --tier quick >$LOG.check_$CK 2>&1; rc=$?
t1=$(date +%s)
git -C $WT checkout -q -- .
echo "$PID $SD [$CK]: exit=$rc ($((t1-t0))s) $(grep -c '^VIOLATION' $LOG.check_$CK) violation lines, $(grep -c '^INCONCLUSIVE' $LOG.check_$CK) inconclusive"
