#!/usr/bin/env python3
"""copies confirmed seeded changes from /tmp/seed_<pid>/<n> into /verif/seeded/<pid>-<n>/ with meta.json
usage: keep_seeds.py  (table below is the record of what was confirmed and what the checks did)"""
import json, os, shutil, sys
HERE = os.path.dirname(os.path.dirname(os.path.abspath(__file__)))
T = json.load(open(os.path.join(HERE, 'seeded', 'TABLE.json')))
for key, m in T.items():
    pid, n = key.split('-')
    src = '/tmp/seed_%s/%s' % (pid, n)
    dst = os.path.join(HERE, 'seeded', key)
    if os.path.isdir(src):
        os.makedirs(dst, exist_ok=True)
        for f in ('patch.diff', 'demo.py', 'notes.md'):
            if os.path.exists(os.path.join(src, f)): shutil.copy(os.path.join(src, f), dst)
    if os.path.isdir(dst):
        meta = {'property': pid, 'breaks': m['breaks'], 'needs_to_manifest': m['needs'],
                'confirmed': 'scratch worktree of /repo HEAD: full suite passes with the patch (191 passed), demo.py exits 1 with the patch and 0 without it '
                             '(tools/try_seed.sh: git apply; [rebuild extensions if a .pyx changed]; pytest; demo; git checkout)',
                'check_result': m['result'], 'caught_by': m.get('caught_by'), 'origin': 'independent sub-agent given only the property text'}
        json.dump(meta, open(os.path.join(dst, 'meta.json'), 'w'), indent=1)
print('kept', len(T))
