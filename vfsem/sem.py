"""vfsem.sem -- denotational semantics of pyiga.vform expression trees over z3 reals.

The meaning of an expression at ONE quadrature node, as a function of an environment of
independent atoms (Gauss weights, parametric jets of basis functions / input fields / geometry,
parameter entries).  Physical derivatives of parametric quantities are *defined implicitly* by
the chain rule (fresh unknowns + side constraints), i.e. independently of the cofactor formulas
the compiler uses:
    d_xi_i f   = sum_k  (d_x_k f) J[k][i]
    d_xi_i d_xi_j f = sum_kl (d_x_k d_x_l f) J[k][i] J[l][j] + sum_k (d_x_k f) d_xi_i d_xi_j G_k
Builtin functions are uninterpreted (abs as ite).  This module imports pyiga.vform only to
recognise node *types*; no evaluation logic of pyiga is used.
"""
from fractions import Fraction
import z3


def rv(x):
    f = float(x)
    if f == int(f) and abs(f) < 2 ** 53:
        return z3.RealVal(int(f))
    return z3.RealVal(Fraction(f))


def _fval(t):
    if isinstance(t, float): return t
    return float(Fraction(t.numerator_as_long(), t.denominator_as_long()))


def _isconst(t):
    return isinstance(t, float) or (z3.is_expr(t) and z3.is_rational_value(t))


def _sum(xs):
    xs = list(xs)
    if not xs: return 0
    r = xs[0]
    for x in xs[1:]: r = r + x
    return r


def _abs(x):
    if isinstance(x, float): return abs(x)
    return z3.If(x >= 0, x, -x)


def det(A):
    n = len(A)
    if n == 0: return 1
    if n == 1: return A[0][0]
    if n == 2: return A[0][0] * A[1][1] - A[0][1] * A[1][0]
    if n == 3:
        return (A[0][0] * (A[1][1] * A[2][2] - A[1][2] * A[2][1]) - A[0][1] * (A[1][0] * A[2][2] - A[1][2] * A[2][0])
                + A[0][2] * (A[1][0] * A[2][1] - A[1][1] * A[2][0]))
    raise NotImplementedError


def prod(xs):
    r = None
    for x in xs: r = x if r is None else r * x
    return r if r is not None else 1


def e1(d, i): return tuple(1 if k == i else 0 for k in range(d))
def e2(d, i, j): return tuple((1 if k == i else 0) + (1 if k == j else 0) for k in range(d))


def D_to_indices(D):
    out = []
    for k, n in enumerate(D): out += [k] * n
    return out


class UndefinedVar(Exception):
    pass


def env_zero(env):
    return env.const(0.0)


class Env:
    """symbolic environment at one quadrature node"""
    def __init__(self, vfmod, V, share=None):
        self.vf = vfmod
        self.V = V
        self.d = V.dim
        self.geo_dim = V.geo_dim
        if share is None:
            self.atoms = {}
            self.ufs = {}
            self.side = []
            self.defs = {}
            self.denoms = []
        else:
            self.atoms, self.ufs, self.side, self.defs, self.denoms = share.atoms, share.ufs, share.side, share.defs, share.denoms
        self.varvals = None        # ordered evaluation mode: dict AsmVar -> value
        self.bf_subst = None       # vector component substitution: {(name): active component}
        self.record_denoms = True
        self.abstract_jacinv = True
        if share is None:
            self.lemmas = []           # (name, z3 formula that must be VALID under geometry assumptions)
        else:
            self.lemmas = share.lemmas

    def abstract_inverse(self, val):
        """compositional step: the compiler's value of the variable JacInv is replaced by the abstract inverse Ji,
        justified by the lemma  val . J = I  (recorded; discharged separately as its own query)"""
        d = self.d; J = self.jac()
        key = ('jacinv-lemma', tuple(x.get_id() for row in val for x in row))
        if key not in self.defs:
            eqs = []
            for a in range(d):
                for b in range(d):
                    eqs.append(_sum([val[a][k] * J[k][b] for k in range(d)]) == z3.RealVal(1 if a == b else 0))
            self.lemmas.append(('JacInv . Jac = I', z3.And(*eqs)))
            self.defs[key] = True
        return self.Ji()

    def sym(self, name):
        if name not in self.atoms:
            self.atoms[name] = z3.Real(name)
        return self.atoms[name]

    def const(self, x):
        return rv(x)

    @property
    def gw(self):
        return [self.sym('gw%d' % k) for k in range(self.d)]

    def bfun_para(self, bf, D):
        comp = bf.component
        if comp is not None and self.bf_subst is not None:
            # vector-valued basis function with components (0,..,phi,..,0): component `active` carries the scalar bfun
            active = self.bf_subst.get(bf.name)
            if active != comp:
                return env_zero(self)
            comp = None
        c = '' if comp is None else '_c%d' % comp
        return self.sym('bf_%s%s_D%s' % (bf.name, c, ''.join(map(str, D))))

    def input_atom(self, inp, I, D, physical_deriv=False):
        tag = 'inP' if (inp.physical and sum(D) > 0) else 'in'
        return self.sym('%s_%s_I%s_D%s' % (tag, inp.name, '_'.join(map(str, I)), ''.join(map(str, D))))

    def param(self, par, I):
        return self.sym('par_%s_I%s' % (par.name, '_'.join(map(str, I))))

    def uf(self, name, x):
        if name == 'abs':
            return _abs(x)
        if name not in self.ufs:
            self.ufs[name] = z3.Function('uf_' + name, z3.RealSort(), z3.RealSort())
        return self.ufs[name](x)

    # geometry
    def geo(self):
        return self.V.inputs[0]

    def jac(self):
        g = self.geo(); d = self.d
        return [[self.input_atom(g, (i,), e1(d, j)) for j in range(d)] for i in range(self.geo_dim)]

    def geo_hess(self, k, i, j):
        return self.input_atom(self.geo(), (k,), e2(self.d, i, j))

    def Ji(self):
        """abstract inverse Jacobian: fresh symbols constrained by Ji J = I = J Ji (a conservative extension:
        such a matrix exists and is unique whenever det J != 0, which is assumed)"""
        if 'Ji' in self.defs:
            return self.defs['Ji']
        d = self.d; J = self.jac()
        Ji = [[z3.Real('ji_%d_%d' % (a, k)) for k in range(d)] for a in range(d)]
        for a in range(d):
            for b in range(d):
                one = z3.RealVal(1 if a == b else 0)
                self.side.append(_sum([Ji[a][k] * J[k][b] for k in range(d)]) == one)
                self.side.append(_sum([J[a][k] * Ji[k][b] for k in range(d)]) == one)
        self.defs['Ji'] = Ji
        return Ji

    def physical_jets(self, key, para_jet):
        """physical gradient / Hessian of a scalar quantity whose parametric jets are para_jet(D), by the chain rule
        written with the abstract inverse Jacobian:  grad_x f = Ji^T grad_xi f,
        H_x f = Ji^T (H_xi f - sum_k (d_x_k f) H_xi G_k) Ji"""
        if key in self.defs:
            return self.defs[key]
        d = self.d
        V = self.V
        sd = list(range(d - 1)) if V.spacetime else list(range(d))
        n = len(sd)
        Ji = self.Ji()
        g = [_sum([Ji[a][k] * para_jet(e1(d, a)) for a in sd]) for k in sd]
        h = None
        if not V.spacetime:
            Hp = [[para_jet(e2(d, a, b)) - _sum([g[k] * self.geo_hess(k, a, b) for k in sd]) for b in sd] for a in sd]
            h = [[_sum([Ji[a][k] * Hp[a][b] * Ji[b][l] for a in sd for b in sd]) for l in sd] for k in sd]
        self.defs[key] = (g, h)
        return g, h

    def spacetime_jets(self, key, para_jet_with_dt):
        """space-time cylinder: physical first space derivatives of (d_t^m f); para_jet_with_dt(D) includes the time part"""
        return self.physical_jets(key, para_jet_with_dt)

    def geometry_assumptions(self):
        """documented preconditions on the geometry at the node"""
        J = self.jac(); d = self.d
        cs = []
        if self.V.dim == self.V.geo_dim:
            cs.append(det(J) != 0)
        if self.V.spacetime:
            # space-time cylinder G(x,t) = (G_s(x), t'(t)): no mixing between space and time
            for i in range(d - 1):
                cs.append(J[i][d - 1] == 0); cs.append(J[d - 1][i] == 0)
            cs.append(J[d - 1][d - 1] != 0)
            cs.append(det([[J[i][j] for j in range(d - 1)] for i in range(d - 1)]) != 0)
        return cs


def ev(e, env):
    """denotation of expression e: z3 term, or nested lists for vectors / matrices"""
    vf = env.vf
    T = type(e)
    if T is vf.ConstExpr:
        return env.const(e.value)
    if T is vf.LiteralVectorExpr:
        return [ev(c, env) for c in e.children]
    if T is vf.LiteralMatrixExpr:
        m, n = e.shape
        return [[ev(e.children[i * n + j], env) for j in range(n)] for i in range(m)]
    if T is vf.NegExpr:
        return -ev(e.x, env)
    if T is vf.BuiltinFuncExpr:
        return env.uf(e.funcname, ev(e.x, env))
    if T is vf.ScalarOperExpr:
        a, b = ev(e.x, env), ev(e.y, env)
        if _isconst(a) and _isconst(b) and not (e.oper == '/' and _fval(b) == 0):
            # constant-only subexpression: any implementation evaluates it in double arithmetic
            # (the compiler folds it, the C compiler or the FPU would otherwise) -- same IEEE operation
            fa, fb = _fval(a), _fval(b)
            return env.const({'+': fa + fb, '-': fa - fb, '*': fa * fb, '/': (fa / fb) if fb else 0.0}[e.oper])
        if e.oper == '+': return a + b
        if e.oper == '-': return a - b
        if e.oper == '*': return a * b
        if e.oper == '/':
            if env.record_denoms: env.denoms.append(b)
            return a / b
        raise NotImplementedError(e.oper)
    if T is vf.GaussWeightExpr:
        return env.gw[e.axis]
    if T is vf.VolumeMeasureExpr:
        dt = det(env.jac())
        return prod(env.gw) * _abs(dt)
    if T is vf.SurfaceMeasureExpr:
        return prod(env.gw) * env.uf('sqrt', normal_sq(env))
    if T is vf.PartialDerivExpr:
        bf = e.basisfun
        if sum(e.D) == 0 or not e.physical:
            return env.bfun_para(bf, e.D)
        return physical_deriv(env, 'bf_%s_%s_%s' % (bf.name, bf.component, (env.bf_subst or {}).get(bf.name)),
                              lambda D: env.bfun_para(bf, D), e.D)
    if T is vf.VarRefExpr:
        return ev_varref(e, env)
    # composite tensor nodes: own definition of the operation (NOT the node's .at(), which is part of the code under test)
    if T is vf.MatMatExpr:
        A, B = ev(e.x, env), ev(e.y, env)
        if len(A[0]) != len(B): raise ValueError('matrix product of incompatible shapes')
        return [[_sum([A[i][k] * B[k][j] for k in range(len(B))]) for j in range(len(B[0]))] for i in range(len(A))]
    if T is vf.MatVecExpr:
        A, x = ev(e.x, env), ev(e.y, env)
        if len(A[0]) != len(x): raise ValueError('matrix-vector product of incompatible shapes')
        return [_sum([A[i][k] * x[k] for k in range(len(x))]) for i in range(len(A))]
    if T is vf.OuterProdExpr:
        x, y = ev(e.x, env), ev(e.y, env)
        return [[xi * yj for yj in y] for xi in x]
    if T is vf.VectorCrossExpr:
        x, y = ev(e.x, env), ev(e.y, env)
        return [x[1] * y[2] - x[2] * y[1], x[2] * y[0] - x[0] * y[2], x[0] * y[1] - x[1] * y[0]]
    if T is vf.TensorOperExpr and e.oper in ('+', '-', '*', '/') and len(e.children) == 2:
        a, b = ev(e.x, env), ev(e.y, env)
        def ew(p, q):
            if isinstance(p, list): return [ew(pp, qq) for pp, qq in zip(p, q)]
            if e.oper == '+': return p + q
            if e.oper == '-': return p - q
            if e.oper == '*': return p * q
            if env.record_denoms: env.denoms.append(q)
            return p / q
        return ew(a, b)
    if e.is_vector():
        return [ev(e[i], env) for i in range(e.shape[0])]
    if e.is_matrix():
        return [[ev(e[i, j], env) for j in range(e.shape[1])] for i in range(e.shape[0])]
    raise NotImplementedError(T)


def physical_deriv(env, key, para_jet, D):
    V = env.V; d = env.d
    if V.spacetime:
        Dx_ = tuple(D[:-1]) + (0,)
        nt = D[-1]
        if sum(Dx_) == 0:
            return para_jet(D)            # pure time derivatives are parametric on a cylinder
        if sum(Dx_) == 1:
            k = Dx_.index(1)
            def pj(Dq, nt=nt):
                return para_jet(tuple(Dq[:-1]) + (Dq[-1] + nt,))
            g, _ = env.physical_jets(key + '_dt%d' % nt, pj)
            return g[k]
        raise NotImplementedError('second order physical space derivatives in space-time')
    idx = D_to_indices(D)
    g, h = env.physical_jets(key, para_jet)
    if len(idx) == 1: return g[idx[0]]
    if len(idx) == 2: return h[idx[0]][idx[1]]
    raise NotImplementedError('physical derivatives of order > 2')


def normal_sq(env):
    un = unscaled_normal(env)
    return _sum([c * c for c in un])


def bjac(env):
    V = env.V; J = env.jac()
    if V.is_boundary:
        # Jac @ Jac_to_boundary (documented constant (dim x dim-1) parameter selecting the boundary directions)
        par = [p for p in V.params if p.name == 'Jac_to_boundary']
        if not par:
            class _P: name = 'Jac_to_boundary'
            par = [_P]
        P = [[env.param(par[0], (i, j)) for j in range(V.dim - 1)] for i in range(V.dim)]
        return [[_sum([J[i][k] * P[k][j] for k in range(V.dim)]) for j in range(V.dim - 1)] for i in range(len(J))]
    return J


def unscaled_normal(env):
    B = bjac(env)
    m, n = len(B), len(B[0]) if B else 0
    if (m, n) == (2, 1):
        return [-B[1][0], B[0][0]]
    if (m, n) == (3, 2):
        x = [B[i][0] for i in range(3)]; y = [B[i][1] for i in range(3)]
        return [x[1] * y[2] - x[2] * y[1], x[2] * y[0] - x[0] * y[2], x[0] * y[1] - x[1] * y[0]]
    raise NotImplementedError('normal for Jacobian shape %s' % ((m, n),))


def ev_varref(e, env):
    vf = env.vf
    var = e.var
    if var.expr is not None:
        assert sum(e.D) == 0
        if env.varvals is not None:
            if var not in env.varvals:
                raise UndefinedVar(var.name)
            val = env.varvals[var]
        else:
            val = ev(var.expr, env)
        if var.name == 'JacInv' and env.abstract_jacinv and env.V.dim == env.V.geo_dim:
            val = env.abstract_inverse(val)
        for i in e.I: val = val[i]
        return val
    if isinstance(var.src, vf.Parameter):
        return env.param(var.src, e.I)
    if isinstance(var.src, vf.InputField):
        inp = var.src; d = env.d
        if var.deriv == 0:
            if sum(e.D) == 0:
                return env.input_atom(inp, e.I, e.D)
            if inp.physical:
                if e.parametric:
                    raise NotImplementedError('parametric derivative of physical field')
                return env.input_atom(inp, e.I, e.D)          # physical jets of a physical field: atoms
            if e.parametric:
                return env.input_atom(inp, e.I, e.D)
            return physical_deriv(env, 'in_%s_%s' % (inp.name, '_'.join(map(str, e.I))),
                                  lambda D: env.input_atom(inp, e.I, D), e.D)
        assert sum(e.D) == 0
        if var.deriv == 1:
            *I, k = e.I
            return env.input_atom(inp, tuple(I), e1(d, k))
        if var.deriv == 2:
            *I, s = e.I
            pairs = [(i, j) for i in range(d) for j in range(i, d)]
            i, j = pairs[s]
            return env.input_atom(inp, tuple(I), e2(d, i, j))
    raise NotImplementedError(str(e))


def flat(x):
    return [x] if not isinstance(x, list) else [z for y in x for z in flat(y)]


# ------------------------------------------------------------------------------------------
def eval_finalized(V, env):
    """evaluate the finalised form in the emitted order: precompute vars, then kernel vars, then exprs.
    Raises UndefinedVar when a variable is used before it is defined.  Returns (values, structural problems)."""
    vf = env.vf
    problems = []
    env.varvals = {}
    pre = list(V.precomp)
    for var in pre:
        if var.scope == vf.Scope.BASISFUN:
            problems.append('precomputed variable %s depends on a basis function' % var.name)
    order = pre + [v for v in V.kernel_deps if v not in pre]
    seen_positions = {v: i for i, v in enumerate(V.linear_deps)}
    for var in order:
        if not isinstance(var, vf.AsmVar):
            continue
        if var.expr is not None:
            try:
                env.varvals[var] = ev(var.expr, env)
            except UndefinedVar as u:
                problems.append('variable %s uses %s before it is defined' % (var.name, u))
                env.varvals[var] = ev_deep(var.expr, env)
    vals = []
    for e in V.exprs:
        try:
            vals.append(ev(e, env))
        except UndefinedVar as u:
            problems.append('kernel expression uses %s which is neither precomputed nor a kernel dependency' % u)
            vals.append(ev_deep(e, env))
    env.varvals = None
    return vals, problems


def ev_deep(e, env):
    saved = env.varvals
    env.varvals = None
    try:
        return ev(e, env)
    finally:
        env.varvals = saved


# ------------------------------------------------------------------------------------------
class NumEnv(Env):
    """the same semantics evaluated on concrete floats (used for replay: atoms come from a solver model
    or from real spline data at a quadrature node)"""
    def __init__(self, vfmod, V, atom_value):
        Env.__init__(self, vfmod, V)
        self.atom_value = atom_value        # callable name -> float
        self.abstract_jacinv = False

    def sym(self, name):
        if name not in self.atoms:
            self.atoms[name] = float(self.atom_value(name))
        return self.atoms[name]

    def const(self, x):
        return float(x)

    def uf(self, name, x):
        import math
        if name == 'abs': return abs(x)
        return float(getattr(math, name)(x))

    def Ji(self):
        if 'Ji' not in self.defs:
            import numpy as np
            J = np.array(self.jac(), dtype=float)
            self.defs['Ji'] = np.linalg.inv(J).tolist()
        return self.defs['Ji']


# ------------------------------------------------------------------------------------------
# forward-mode derivative oracle (independent of vform._dx_impl)
class NotDifferentiable(Exception):
    pass


def dual(e, env, k, parametric):
    """-> (value, derivative) of scalar expression e with respect to the k-th parametric (parametric=True)
    or physical coordinate, by forward-mode differentiation over the denotation"""
    vf = env.vf
    T = type(e)
    d = env.d
    if T is vf.ConstExpr:
        return env.const(e.value), env.const(0.0)
    if T is vf.NegExpr:
        v, dv = dual(e.x, env, k, parametric)
        return -v, -dv
    if T is vf.ScalarOperExpr:
        a, da = dual(e.x, env, k, parametric)
        b, db = dual(e.y, env, k, parametric)
        if e.oper == '+': return a + b, da + db
        if e.oper == '-': return a - b, da - db
        if e.oper == '*': return a * b, da * b + a * db
        if e.oper == '/':
            if env.record_denoms: env.denoms.append(b)
            return a / b, (da * b - a * db) / (b * b)
    if T is vf.PartialDerivExpr:
        bf = e.basisfun
        order = sum(e.D)
        key = 'bf_%s_%s_%s' % (bf.name, bf.component, (env.bf_subst or {}).get(bf.name))
        pj = lambda D: env.bfun_para(bf, D)
        return _leaf_dual(env, key, pj, e.D, order, bool(e.physical), k, parametric)
    if T is vf.VarRefExpr:
        var = e.var
        if var.expr is not None:
            u = e.get_underlying_expr()
            return dual(u, env, k, parametric)
        if isinstance(var.src, vf.Parameter):
            return env.param(var.src, e.I), env.const(0.0)
        if isinstance(var.src, vf.InputField):
            inp = var.src
            if inp.physical or var.deriv != 0:
                raise NotDifferentiable('physical / derived input var')
            order = sum(e.D)
            key = 'in_%s_%s' % (inp.name, '_'.join(map(str, e.I)))
            pj = lambda D: env.input_atom(inp, e.I, D)
            return _leaf_dual(env, key, pj, e.D, order, order > 0 and not e.parametric, k, parametric)
    raise NotDifferentiable(T.__name__)


def _leaf_dual(env, key, pj, D, order, leaf_physical, k, parametric):
    d = env.d
    if parametric:
        if order > 0 and leaf_physical:
            raise NotDifferentiable('parametric derivative of physical derivative')
        Dn = list(D); Dn[k] += 1
        return pj(tuple(D)), pj(tuple(Dn))
    # physical direction k
    if order > 0 and not leaf_physical:
        raise NotDifferentiable('physical derivative of parametric derivative')
    if env.V.spacetime:
        raise NotDifferentiable('space-time')
    g, h = env.physical_jets(key, pj)
    if order == 0:
        return pj(tuple(D)), g[k]
    if order == 1:
        m = D_to_indices(D)[0]
        return g[m], h[m][k]
    raise NotDifferentiable('third derivative')
