"""vfsem.gen -- bounded grammar of variational forms (programs for C01 / C06 / C13).

A program is a python closure that builds a fresh VForm with the *given* vform module (the real
one loaded from /repo's source, or a canary mutant of it).  Forms are generated as typed random
expression trees of bounded depth over the documented grammar, plus a fixed corpus (shipped forms,
forms from the repo's tests and documentation).
"""
import random


class Skip(Exception):
    pass


class Ctx:
    """per-form generation context"""
    def __init__(self, vf, V, d, rng):
        self.vf, self.V, self.d, self.rng = vf, V, d, rng
        self.scalars = []; self.vectors = []; self.matrices = []
        self.desc = []

    def add_atoms(self, kind, items):
        getattr(self, kind).extend(items)


def _safe(f, *a, **k):
    return f(*a, **k)


def rand_scalar(c, depth):
    rng, vf = c.rng, c.vf
    if depth <= 0:
        return rng.choice(c.scalars)()
    k = rng.randrange(17)
    if k <= 2:
        return rng.choice(c.scalars)()
    if k == 3: return rand_scalar(c, depth - 1) + rand_scalar(c, depth - 1)
    if k == 4: return rand_scalar(c, depth - 1) - rand_scalar(c, depth - 1)
    if k in (5, 6): return rand_scalar(c, depth - 1) * rand_scalar(c, depth - 1)
    if k == 7: return rand_scalar(c, depth - 1) / (rng.choice([1, 2]) + rand_scalar(c, depth - 1) ** 2)
    if k == 8: return rand_scalar(c, depth - 1) ** rng.choice([2, 3, -1, 0, 1])
    if k == 9:
        fn = rng.choice(['sin', 'cos', 'exp', 'abs', 'sqrt', 'log', 'tan'])
        x = rand_scalar(c, depth - 1)
        return abs(x) if fn == 'abs' else getattr(vf, fn)(x)
    if k == 10: return vf.inner(rand_vector(c, depth - 1), rand_vector(c, depth - 1))
    if k == 11: return vf.dot(rand_vector(c, depth - 1), rand_vector(c, depth - 1))
    if k == 12:
        M = rand_matrix(c, depth - 1)
        return rng.choice([vf.det, vf.tr])(M)
    if k == 13: return vf.inner(rand_matrix(c, depth - 1), rand_matrix(c, depth - 1))
    if k == 14:
        v = rand_vector(c, depth - 1)
        return v[rng.randrange(len(v))]
    if k == 15:
        M = rand_matrix(c, depth - 1)
        return M[rng.randrange(M.shape[0]), rng.randrange(M.shape[1])]
    if k == 16: return -rand_scalar(c, depth - 1)
    raise AssertionError


def rand_vector(c, depth):
    rng, vf = c.rng, c.vf
    if depth <= 0 or not c.vectors:
        if not c.vectors: raise Skip('no vector atoms')
        return rng.choice(c.vectors)()
    k = rng.randrange(9)
    if k <= 2: return rng.choice(c.vectors)()
    if k == 3: return rand_scalar(c, depth - 1) * rand_vector(c, depth - 1)
    if k == 4: return rand_vector(c, depth - 1) + rand_vector(c, depth - 1)
    if k == 5: return vf.dot(rand_matrix(c, depth - 1), rand_vector(c, depth - 1))
    if k == 6:
        if c.d == 3: return vf.cross(rand_vector(c, depth - 1), rand_vector(c, depth - 1))
        return rand_vector(c, depth - 1) - rand_vector(c, depth - 1)
    if k == 7:
        M = rand_matrix(c, depth - 1)
        return M[rng.randrange(M.shape[0]), :] if rng.random() < .5 else M[:, rng.randrange(M.shape[1])]
    if k == 8:
        return vf.as_vector([rand_scalar(c, depth - 1) for _ in range(c.d)])
    raise AssertionError


def rand_matrix(c, depth):
    rng, vf = c.rng, c.vf
    if depth <= 0 or not c.matrices:
        if not c.matrices:
            return vf.outer(rand_vector(c, 0), rand_vector(c, 0))
        return rng.choice(c.matrices)()
    k = rng.randrange(9)
    if k <= 2: return rng.choice(c.matrices)()
    if k == 3: return rand_matrix(c, depth - 1).T
    if k == 4: return vf.dot(rand_matrix(c, depth - 1), rand_matrix(c, depth - 1))
    if k == 5: return vf.outer(rand_vector(c, depth - 1), rand_vector(c, depth - 1))
    if k == 6: return rand_scalar(c, depth - 1) * rand_matrix(c, depth - 1)
    if k == 7: return rand_matrix(c, depth - 1) + rand_matrix(c, depth - 1)
    if k == 8: return vf.inv(rand_matrix(c, 0))
    raise AssertionError


def make_random_form(vf, seed, depth=2):
    """-> dict(V=VForm (not finalised), orig=[original scalar exprs before add()], desc=str)"""
    rng = random.Random(seed)
    d = rng.choice([1, 2, 2, 2, 3])
    arity = rng.choice([1, 2, 2])
    kind = rng.choice(['vol', 'vol', 'vol', 'vol', 'surf', 'bnd']) if d <= 2 or True else 'vol'
    spacetime = (kind == 'vol' and d >= 2 and rng.random() < 0.12)
    if kind == 'surf' and d == 3: kind = 'vol'
    if kind == 'bnd' and d == 1: kind = 'vol'
    geo_dim = d + 1 if kind == 'surf' else d
    V = vf.VForm(d, geo_dim=geo_dim, boundary=(kind == 'bnd'), arity=arity, spacetime=spacetime)
    vec = rng.random() < 0.3 and not spacetime
    comps = (None, None)
    if vec:
        comps = tuple(rng.choice([d, 2, 3, 1]) for _ in range(2))
        if arity == 1: comps = (comps[0], None)
    spaces = (0, 0) if rng.random() < 0.8 else (0, 1)
    bf = V.basisfuns(components=comps, spaces=spaces)
    bfs = (bf,) if arity == 1 else bf
    c = Ctx(vf, V, d, rng)
    desc = ['d=%d arity=%d kind=%s st=%s comps=%s spaces=%s' % (d, arity, kind, spacetime, comps, spaces)]
    phys_ok = (kind == 'vol')          # physical derivatives need a square Jacobian

    def deriv_atoms(x, label):
        out = [lambda x=x: x]
        for k in range(d):
            out.append(lambda x=x, k=k: vf.Dx(x, k, parametric=True))
            if phys_ok and (not spacetime or k < d - 1):
                out.append(lambda x=x, k=k: vf.Dx(x, k))
        if spacetime:
            out.append(lambda x=x: x.dt())
        return out

    for b in bfs:
        if b.is_scalar():
            c.scalars += deriv_atoms(b, 'bf')
            c.vectors.append(lambda b=b: vf.grad(b, parametric=True))
            if phys_ok:
                c.vectors.append(lambda b=b: vf.grad(b))
                if not spacetime:
                    c.matrices.append(lambda b=b: vf.hess(b))
            if not spacetime:
                c.matrices.append(lambda b=b: vf.hess(b, parametric=True))
        else:
            c.vectors.append(lambda b=b: b)
            for i in range(len(b)):
                c.scalars += deriv_atoms(b[i], 'bfc')
            if phys_ok and not spacetime:
                c.matrices.append(lambda b=b: vf.grad(b))
                if len(b) == d:
                    c.scalars.append(lambda b=b: vf.div(b))
                if len(b) == 3 and d == 3:
                    c.vectors.append(lambda b=b: vf.curl(b))
            c.matrices.append(lambda b=b: vf.grad(b, parametric=True))
    # inputs and parameters
    ninp = rng.randrange(0, 3)
    for n in range(ninp):
        shape = rng.choice([(), (), (d,), (d, d)])
        physical = rng.random() < 0.3
        upd = rng.random() < 0.2
        name = 'f%d' % n
        f = V.input(name, shape=shape, physical=physical, updatable=upd)
        desc.append('input %s shape=%s phys=%s' % (name, shape, physical))
        if shape == ():
            c.scalars.append(lambda f=f: f)
            if not physical:
                for k in range(d):
                    c.scalars.append(lambda f=f, k=k: vf.Dx(f, k, parametric=True))
                c.vectors.append(lambda f=f: vf.grad(f, parametric=True))
                if phys_ok and not spacetime:
                    c.vectors.append(lambda f=f: vf.grad(f))
                    c.matrices.append(lambda f=f: vf.hess(f))
                if not spacetime:
                    c.matrices.append(lambda f=f: vf.hess(f, parametric=True))
            else:
                if phys_ok and not spacetime:
                    c.vectors.append(lambda f=f: vf.grad(f))
        elif len(shape) == 1:
            c.vectors.append(lambda f=f: f)
            c.scalars.append(lambda f=f: f[rng.randrange(d)])
            if not physical:
                c.matrices.append(lambda f=f: vf.grad(f, parametric=True))
                if phys_ok and not spacetime:
                    c.matrices.append(lambda f=f: vf.grad(f))
                    c.scalars.append(lambda f=f: vf.div(f))
        else:
            c.matrices.append(lambda f=f: f)
    npar = rng.randrange(0, 2)
    for n in range(npar):
        shape = rng.choice([(), (d,), (d, d)])
        p = V.parameter('c%d' % n, shape=shape)
        desc.append('param c%d shape=%s' % (n, shape))
        {0: c.scalars, 1: c.vectors, 2: c.matrices}[len(shape)].append(lambda p=p: p)
    for v in (1, 2, 0.5, -1, 0, 3):
        c.scalars.append(lambda v=v: vf.as_expr(v))
    # geometry-related atoms
    c.vectors.append(lambda: V.Geo if geo_dim == d else vf.as_vector([V.Geo[i] for i in range(d)]))
    c.scalars.append(lambda: V.Geo[rng.randrange(geo_dim)])
    c.scalars.append(lambda: V.GaussWeight)
    if kind == 'vol':
        c.matrices.append(lambda: V.Jac)
        c.matrices.append(lambda: V.JacInv)
        c.scalars.append(lambda: V.W)
    if kind in ('surf', 'bnd') and (geo_dim, d) in ((2, 1), (3, 2), (2, 2), (3, 3)):
        nrm = lambda: V.normal
        if geo_dim == d:
            c.vectors.append(nrm)
        else:
            c.scalars.append(lambda: V.normal[rng.randrange(geo_dim)])
    # integrand: product structure so that every basis function occurs
    terms = []
    for _ in range(rng.choice([1, 1, 2])):
        coef = rand_scalar(c, depth)
        factors = [coef]
        for b in bfs:
            if b.is_scalar():
                factors.append(rng.choice(deriv_atoms(b, ''))())
            else:
                w = rand_vector(c, max(depth - 1, 0))
                if len(w) != len(b):
                    w = vf.as_vector([rand_scalar(c, 0) for _ in range(len(b))])
                factors.append(vf.inner(b, w) if rng.random() < .6 else b[rng.randrange(len(b))])
        t = factors[0]
        for fct in factors[1:]: t = t * fct
        terms.append(t)
    expr = terms[0]
    for t in terms[1:]: expr = expr + t
    measure = vf.dx if kind == 'vol' else vf.ds
    if rng.random() < 0.15 and kind == 'vol':
        full = expr * V.W          # explicit weight instead of dx
    else:
        full = expr * measure
    V.add(full)
    return {'V': V, 'orig': [full], 'desc': '; '.join(desc), 'seed': seed}


# ------------------------------------------------------------------------------------------
def corpus(vf):
    """fixed corpus: shipped forms, forms from test/test_vform.py, test_assemble.py, test_codegen.py, docs"""
    progs = []

    def add(name, make):
        progs.append((name, make))

    for d in (1, 2, 3):
        add('mass_vf(%d)' % d, lambda d=d: vf.mass_vf(d))
        add('stiffness_vf(%d)' % d, lambda d=d: vf.stiffness_vf(d))
        add('L2functional_vf(%d)' % d, lambda d=d: vf.L2functional_vf(d))
        add('L2functional_vf(%d,physical)' % d, lambda d=d: vf.L2functional_vf(d, physical=True))
    for d in (2, 3):
        add('heat_st_vf(%d)' % d, lambda d=d: vf.heat_st_vf(d))
        add('wave_st_vf(%d)' % d, lambda d=d: vf.wave_st_vf(d))
        add('divdiv_vf(%d)' % d, lambda d=d: vf.divdiv_vf(d))

    def laplace(d):
        V = vf.VForm(d); u, v = V.basisfuns(); V.add(vf.inner(vf.grad(u), vf.grad(v)) * vf.dx); return V

    def lap_hess(d):
        V = vf.VForm(d); u, v = V.basisfuns(); V.add(vf.tr(vf.hess(u)) * vf.tr(vf.hess(v)) * vf.dx); return V

    def convdiff(d):
        V = vf.VForm(d); u, v = V.basisfuns(); b = V.input('b', shape=(d,)); c = V.parameter('c')
        V.add((c * vf.inner(vf.grad(u), vf.grad(v)) + vf.inner(b, vf.grad(u)) * v) * vf.dx); return V

    def gradf(d):
        V = vf.VForm(d, arity=1); v = V.basisfuns(); f = V.input('f')
        V.add(vf.inner(vf.grad(f), vf.grad(v)) * vf.dx); return V

    def sincos(d):
        V = vf.VForm(d); u, v = V.basisfuns(); f = V.input('f')
        V.add((vf.sin(f * f * f) + vf.cos(f * f * f)) * u * v * vf.dx); return V

    def vector_laplace(d):
        V = vf.VForm(d); u, v = V.basisfuns(components=(d, d))
        V.add(vf.inner(vf.grad(u), vf.grad(v)) * vf.dx); return V

    def nonsquare(d):
        V = vf.VForm(d); u, v = V.basisfuns(components=(d, None) if False else (d, 1))
        V.add(vf.div(u) * v * vf.dx); return V

    def stokes_like(d):
        V = vf.VForm(d); u, p = V.basisfuns(components=(d, None), spaces=(0, 1))
        V.add(vf.div(u) * p * vf.dx); return V

    def surface_mass():
        V = vf.VForm(2, geo_dim=3); u, v = V.basisfuns(); V.add(u * v * vf.ds); return V

    def curve_functional():
        V = vf.VForm(1, geo_dim=2, arity=1); v = V.basisfuns(); g = V.input('g')
        V.add(g * v * vf.ds); return V

    def boundary_flux(d):
        V = vf.VForm(d, boundary=True, arity=1); v = V.basisfuns(); g = V.input('g', shape=(d,))
        V.add(vf.inner(g, V.normal) * v * vf.ds); return V

    def boundary_mass(d):
        V = vf.VForm(d, boundary=True); u, v = V.basisfuns(); V.add(u * v * vf.ds); return V

    def matrix_coeff(d):
        V = vf.VForm(d); u, v = V.basisfuns(); A = V.input('A', shape=(d, d))
        V.add(vf.inner(vf.dot(A, vf.grad(u)), vf.grad(v)) * vf.dx); return V

    def param_vec(d):
        V = vf.VForm(d); u, v = V.basisfuns(); a = V.parameter('a', shape=(d,))
        V.add(vf.inner(a, vf.grad(u)) * v * vf.dx); return V

    def curlcurl():
        V = vf.VForm(3); u, v = V.basisfuns(components=(3, 3))
        V.add(vf.inner(vf.curl(u), vf.curl(v)) * vf.dx); return V

    def phys_field_grad(d):
        V = vf.VForm(d, arity=1); v = V.basisfuns(); f = V.input('f', physical=True)
        V.add(f * f * v * vf.dx); return V

    def geo_dependent(d):
        V = vf.VForm(d); u, v = V.basisfuns()
        V.add(vf.exp(-vf.inner(V.Geo, V.Geo)) * u * v * vf.dx); return V

    def para_deriv(d):
        V = vf.VForm(d); u, v = V.basisfuns()
        V.add(u.dx(0, parametric=True) * v.dx(d - 1, parametric=True) * V.GaussWeight); return V

    def quotient(d):
        V = vf.VForm(d); u, v = V.basisfuns(); f = V.input('f'); g = V.input('g')
        V.add(vf.inner(vf.grad(f / (1 + g * g)), vf.grad(u)) * v * vf.dx); return V

    def mixed_second(d):
        V = vf.VForm(d); u, v = V.basisfuns()
        V.add(vf.hess(u)[0, d - 1] * v * vf.dx); return V

    def hess_field(d):
        V = vf.VForm(d, arity=1); v = V.basisfuns(); f = V.input('f')
        V.add(vf.tr(vf.hess(f)) * v * vf.dx); return V

    def folds(d):
        # every branch of ScalarOperExpr.fold_constants
        V = vf.VForm(d); u, v = V.basisfuns(); f = V.input('f'); g = V.input('g')
        z = vf.as_expr(0); one = vf.as_expr(1); m1 = vf.as_expr(-1)
        e = ((u - z) * (one * v) + (z - u) * (v * one) + (z + f) * (g + z) * u * v + (u / one) * (v / m1) + (m1 * u) * (v * m1)
             + (z / f) * u * v + (f + (-g)) * u * v + (f - (-g)) * u * v + (z * f) * u * v + (f * z) * u * v
             + (vf.as_expr(2) * vf.as_expr(3) - vf.as_expr(0.5)) * u * v)
        V.add(e * vf.dx); return V

    def operand_order(d, op):
        # both operand orders of a non-commutative (and, for reference, a commutative) operator in ONE form, on subexpressions that are
        # complex enough to be extracted as common subexpressions: the two occurrences must stay distinct
        V = vf.VForm(d); u, v = V.basisfuns(); f = V.input('f'); g = V.input('g')
        X = f * f + 1; Y = g * g + 2
        e = {'-': (X - Y, Y - X), '/': (X / Y, Y / X), '+': (X + Y, Y + X), '*': (X * Y, Y * X)}[op]
        V.add((e[0] * u * v + e[1] * u.dx(0) * v) * vf.dx); return V

    def operand_order_functional(d, op):
        V = vf.VForm(d, arity=1); v = V.basisfuns(); f = V.input('f'); g = V.input('g')
        X = vf.sin(f) * f; Y = g * g * g
        e = {'-': (X - Y, Y - X), '/': (X / (Y * Y + 1), (Y * Y + 1) / X)}[op]
        V.add((e[0] * v + e[1] * v.dx(d - 1)) * vf.dx); return V

    def near_constants(d, which):
        # subexpressions that differ only in a constant beyond the 6th significant digit must stay distinct (complex enough to be CSE candidates)
        V = vf.VForm(d, arity=1); v = V.basisfuns(); f = V.input('f'); g = V.input('g')
        a, b = {'big': (1234567.0, 1234568.0), 'third': (1.0 / 3.0, 0.3333333), 'unit': (1.0, 1.000004), 'tiny': (8.854e-12, 0.0)}[which]
        V.add((vf.as_expr(a) * f * g * g - vf.as_expr(b) * f * g * g + vf.sin(f)) * v * vf.dx); return V

    def const_scope_let(d, kind):
        # a variable that depends on parameters only (constant scope) feeding a field-scope variable / the kernel
        V = vf.VForm(d); u, v = V.basisfuns(); f = V.input('f'); a = V.parameter('a', shape=(2,)); b = V.parameter('b')
        c = V.let('c', vf.inner(a, a) * b)
        if kind == 'field':
            K = V.let('K', c * f + 1); V.add(K * vf.inner(vf.grad(u), vf.grad(v)) * vf.dx)
        elif kind == 'kernel':
            V.add(c * u * v * vf.dx)
        else:
            c2 = V.let('c2', c * c + b); K = V.let('K', c2 * f); V.add((K + c) * u * v * vf.dx)
        return V

    for d in (1, 2):
        for which in ('big', 'third', 'unit', 'tiny'):
            add('near_constants(%d,%s)' % (d, which), lambda d=d, which=which: near_constants(d, which))
        for kind in ('field', 'kernel', 'chain'):
            add('const_scope_let(%d,%s)' % (d, kind), lambda d=d, kind=kind: const_scope_let(d, kind))

    def updatable_value_and_gradient(d, kind):
        # an updatable input field used by value AND by gradient (Newton linearisation of a quasilinear problem)
        V = vf.VForm(d); u, v = V.basisfuns(); w = V.input('w', updatable=True)
        if kind == 'both':
            V.add(((1 + w * w) * vf.inner(vf.grad(u), vf.grad(v)) + 2 * w * u * vf.inner(vf.grad(w), vf.grad(v))) * vf.dx)
        elif kind == 'value':
            V.add((1 + w * w) * u * v * vf.dx)
        else:
            g = V.input('g'); V.add((vf.inner(vf.grad(w), vf.grad(v)) * u + g * w * u * v) * vf.dx)
        return V

    for d in (1, 2):
        for kind in ('both', 'value', 'grad+other'):
            add('updatable_value_and_gradient(%d,%s)' % (d, kind), lambda d=d, kind=kind: updatable_value_and_gradient(d, kind))

    def let_higher_derivative(d, kind):
        # a let-variable differentiated twice in ONE call (times=2), next to the variable itself and its first derivative
        V = vf.VForm(d, arity=1); v = V.basisfuns(); f = V.input('f'); g = V.input('g')
        w = V.let('w', f - g * g)
        if kind == 'dx2': e = w.dx(0, times=2) + w
        elif kind == 'Dx2': e = vf.Dx(w, d - 1, 2) - w.dx(0)
        else: e = w.dx(0).dx(d - 1) + w.dx(0, times=2)
        V.add(e * v * vf.dx); return V

    def nonsquare_matmul(d, kind):
        # matrix products with a non-square left factor (fewer rows than columns, and more)
        V = vf.VForm(d); u, v = V.basisfuns()
        A = V.input('A', shape=(2, 3)); B = V.input('B', shape=(3, 2))
        M = vf.dot(A, B) if kind == 'wide' else vf.dot(B, A)
        V.add((M[0, 0] + M[1, 0] * M[1, 1] + (M[2, 1] if kind != 'wide' else 0)) * u * v * vf.dx); return V

    for d in (1, 2):
        for kind in ('dx2', 'Dx2', 'mixed'):
            add('let_higher_derivative(%d,%s)' % (d, kind), lambda d=d, kind=kind: let_higher_derivative(d, kind))
        for kind in ('wide', 'tall'):
            add('nonsquare_matmul(%d,%s)' % (d, kind), lambda d=d, kind=kind: nonsquare_matmul(d, kind))

    def two_space(d, kind):
        # Petrov-Galerkin: trial functions from space 0, test functions from space 1 (different knot vectors / degrees on a common mesh)
        if kind == 'mass':
            V = vf.VForm(d); u, v = V.basisfuns(spaces=(0, 1)); V.add(u * v * vf.dx)
        elif kind == 'laplace':
            V = vf.VForm(d); u, v = V.basisfuns(spaces=(0, 1)); V.add(vf.inner(vf.grad(u), vf.grad(v)) * vf.dx)
        elif kind == 'convection':
            V = vf.VForm(d); u, v = V.basisfuns(spaces=(0, 1)); b = V.input('b', shape=(d,)); V.add(vf.inner(b, vf.grad(u)) * v * vf.dx)
        elif kind == 'div':
            V = vf.VForm(d); u, v = V.basisfuns(components=(d, 1), spaces=(0, 1)); V.add(vf.div(u) * v * vf.dx)
        return V

    for d in (1, 2, 3):
        for kind in ('mass', 'laplace', 'convection') + (('div',) if d > 1 else ()):
            add('two_space(%d,%s)' % (d, kind), lambda d=d, kind=kind: two_space(d, kind))
    for d in (1, 2):
        add('folds(%d)' % d, lambda d=d: folds(d))
        for op in ('-', '/', '+', '*'):
            add('operand_order(%d,%s)' % (d, op), lambda d=d, op=op: operand_order(d, op))
        for op in ('-', '/'):
            add('operand_order_functional(%d,%s)' % (d, op), lambda d=d, op=op: operand_order_functional(d, op))
    for d in (1, 2, 3):
        add('laplace(%d)' % d, lambda d=d: laplace(d))
        add('convdiff(%d)' % d, lambda d=d: convdiff(d))
        add('gradf(%d)' % d, lambda d=d: gradf(d))
        add('sincos(%d)' % d, lambda d=d: sincos(d))
        add('matrix_coeff(%d)' % d, lambda d=d: matrix_coeff(d))
        add('param_vec(%d)' % d, lambda d=d: param_vec(d))
        add('phys_field(%d)' % d, lambda d=d: phys_field_grad(d))
        add('geo_dependent(%d)' % d, lambda d=d: geo_dependent(d))
        add('para_deriv(%d)' % d, lambda d=d: para_deriv(d))
        add('quotient(%d)' % d, lambda d=d: quotient(d))
    for d in (1, 2):
        add('lap_hess(%d)' % d, lambda d=d: lap_hess(d))
        add('hess_field(%d)' % d, lambda d=d: hess_field(d))
    add('mixed_second(2)', lambda: mixed_second(2))
    add('mixed_second(3)', lambda: mixed_second(3))
    for d in (2, 3):
        add('vector_laplace(%d)' % d, lambda d=d: vector_laplace(d))
        add('nonsquare(%d)' % d, lambda d=d: nonsquare(d))
        add('stokes_like(%d)' % d, lambda d=d: stokes_like(d))
        add('boundary_flux(%d)' % d, lambda d=d: boundary_flux(d))
        add('boundary_mass(%d)' % d, lambda d=d: boundary_mass(d))
    add('surface_mass', surface_mass)
    add('curve_functional', curve_functional)
    add('curlcurl', curlcurl)
    return progs


# ------------------------------------------------------------------------------------------
def make_diff_case(vf, seed):
    """random differentiable scalar expression (for the differentiation-rule obligation).
    -> dict(V, e, k, parametric, desc)"""
    rng = random.Random(seed * 7919 + 13)
    d = rng.choice([1, 2, 2, 3])
    parametric = rng.random() < 0.5
    V = vf.VForm(d)
    u, v = V.basisfuns()
    f = V.input('f'); b = V.input('b', shape=(d,)); c = V.parameter('c')
    leaves = [lambda: u, lambda: v, lambda: f, lambda: b[rng.randrange(d)], lambda: c,
              lambda: vf.as_expr(rng.choice([2, 0.5, -1, 3, 1, 0]))]
    # first-derivative leaves of the matching kind (so that second derivatives are exercised step by step)
    for x in (u, v, f):
        for m in range(d):
            leaves.append(lambda x=x, m=m: vf.Dx(x, m, parametric=parametric))
    B = V.let('B', f * u + c)           # expression variable
    leaves.append(lambda: B)

    def tree(depth):
        if depth <= 0: return rng.choice(leaves)()
        op = rng.choice(['+', '-', '*', '*', '/', 'neg', 'leaf'])
        if op == 'leaf': return rng.choice(leaves)()
        if op == 'neg': return -tree(depth - 1)
        a, b2 = tree(depth - 1), tree(depth - 1)
        if op == '+': return a + b2
        if op == '-': return a - b2
        if op == '*': return a * b2
        return a / (b2 * b2 + 1)
    e = tree(rng.choice([1, 2, 2, 3]))
    k = rng.randrange(d)
    return {'V': V, 'e': e, 'k': k, 'parametric': parametric, 'desc': 'd=%d k=%d parametric=%s e=%s' % (d, k, parametric, str(e)[:160])}


def make_form(vf, spec):
    """build the form named by a program spec: ['corpus', name] or ['rand', seed, depth] -> {'V':, 'orig':, 'desc':}"""
    if spec[0] == 'corpus':
        for name, make in corpus(vf):
            if name == spec[1]:
                return {'V': make(), 'orig': None, 'desc': name}
        raise KeyError(spec[1])
    if spec[0] == 'rand':
        return make_random_form(vf, spec[1], depth=spec[2])
    raise ValueError(spec)
