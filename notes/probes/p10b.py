import sys, p10_asm as P, p4_vform as sem
name = sys.argv[1]
forms = {'mass2': (sem.f_mass(2), 1), 'lap2': (sem.f_lap(2), 1), 'conv2': (sem.f_convdiff(2), 1), 'stiff2': (sem.f_stiff_pre(2), 1), 'hess2': (sem.f_hess(2), 2), 'lap3': (sem.f_lap(3), 1), 'mass3': (sem.f_mass(3), 1), 'lap1': (sem.f_lap(1), 1)}
mk, p = forms[name]
P.run(mk, name, p=p)
