import z3, time, sys
def run(n):
    A = [[None]*n for _ in range(n)]
    for i in range(n):
        for j in range(i, n):
            A[i][j] = A[j][i] = z3.Real('a%d%d' % (i, j))
    e = [z3.Real('e%d' % i) for i in range(n)]
    # forward GS on error equation A e = 0 (b = A x*, error iteration): e_i <- -(sum_{j != i} a_ij e_j)/a_ii
    en = list(e)
    for i in range(n):
        en[i] = -sum(A[i][j]*en[j] for j in range(n) if j != i) / A[i][i]
    def energy(v): return sum(A[i][j]*v[i]*v[j] for i in range(n) for j in range(n))
    s = z3.Solver(); s.set('timeout', 300000)
    # SPD via leading principal minors
    if n >= 1: s.add(A[0][0] > 0)
    if n >= 2: s.add(A[0][0]*A[1][1] - A[0][1]**2 > 0)
    if n >= 3:
        det = (A[0][0]*(A[1][1]*A[2][2]-A[1][2]*A[2][1]) - A[0][1]*(A[1][0]*A[2][2]-A[1][2]*A[2][0]) + A[0][2]*(A[1][0]*A[2][1]-A[1][1]*A[2][0]))
        s.add(det > 0)
    s.add(energy(en) > energy(e))
    t0 = time.time(); r = s.check(); print('n=%d' % n, r, '%.1fs' % (time.time()-t0))
run(2); run(3)
