import z3, time
t, c, s = z3.Reals('t c s')
def cheb(k):
    # (cos k*th, sin k*th) via angle addition
    C, S = z3.RealVal(1), z3.RealVal(0)
    for _ in range(k): C, S = C*c - S*s, S*c + C*s
    return C, S
def check(name, x, y, w, extra=[]):
    sol = z3.Solver(); sol.set('timeout', 120000)
    sol.add(c*c + s*s == 1, *extra); sol.add(x*x + y*y != w*w)
    t0 = time.time(); r = sol.check(); print(name, r, '%.2fs' % (time.time()-t0))
B = [(1-t)**2, 2*t*(1-t), t**2]
pts = [cheb(k) for k in range(3)]; W = [1, c, 1]
x = sum(B[k]*pts[k][0] for k in range(3)); y = sum(B[k]*pts[k][1] for k in range(3)); w = sum(B[k]*W[k] for k in range(3))
check('3pt', x, y, w)
# 7pt: 3 spans, each span is a 3pt arc between angles 2m*th..2(m+1)*th with theta = alpha/6, local Bernstein basis
for m in range(3):
    pts = [cheb(2*m + k) for k in range(3)]
    x = sum(B[k]*pts[k][0] for k in range(3)); y = sum(B[k]*pts[k][1] for k in range(3)); w = sum(B[k]*W[k] for k in range(3))
    check('7pt span %d' % m, x, y, w)
# mutation: wrong middle weight
W2 = [1, s, 1]; pts = [cheb(k) for k in range(3)]
x = sum(B[k]*pts[k][0] for k in range(3)); y = sum(B[k]*pts[k][1] for k in range(3)); w = sum(B[k]*W2[k] for k in range(3))
check('3pt MUT', x, y, w)
