"""Prototype: forking symbolic executor with z3 Real/Int proxies (probe only)."""
import z3, itertools, time

class PathAbort(BaseException):
    pass

class Ctx:
    def __init__(self):
        self.decisions = []   # replayed prefix
        self.pos = 0
        self.pc = []          # path condition (z3 bools)
        self.solver = z3.Solver()
        self.nq = 0
    def feasible(self, extra):
        self.nq += 1
        self.solver.push()
        self.solver.add(*self.pc, extra)
        r = self.solver.check()
        self.solver.pop()
        return r == z3.sat
    def branch(self, cond):
        """decide a symbolic bool; returns python bool"""
        cond = z3.simplify(cond)
        if z3.is_true(cond): return True
        if z3.is_false(cond): return False
        if self.pos < len(self.decisions):
            d = self.decisions[self.pos]
        else:
            t = self.feasible(cond)
            f = self.feasible(z3.Not(cond))
            if t and f:
                d = True
                self.decisions.append(('T', True))   # T: has alternative
                self.pos += 1
                self.pc.append(cond)
                return True
            elif t:
                self.decisions.append(('F', True)); self.pos += 1; self.pc.append(cond); return True
            elif f:
                self.decisions.append(('F', False)); self.pos += 1; self.pc.append(z3.Not(cond)); return False
            else:
                raise PathAbort()
        self.pos += 1
        v = d[1]
        self.pc.append(cond if v else z3.Not(cond))
        return v

CTX = None

def lift(x):
    import numpy as _np
    if isinstance(x, Sym): return x.t
    if isinstance(x, _np.bool_): x = bool(x)
    if isinstance(x, _np.integer): x = int(x)
    if isinstance(x, _np.floating): x = float(x)
    if isinstance(x, bool): return z3.BoolVal(x)
    if isinstance(x, int): return z3.IntVal(x)
    if isinstance(x, float):
        from fractions import Fraction
        f = Fraction(x)
        return z3.RealVal(f)
    raise TypeError(type(x))

class Sym:
    __slots__ = ('t',)
    __array_priority__ = 1000
    def __init__(self, t): self.t = t
    def _bin(self, o, f, r=False):
        import numpy as _np
        if isinstance(o, _np.ndarray):
            res = _np.empty(o.shape, dtype=object)
            for idx in _np.ndindex(*o.shape): res[idx] = self._bin(o[idx], f, r)
            return res
        a, b = self.t, lift(o)
        if r: a, b = b, a
        if z3.is_int(a) and z3.is_real(b): a = z3.ToReal(a)
        if z3.is_real(a) and z3.is_int(b): b = z3.ToReal(b)
        return Sym(f(a, b))
    def __add__(s, o): return s._bin(o, lambda a,b: a+b)
    def __radd__(s, o): return s._bin(o, lambda a,b: a+b, True)
    def __sub__(s, o): return s._bin(o, lambda a,b: a-b)
    def __rsub__(s, o): return s._bin(o, lambda a,b: a-b, True)
    def __mul__(s, o): return s._bin(o, lambda a,b: a*b)
    def __rmul__(s, o): return s._bin(o, lambda a,b: a*b, True)
    def __truediv__(s, o): return s._bin(o, lambda a,b: (z3.ToReal(a) if z3.is_int(a) else a)/(z3.ToReal(b) if z3.is_int(b) else b))
    def __rtruediv__(s, o): return s._bin(o, lambda a,b: (z3.ToReal(a) if z3.is_int(a) else a)/(z3.ToReal(b) if z3.is_int(b) else b), True)
    def __neg__(s): return Sym(-s.t)
    def __lt__(s, o): return SymB(s._bin(o, lambda a,b: a<b).t)
    def __le__(s, o): return SymB(s._bin(o, lambda a,b: a<=b).t)
    def __gt__(s, o): return SymB(s._bin(o, lambda a,b: a>b).t)
    def __ge__(s, o): return SymB(s._bin(o, lambda a,b: a>=b).t)
    def __eq__(s, o): return SymB(s._bin(o, lambda a,b: a==b).t)
    def __ne__(s, o): return SymB(s._bin(o, lambda a,b: a!=b).t)
    def __hash__(s): return hash(s.t)
    def __index__(s):
        # concretise int by forking over values
        v = 0
        while True:
            if CTX.branch(s.t == v): return v
            v += 1
            if v > 64: raise PathAbort()
    def __repr__(s): return 'Sym(%s)' % s.t

class SymB(Sym):
    def __bool__(s): return CTX.branch(s.t)

def explore(fn, check, max_paths=10000):
    """fn() builds symbolic inputs and runs code, returns result; check(result)->z3 bool property.
    Returns list of counterexample models."""
    global CTX
    decisions = []
    npaths = 0; cex = []; nq = 0
    t0 = time.time()
    while True:
        CTX = Ctx(); CTX.decisions = list(decisions)
        try:
            res = fn()
            prop = check(res)
            s = z3.Solver(); s.add(*CTX.pc); s.add(z3.Not(prop))
            r = s.check(); nq += 1
            if r == z3.sat:
                cex.append(s.model())
            elif r != z3.unsat:
                cex.append('unknown')
        except PathAbort:
            pass
        npaths += 1
        nq += CTX.nq
        decisions = CTX.decisions
        # backtrack: flip last 'T'
        while decisions and not (decisions[-1][0] == 'T' and decisions[-1][1] is True):
            decisions.pop()
        if not decisions: break
        decisions[-1] = ('T', False)
        # mark as no alternative now
        decisions[-1] = ('X', False)
        if npaths >= max_paths: break
    return dict(paths=npaths, queries=nq, cex=cex, t=time.time()-t0)
