"""Probe: real HDiscretization.assemble_matrix with symbolic level matrices (finest-level entries are z3 reals,
coarser levels derived by Galerkin projection), compared with I^T A_fine I."""
import numpy as np, scipy.sparse, z3, ast, time, sys, itertools
import symx
from symx import Sym
from pyiga import bspline, hierarchical, utils, mlmatrix, vform

TOL = z3.RealVal('1/1000000000')
def is_zero(x):
    return (not isinstance(x, Sym)) and x == 0

class SpMat:
    __array_ufunc__ = None
    __array_priority__ = 10000
    def __init__(self, a):
        self.a = np.asarray(a, dtype=object)
        self.shape = self.a.shape
    @staticmethod
    def lift(x):
        if isinstance(x, SpMat): return x.a
        if scipy.sparse.issparse(x): return np.asarray(x.toarray(), dtype=object)
        return np.asarray(x, dtype=object)
    def __getitem__(self, idx):
        r = self.a[idx]
        return SpMat(r) if isinstance(r, np.ndarray) and r.ndim == 2 else r
    @property
    def T(self): return SpMat(self.a.T)
    def __matmul__(self, o): return SpMat(self.a.dot(SpMat.lift(o)))
    def __rmatmul__(self, o): return SpMat(SpMat.lift(o).dot(self.a))
    dot = __matmul__
    def tocsr(self): return self
    def asformat(self, fmt): return self
    def nonzero(self):
        I, J = [], []
        for i in range(self.shape[0]):
            for j in range(self.shape[1]):
                if not is_zero(self.a[i, j]): I.append(i); J.append(j)
        return np.array(I, dtype=int), np.array(J, dtype=int)
    @property
    def data(self):
        I, J = self.nonzero()
        out = np.empty(len(I), dtype=object)
        for k, (i, j) in enumerate(zip(I, J)): out[k] = self.a[i, j]
        return out

class sparse_shim:
    """scipy.sparse as seen by _hdiscr.py"""
    def __getattr__(self, k): return getattr(scipy.sparse, k)
    def csr_matrix(self, arg, shape=None):
        if isinstance(arg, tuple) and len(arg) == 2 and isinstance(arg[1], tuple) and np.asarray(arg[0]).dtype == object:
            vals, (I, J) = arg
            out = np.empty(shape, dtype=object); out[...] = 0
            for v, i, j in zip(vals, I, J): out[i, j] = out[i, j] + v
            return SpMat(out)
        return scipy.sparse.csr_matrix(arg, shape=shape)
class scipy_shim:
    sparse = sparse_shim()

# symbolic build of _hdiscr.HDiscretization
src = open('/repo/pyiga/_hdiscr.py').read()
if 'MUT' in sys.argv: src = src.replace('insert_block(A_hb_interlevel2, new[k], neighbors[k])', 'pass')
if 'MUT2' in sys.argv: src = src.replace('for lv in range(max(0, k - hs.disparity), k):', 'for lv in range(max(0, k - 1), k):')
tree = ast.parse(src)
keep = [n for n in tree.body if isinstance(n, (ast.ClassDef, ast.FunctionDef))]
ns = {'np': np, 'scipy': scipy_shim, 'mlmatrix': mlmatrix}
exec(compile(ast.Module(body=keep, type_ignores=[]), '_hdiscr_sym', 'exec'), ns)
HD = ns['HDiscretization']

def level_matrices(hs, symmetric):
    """finest-level symbolic matrix on the TP sparsity pattern; coarser ones by Galerkin projection"""
    L = hs.numlevels
    kvs = hs.knotvectors(L - 1)
    S = mlmatrix.MLStructure.from_kvs(kvs, kvs)
    I, J = S.nonzero()
    n = S.shape[0]
    A = np.empty((n, n), dtype=object); A[...] = 0
    for i, j in zip(I, J):
        if symmetric and j > i: continue
        A[i, j] = Sym(z3.Real('a_%d_%d' % (i, j)))
        if symmetric: A[j, i] = A[i, j]
    As = [None] * L; As[L - 1] = A
    for k in reversed(range(L - 1)):
        P = np.asarray(utils.multi_kron_sparse(hs.hmesh.P[k]).toarray(), dtype=object)
        As[k] = P.T.dot(As[k + 1]).dot(P)
    return As

def run(hs, symmetric=False, name=''):
    t0 = time.time()
    As = level_matrices(hs, symmetric)
    class HDsym(HD):
        def _assemble_level(self, k, rows=None, bbox=None, symmetric=False):
            n = As[k].shape[0]
            out = np.empty((n, n), dtype=object); out[...] = 0
            if rows is None: rows = range(n)
            # only structural nonzeros of level k, only requested rows (contract of _assemble_partial_rows)
            kvs = self.hs.knotvectors(k)
            S = mlmatrix.MLStructure.from_kvs(kvs, kvs)
            if len(rows):
                I, J = S.nonzeros_for_rows(np.asarray(rows))
                for i, j in zip(I, J): out[i, j] = As[k][i, j]
            return SpMat(out)
    hd = HDsym(hs, None, {})
    hd.truncate = hs.truncate
    A_h = hd.assemble_matrix(symmetric=symmetric)
    A_h = SpMat.lift(A_h)
    Ifine = hs.represent_fine()                     # real code, numeric
    Iobj = np.asarray(Ifine.toarray(), dtype=object)
    ref = Iobj.T.dot(As[-1]).dot(Iobj)
    t_run = time.time() - t0
    s = z3.Solver(); s.set('timeout', 120000)
    diffs = []
    for idx in np.ndindex(*ref.shape):
        a, b = A_h[idx], ref[idx]
        if is_zero(a) and is_zero(b): continue
        d = symx.lift(a) - symx.lift(b)
        diffs.append(z3.Or(d > TOL, d < -TOL))
    for row in As[-1]:
        for x in row:
            if isinstance(x, Sym): s.add(x.t >= -1, x.t <= 1)
    s.add(z3.Or(*diffs))
    t1 = time.time(); r = s.check()
    print('%-34s ndofs=%d levels=%d entries compared=%d  %s  run=%.1fs solve=%.2fs' % (name, hs.numdofs, hs.numlevels, len(diffs), r, t_run, time.time() - t1))
    if r == z3.sat:
        m = s.model()
        bad = [idx for idx in np.ndindex(*ref.shape) if not (is_zero(A_h[idx]) and is_zero(ref[idx])) and z3.is_true(m.eval(z3.Or(symx.lift(A_h[idx]) - symx.lift(ref[idx]) > TOL, symx.lift(A_h[idx]) - symx.lift(ref[idx]) < -TOL), model_completion=True))]
        print('   differing entries:', bad[:8])

def hs1d(p, n, marks, truncate, disparity=np.inf):
    hs = hierarchical.HSpace((bspline.make_knots(p, 0.0, 1.0, n),), truncate=truncate, disparity=disparity, bdspecs=[])
    for m in marks: hs.refine(m)
    return hs
def hs2d(p, n, marks, truncate, disparity=np.inf):
    hs = hierarchical.HSpace((bspline.make_knots(p, 0.0, 1.0, n),)*2, truncate=truncate, disparity=disparity, bdspecs=[])
    for m in marks: hs.refine(m)
    return hs

if __name__ == '__main__':
    for tr in (False, True):
        run(hs1d(2, 4, [{0: {(0,), (1,)}}], tr), name='1D p2 1 refine trunc=%s' % tr)
        run(hs1d(2, 4, [{0: {(0,), (1,)}}, {1: {(0,), (1,)}}], tr), name='1D p2 3 levels trunc=%s' % tr)
        run(hs1d(2, 4, [{0: {(0,), (1,)}}, {1: {(0,), (1,)}}], tr), symmetric=True, name='1D p2 3 levels sym trunc=%s' % tr)
        run(hs2d(2, 2, [{0: {(0, 0)}}], tr), name='2D p2 corner trunc=%s' % tr)
        run(hs2d(1, 2, [{0: {(0, 0)}}, {1: {(0, 0), (1, 1)}}], tr), name='2D p1 3 levels trunc=%s' % tr)
