import z3, time
def run(n, i):
    A = [[None]*n for _ in range(n)]
    for r in range(n):
        for c in range(r, n):
            A[r][c] = A[c][r] = z3.Real('a%d%d' % (r, c))
    e = [z3.Real('e%d' % k) for k in range(n)]
    en = list(e); en[i] = -sum(A[i][j]*e[j] for j in range(n) if j != i) / A[i][i]
    def energy(v): return sum(A[r][c]*v[r]*v[c] for r in range(n) for c in range(n))
    s = z3.Solver(); s.set('timeout', 120000); s.add(A[i][i] > 0); s.add(energy(en) > energy(e))
    t0 = time.time(); r = s.check(); print(n, i, r, '%.2fs' % (time.time()-t0))
for n in (3, 4, 5):
    run(n, 1)
