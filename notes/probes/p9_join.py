import z3, time, itertools, sys
import symx
from symx import Sym, SymB, explore
from pyiga import assemble

P, n, K = int(sys.argv[1]), int(sys.argv[2]), int(sys.argv[3])   # patches, local dofs, max classes in pre-state

def ite_chain(key, table, default):
    r = default
    for k, v in table.items():
        r = z3.If(key == k, v, r)
    return r

class SymDict:
    def __init__(self, vals):   # vals: {k: z3 Int term}  (-1 == absent)
        self.vals = dict(vals)
    def __contains__(self, key):
        k = symx.lift(key)
        return bool(SymB(ite_chain(k, {kk: v >= 0 for kk, v in self.vals.items()}, z3.BoolVal(False))))
    def __getitem__(self, key):
        k = symx.lift(key)
        return Sym(ite_chain(k, self.vals, z3.IntVal(-1)))
    def __setitem__(self, key, val):
        k = symx.lift(key); v = symx.lift(val)
        for kk in self.vals:
            self.vals[kk] = z3.If(k == kk, v, self.vals[kk])
    def __len__(self):
        raise NotImplementedError

class SetView:
    def __init__(self, owner, sd): self.owner, self.sd = owner, sd
    def add(self, item):
        p, i = item
        i = symx.lift(i); sd = symx.lift(self.sd)
        mem = self.owner.mem
        for s in range(self.owner.cap):
            for ii in range(n):
                mem[s][p][ii] = z3.Or(mem[s][p][ii], z3.And(sd == s, i == ii))

class SymSetList:
    def __init__(self, length, mem, cap):
        self.length = length   # Sym int
        self.mem = mem         # mem[s][p][i] z3 Bool
        self.cap = cap
    def __len__(self):
        # concretise by forking
        for v in range(self.cap + 1):
            if symx.CTX.branch(self.length == v):
                self.length = z3.IntVal(v)
                return v
        raise symx.PathAbort()
    def append(self, s):
        assert isinstance(s, set) and not s
        v = z3.simplify(self.length).as_long()
        assert v < self.cap, 'capacity'
        self.length = z3.IntVal(v + 1)
    def __getitem__(self, sd):
        return SetView(self, sd)

def same(spp, x, y):
    (p, i), (q, j) = x, y
    if x == y: return z3.BoolVal(True)
    return z3.And(spp[p][i] >= 0, spp[p][i] == spp[q][j])

def run(p1, p2):
    dofs = [(p, i) for p in range(P) for i in range(n)]
    cap = K + 1
    spp0 = [[z3.Int('spp_%d_%d' % (p, i)) for i in range(n)] for p in range(P)]
    L0 = z3.Int('len0')
    i1 = z3.Int('i1'); i2 = z3.Int('i2')
    # invariant on pre-state
    inv = [L0 >= 0, L0 <= K, i1 >= 0, i1 < n, i2 >= 0, i2 < n]
    for (p, i) in dofs: inv += [spp0[p][i] >= -1, spp0[p][i] < L0]
    # a class never contains two dofs of the same patch?  (not required) ; no empty / singleton class:
    for s in range(K):
        members = [z3.If(spp0[p][i] == s, 1, 0) for (p, i) in dofs]
        inv.append(z3.Implies(s < L0, z3.Sum(members) >= 2))
    def fn():
        symx.CTX.pc.extend(inv)
        mp = assemble.Multipatch.__new__(assemble.Multipatch)
        mp.shared_per_patch = [SymDict({i: spp0[p][i] for i in range(n)}) for p in range(P)]
        mem = [[[ (spp0[p][i] == s) for i in range(n)] for p in range(P)] for s in range(cap)]
        mp.shared_dofs = SymSetList(L0, mem, cap)
        mp.join_dofs(p1, [Sym(i1)], p2, [Sym(i2)])
        return mp
    def check(mp):
        spp1 = [[mp.shared_per_patch[p].vals[i] for i in range(n)] for p in range(P)]
        props = []
        # closure property, x1=(p1,i1), x2=(p2,i2) symbolic -> expand over concrete candidates
        for a in range(n):
            for b in range(n):
                guard = z3.And(i1 == a, i2 == b)
                x1, x2 = (p1, a), (p2, b)
                for y, z in itertools.combinations(dofs, 2):
                    want = z3.Or(same(spp0, y, z), z3.And(same(spp0, y, x1), same(spp0, z, x2)), z3.And(same(spp0, y, x2), same(spp0, z, x1)))
                    props.append(z3.Implies(guard, same(spp1, y, z) == want))
        return z3.And(*props)
    return explore(fn, check)

tot = dict(paths=0, queries=0, cex=0, t=0)
first = None
for p1, p2 in itertools.permutations(range(P), 2):
    r = run(p1, p2)
    tot['paths'] += r['paths']; tot['queries'] += r['queries']; tot['cex'] += len(r['cex']); tot['t'] += r['t']
    if r['cex'] and first is None: first = (p1, p2, r['cex'][0])
print(tot)
if first:
    p1, p2, m = first
    print('join', p1, p2, {str(d): m[d] for d in m.decls()})
