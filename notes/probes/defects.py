import numpy as np, scipy.sparse, traceback
from pyiga import bspline, geometry, assemble, mlmatrix, solvers, hierarchical, vform, compile as pc
np.random.seed(0)
print('--- C07 pointwise axes')
for sdim in (1,2,3):
    kvs = tuple(bspline.make_knots(2, 0.0, 1.0, 3+k) for k in range(sdim))
    C = np.random.rand(*[kv.numdofs for kv in kvs])
    f = bspline.BSplineFunc(kvs, C)
    pts = [np.random.rand(4) for _ in range(sdim)]
    try:
        a = f.pointwise_eval(pts)
        b = np.array([f(*[pts[d][i] for d in range(sdim)]) for i in range(4)])
        print(sdim, np.allclose(a, b))
    except Exception as e:
        print(sdim, 'EXC', type(e).__name__, e)
print('--- C10 unsorted')
A = scipy.sparse.csr_matrix(np.random.rand(5,5) + 5*np.eye(5)); b = np.random.rand(5)
L = assemble.RestrictedLinearSystem(A, b, (np.array([3,1]), np.array([10.0, 20.0])))
u = L.complete(scipy.sparse.linalg.spsolve(L.A, L.b)); print(u[[3,1]], 'expected [10,20]')
print('--- C14 join order')
kv = bspline.make_knots(1, 0.0, 1.0, 1)
def patch(x0, y0): return ((kv, kv), geometry.unit_square().translate((x0, y0)))
patches = [patch(0,0), patch(1,0), patch(0,1), patch(1,1)]
for order in ([(0,'right',1,'left'),(2,'right',3,'left'),(0,'top',2,'bottom'),(1,'top',3,'bottom')],
              [(0,'right',1,'left'),(0,'top',2,'bottom'),(1,'top',3,'bottom'),(2,'right',3,'left')]):
    MP = assemble.Multipatch(patches)
    for (p1,b1,p2,b2) in order: MP.join_boundaries(p1,b1,p2,b2)
    MP.finalize(); print(order[1][:2], 'numdofs', MP.numdofs, 'expected 9')
MP = assemble.Multipatch(patches, automatch=True); print('automatch numdofs', MP.numdofs)
print('--- C15 ml_nonzero_nd')
bidx = [np.array([[0,1],[1,0]], dtype=np.uint32), np.array([[0,0],[1,1]], dtype=np.uint32)]
bs = np.array([[2,2],[2,2]])
print(mlmatrix.ml_nonzero_nd(bidx, bs), '\n vs 2d\n', mlmatrix.ml_nonzero_2d(bidx, bs))
print('--- C12 dirk34')
A, _ = solvers.coeffs_dirk34(); print('sum b', A[4].sum(), 'row sums', A[:4].sum(axis=1))
for name in ['sdirk3','sdirk3_b','sdirk21','dirk34','esdirk23','esdirk34']:
    c = getattr(solvers, 'coeffs_'+name)(); A = c[0] if isinstance(c, tuple) else c
    s = A.shape[1]; print(name, 'sum b', A[s].sum(), 'sum bhat', A[s+1].sum() if A.shape[0] > s+1 else None)
for name in ['ros3p','ros3pw','rowdaind2','rodasp','rosi2p1']:
    A, G, b, bh, o = getattr(solvers, 'coeffs_'+name)(); print(name, 'sum b', b.sum(), 'sum bhat', bh.sum())
print('--- C11 twogrid u0 array')
try:
    A = scipy.sparse.csr_matrix(np.diag([2.,2,2])); P = scipy.sparse.csr_matrix(np.ones((3,1)))
    solvers.twogrid(A, np.ones(3), P, solvers.GaussSeidelSmoother(), u0=np.zeros(3))
except Exception as e: print('EXC', type(e).__name__, e)
print('--- C04 tuple marks finite disparity')
try:
    hs = hierarchical.HSpace((bspline.make_knots(2,0.,1.,4),)*2, disparity=1)
    hs.refine_region(0, lambda x,y: x<0.5 and y<0.5)
    hs.refine_region(1, lambda x,y: x<0.25 and y<0.25)
    hs.refine_region(2, lambda x,y: x<0.125 and y<0.125)
    print('ok', hs.numactive)
except Exception as e: print('EXC', type(e).__name__, e)
print('--- C03 default hspace assemble')
try:
    hs = hierarchical.HSpace((bspline.make_knots(2,0.,1.,4),)*2)
    hs.refine_region(0, lambda x,y: x<0.5 and y<0.5)
    M = assemble.assemble(vform.mass_vf(2), hs, geo=geometry.unit_square())
    print('ok', M.shape)
except Exception as e: print('EXC', type(e).__name__, e)
