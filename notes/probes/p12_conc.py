import z3, sys, time
from fractions import Fraction
import symx
from symx import Sym, explore
from p1_bspline import active_deriv, N
def dN(kv, i, p, u, last, k):
    if k == 0: return N(kv, i, p, u, last)
    d1 = kv[i+p] - kv[i]; d2 = kv[i+p+1] - kv[i+1]
    t1 = z3.If(d1 == 0, z3.RealVal(0), p / d1 * dN(kv, i, p-1, u, last, k-1)) if p > 0 else z3.RealVal(0)
    t2 = z3.If(d2 == 0, z3.RealVal(0), p / d2 * dN(kv, i+1, p-1, u, last, k-1)) if p > 0 else z3.RealVal(0)
    return t1 - t2
def run(p, breaks, mults, nder):
    kvq = [breaks[0]]*(p+1)
    for b, m in zip(breaks[1:-1], mults): kvq += [b]*m
    kvq += [breaks[-1]]*(p+1)
    kvz = [z3.RealVal(q) for q in kvq]
    u = z3.Real('u'); b = kvz[-1]
    pre = [u >= kvz[0], u <= b]
    def fn():
        symx.CTX.pc.extend(pre)
        return active_deriv([Sym(t) for t in kvz], p, Sym(u), nder)
    def check(out):
        span, res = out; first = span - p; props = []
        for k in range(nder+1):
            for j in range(p+1):
                v = res[k][j]; v = v.t if isinstance(v, Sym) else z3.RealVal(v)
                props.append(v == dN(kvz, first+j, p, u, b, k))
        return z3.And(*props)
    r = explore(fn, check)
    print('p=%d spans=%d mults=%s nder=%d paths=%d queries=%d cex=%d t=%.1fs' % (p, len(breaks)-1, mults, nder, r['paths'], r['queries'], len(r['cex']), r['t']))
F = Fraction
run(3, [F(0), F(1,3), F(1,2), F(1)], [1, 2], 2)
run(5, [F(0), F(1,1000), F(1,2), F(1)], [2, 1], 3)
run(8, [F(0), F(1,10**6), F(3,10), F(1)], [1, 3], 2)
run(12, [F(0), F(1,4), F(1,2), F(1)], [1, 1], 1)
