import z3, time, sys
F = z3.Float64()
rm = z3.RNE()
def probe(symbolic_ab, nmax, width=11):
    n_bv = z3.BitVec('n', width)
    n = z3.fpToFP(rm, n_bv, F) if False else z3.fpSignedToFP(rm, z3.ZeroExt(64-width, n_bv), F)
    if symbolic_ab:
        a = z3.FP('a', F); b = z3.FP('b', F)
    else:
        a = z3.FPVal(0.0, F); b = z3.FPVal(1.0, F)
    s = z3.Solver()
    s.add(z3.UGE(n_bv, 1), z3.ULE(n_bv, nmax))
    if symbolic_ab:
        s.add(z3.Not(z3.fpIsNaN(a)), z3.Not(z3.fpIsInf(a)), z3.Not(z3.fpIsNaN(b)), z3.Not(z3.fpIsInf(b)))
        s.add(z3.fpLT(a, b))
        s.add(z3.fpGEQ(a, z3.FPVal(-1e6, F)), z3.fpLEQ(b, z3.FPVal(1e6, F)))
        s.add(z3.fpGEQ(z3.fpSub(rm, b, a), z3.FPVal(1e-6, F)))
    D = z3.fpSub(rm, b, a)
    step = z3.fpDiv(rm, D, n)
    q = z3.fpDiv(rm, D, step)
    ln = z3.fpRoundToIntegral(z3.RTP(), q)   # ceil
    s.add(z3.Not(z3.fpEQ(ln, n)))
    t0 = time.time()
    r = s.check()
    print('symbolic_ab=%s nmax=%d ->' % (symbolic_ab, nmax), r, '%.1fs' % (time.time()-t0))
    if r == z3.sat:
        m = s.model()
        print(' n =', m[n_bv], ' a=', m.eval(a), ' b=', m.eval(b))
probe(False, int(sys.argv[1]))
if len(sys.argv) > 2:
    probe(True, int(sys.argv[1]))
