import z3, sys, time
import symx
from symx import Sym, SymB, explore

def findspan(kv, p, u):
    n = len(kv)
    if u >= kv[n - p - 1]:
        return n - p - 2
    a = 0; b = n - 1
    while b - a > 1:
        c = a + (b - a) // 2
        if kv[c] > u:
            b = c
        else:
            a = c
    return a

def active_deriv(kv, p, u, numderiv):
    NDU = [[None]*(p+1) for _ in range(p+1)]
    result = [[None]*(p+1) for _ in range(numderiv+1)]
    left = [None]*64; right = [None]*64; a1 = [None]*64; a2 = [None]*64
    span = findspan(kv, p, u)
    NDU[0][0] = 1.0
    for j in range(1, p+1):
        left[j-1] = u - kv[span+1-j]
        right[j-1] = kv[span+j] - u
        saved = 0.0
        for r in range(j):
            NDU[j][r] = right[r] + left[j-r-1]
            temp = NDU[r][j-1] / NDU[j][r]
            NDU[r][j] = saved + right[r] * temp
            saved = left[j-r-1] * temp
        NDU[j][j] = saved
    for j in range(p+1):
        result[0][j] = NDU[j][p]
    for r in range(p+1):
        a1[0] = 1.0
        fac = p
        for k in range(1, numderiv+1):
            rk = r - k; pk = p - k; d = 0.0
            if r >= k:
                a2[0] = a1[0] / NDU[pk+1][rk]
                d = a2[0] * NDU[rk][pk]
            j1 = 1 if rk >= -1 else -rk
            j2 = k-1 if r-1 <= pk else p - r
            for j in range(j1, j2+1):
                a2[j] = (a1[j] - a1[j-1]) / NDU[pk+1][rk+j]
                d += a2[j] * NDU[rk+j][pk]
            if r <= pk:
                a2[k] = -a1[k-1] / NDU[pk+1][r]
                d += a2[k] * NDU[r][pk]
            result[k][r] = d * fac
            fac *= pk
            a1, a2 = a2, a1
    return span, result

# reference: Cox-de Boor as z3 term (with 0/0 := 0 via ite)
def N(kv, i, p, u, last):
    if p == 0:
        lo, hi = kv[i], kv[i+1]
        # right-continuous; left-continuous at right end
        cond = z3.And(lo <= u, u < hi)
        if last is not None:
            cond = z3.Or(cond, z3.And(u == last, lo < hi, hi == last))
        return z3.If(cond, z3.RealVal(1), z3.RealVal(0))
    d1 = kv[i+p] - kv[i]; d2 = kv[i+p+1] - kv[i+1]
    t1 = z3.If(d1 == 0, z3.RealVal(0), (u - kv[i]) / d1 * N(kv, i, p-1, u, last))
    t2 = z3.If(d2 == 0, z3.RealVal(0), (kv[i+p+1] - u) / d2 * N(kv, i+1, p-1, u, last))
    return t1 + t2

def run(p, nint, mode):
    # open knot vector with nint interior knots (symbolic, nondecreasing, mult<=p)
    a = z3.Real('a'); ks = [z3.Real('k%d' % i) for i in range(nint)]; b = z3.Real('b')
    u = z3.Real('u')
    kvz = [a]*(p+1) + ks + [b]*(p+1)
    pre = [a < b, a <= u, u <= b]
    seq = [a] + ks + [b]
    for x, y in zip(seq, seq[1:]): pre.append(x <= y)
    # multiplicity <= p: kv[i] < kv[i+p] for interior windows  (any p+1 consecutive knots not all equal, except ends)
    for i in range(1, len(kvz)-p-1):
        pre.append(kvz[i] < kvz[i+p])
    def fn():
        symx.CTX.pc.extend(pre)
        kv = [Sym(t) for t in kvz]
        span, res = active_deriv(kv, p, Sym(u), 0)
        return span, res
    def check(out):
        span, res = out
        props = []
        first = span - p
        n = len(kvz) - p - 1
        tot = 0
        for j in range(p+1):
            val = res[0][j]; val = val.t if isinstance(val, Sym) else z3.RealVal(val)
            if mode == 'cdb':
                props.append(val == N(kvz, first + j, p, u, b))
            elif mode == 'pou':
                tot = tot + val
            elif mode == 'nonneg':
                props.append(val >= 0)
        if mode == 'pou': props.append(tot == 1)
        if mode == 'cdb':
            for i in range(n):
                if i < first or i > first + p:
                    props.append(N(kvz, i, p, u, b) == 0)
        return z3.And(*props)
    r = explore(fn, check)
    print('p=%d nint=%d mode=%s paths=%d queries=%d cex=%d t=%.2fs' % (p, nint, mode, r['paths'], r['queries'], len(r['cex']), r['t']))
    if r['cex']: print(r['cex'][0])

if __name__ == '__main__':
    p = int(sys.argv[1]); nint = int(sys.argv[2]); mode = sys.argv[3]
    run(p, nint, mode)
