from typing import Tuple, List
import importlib.util, sys, types
# load pure-python functions from the repo source without importing compiled deps
src = open('/repo/pyiga/mlmatrix.py').read()
from pyiga.vform import sym_index_to_seq
from pyiga import mlmatrix

def _sym_index_roundtrip(n: int, i: int, j: int, k: int, l: int) -> bool:
    """
    pre: 1 <= n <= 6 and 0 <= i < n and 0 <= j < n and 0 <= k < n and 0 <= l < n
    post: _
    """
    a = sym_index_to_seq(n, i, j)
    b = sym_index_to_seq(n, k, l)
    inrange = 0 <= a < n * (n + 1) // 2
    same = (min(i, j), max(i, j)) == (min(k, l), max(k, l))
    return inrange and ((a == b) == same)

def _from_to_seq(i: int, d0: int, d1: int, d2: int) -> bool:
    """
    pre: 1 <= d0 <= 5 and 1 <= d1 <= 5 and 1 <= d2 <= 5 and 0 <= i < d0*d1*d2
    post: _
    """
    dims = [d0, d1, d2]
    I = mlmatrix_from_seq(i, dims)
    return mlmatrix_to_seq(I, dims) == i and all(0 <= I[k] < dims[k] for k in range(3))

# pure python versions (shadowed by cython at import): exec from source
ns = {}
import ast
tree = ast.parse(src)
keep = [n for n in tree.body if isinstance(n, ast.FunctionDef) and n.name in ('from_seq', 'to_seq', 'reindex_from_reordered')]
exec(compile(ast.Module(body=keep, type_ignores=[]), 'mlmatrix_py', 'exec'), ns)
mlmatrix_from_seq = ns['from_seq']; mlmatrix_to_seq = ns['to_seq']
