import z3, time
u = z3.RealVal(2)**(-53)
def rnd(x, name):
    d = z3.Real(name); return x * (1 + d), [d >= -u, d <= u]
a, b, n, i = z3.Reals('a b n i')
cons = [a >= -100000, b <= 100000, b - a >= z3.RealVal('1/1000000'), n >= 2, n <= 2000, i >= 1, i + 1 <= n - 1]
D, c = rnd(b - a, 'd1'); cons += c
step, c = rnd(D / n, 'd2'); cons += c
m1, c = rnd(i * step, 'd3'); cons += c
x1, c = rnd(a + m1, 'd4'); cons += c
m2, c = rnd((i + 1) * step, 'd5'); cons += c
x2, c = rnd(a + m2, 'd6'); cons += c
for name, prop in [('mono', x2 > x1), ('lower', x1 > a), ('upper', x2 < b)]:
    s = z3.Solver(); s.set('timeout', 300000); s.add(*cons); s.add(z3.Not(prop))
    t0 = time.time(); r = s.check(); print(name, r, '%.1fs' % (time.time() - t0))
    if r == z3.sat:
        m = s.model(); print({str(d): m[d] for d in m.decls()})
