import numpy as np, z3, time, sys, types
import symx
from symx import Sym, SymB, explore

counter = [0]
def fresh(name):
    counter[0] += 1
    return Sym(z3.Real('%s_%d' % (name, counter[0])))

def symvec(name, n):
    a = np.empty(n, dtype=object)
    for i in range(n): a[i] = Sym(z3.Real('%s%d' % (name, i)))
    return a
def symmat(name, m, n):
    a = np.empty((m, n), dtype=object)
    for i in range(m):
        for j in range(n): a[i, j] = Sym(z3.Real('%s%d%d' % (name, i, j)))
    return a

class SolverStub:
    def __init__(self, B):
        self.B = np.asarray(B, dtype=object)
    def dot(self, r):
        n = len(r)
        y = np.empty(n, dtype=object)
        for i in range(n): y[i] = fresh('y')
        By = self.B.dot(y)
        for i in range(n):
            symx.CTX.pc.append(symx.lift(By[i]) == symx.lift(r[i]))
        return y
    __matmul__ = dot

def make_solver(B, symmetric=False, spd=False):
    return SolverStub(B)

class LinalgStub:
    @staticmethod
    def norm(v):
        v = np.asarray(v, dtype=object).ravel()
        n = fresh('norm')
        symx.CTX.pc.append(n.t >= 0)
        symx.CTX.pc.append(n.t * n.t == sum((symx.lift(x) * symx.lift(x) for x in v), z3.RealVal(0)))
        return n

class NPProxy:
    linalg = LinalgStub
    def __getattr__(self, k): return getattr(np, k)
    def array(self, x, *a, **k):
        try:
            r = np.array(x, *a, **k)
        except Exception:
            return np.array(x, dtype=object)
        return r

# symbolic build of solvers.py
src = open('/repo/pyiga/solvers.py').read()
src = src.replace('from .operators import make_solver, KroneckerOperator, DiagonalOperator', '')
src = src.replace('from . import utils', '')
ns = {'make_solver': make_solver, '__name__': 'solvers_sym'}
code = compile(src, 'solvers_sym', 'exec')
exec(code, ns)
ns['np'] = NPProxy()
def newton_stub(F, J, x0, **kw):
    n = len(x0)
    y = np.empty(n, dtype=object)
    for i in range(n): y[i] = fresh('stage')
    r = F(y)
    for i in range(n): symx.CTX.pc.append(symx.lift(r[i]) == 0)
    return y
ns['newton'] = newton_stub

def run(method, n):
    A = getattr(ns['__builtins__'], 'x', None)
    tab = method
    def fn():
        counter[0] = 0
        M = symmat('m', n, n); K = symmat('k', n, n); g = symvec('g', n); x = symvec('x', n)
        tau = Sym(z3.Real('tau'))
        symx.CTX.pc.append(tau.t > 0)
        F = lambda y: K.dot(y) + g
        J = lambda y: K
        out = ns['dirk_step'](tab, M, F, J, x, tau)
        return M, K, g, x, tau, out
    def check(o):
        M, K, g, x, tau, out = o
        x_new = out[0]
        # y' = g when K = 0 : M x_new = M x + tau g
        prem = z3.And(*[symx.lift(K[i, j]) == 0 for i in range(n) for j in range(n)])
        lhs = M.dot(x_new); rhs = M.dot(x) + tau * g
        concl = z3.And(*[symx.lift(lhs[i]) == symx.lift(rhs[i]) for i in range(n)])
        return z3.Implies(prem, concl)
    t0 = time.time()
    r = explore(fn, check, max_paths=200)
    print('n=%d paths=%d queries=%d cex=%d t=%.1fs' % (n, r['paths'], r['queries'], len(r['cex']), r['t']))
    if r['cex']: print(r['cex'][0] if r['cex'][0] == 'unknown' else 'model found')

if __name__ == '__main__':
    name = sys.argv[1]; n = int(sys.argv[2])
    c = ns['coeffs_' + name]()
    tab = c[0] if isinstance(c, tuple) else c
    run(tab, n)
