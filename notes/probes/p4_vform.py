"""Probe: denotational semantics of pyiga.vform expression trees over z3 reals, and
equivalence before/after VForm.finalize()."""
import z3, time, sys, itertools, copy
from fractions import Fraction
from pyiga import vform as vf

R = z3.RealVal
def rv(x): return z3.RealVal(Fraction(x))

class Env:
    """Symbolic environment at one quadrature node."""
    def __init__(self, V):
        self.V = V; d = V.dim; self.d = d
        self.gw = [z3.Real('gw%d' % k) for k in range(d)]
        self.cache = {}
        self.ufs = {}
        self.side = []      # side constraints (chain rule definitions, det != 0)
        self.geo_dim = V.geo_dim
    def sym(self, name):
        if name not in self.cache: self.cache[name] = z3.Real(name)
        return self.cache[name]
    def bfun_para(self, bf, D):
        comp = '' if bf.component is None else '_c%d' % bf.component
        return self.sym('bf_%s%s_D%s' % (bf.name, comp, ''.join(map(str, D))))
    def input_para(self, inp, I, D):
        return self.sym('in_%s_I%s_D%s' % (inp.name, '_'.join(map(str, I)), ''.join(map(str, D))))
    def param(self, par, I):
        return self.sym('par_%s_I%s' % (par.name, '_'.join(map(str, I))))
    def uf(self, name, x):
        if name == 'abs': return z3.If(x >= 0, x, -x)
        if name not in self.ufs: self.ufs[name] = z3.Function('uf_' + name, z3.RealSort(), z3.RealSort())
        return self.ufs[name](x)
    # geometry jets
    def jac(self):
        geo = self.V.inputs[0]
        return [[self.input_para(geo, (i,), tuple(1 if k == j else 0 for k in range(self.d))) for j in range(self.d)] for i in range(self.geo_dim)]
    def physical_jets(self, key, para_jet):
        """Given a function para_jet(D)->z3 term for parametric derivatives of a scalar quantity,
        return dict of fresh unknowns for physical first/second derivatives defined implicitly by chain rule."""
        if key in self.cache: return self.cache[key]
        d = self.d; J = self.jac(); geo = self.V.inputs[0]
        g = [z3.Real('ph_%s_g%d' % (key, k)) for k in range(d)]
        h = [[None]*d for _ in range(d)]
        for k in range(d):
            for l in range(k, d):
                h[k][l] = h[l][k] = z3.Real('ph_%s_h%d%d' % (key, k, l))
        def e(i): return tuple(1 if k == i else 0 for k in range(d))
        def e2(i, j): return tuple((1 if k == i else 0) + (1 if k == j else 0) for k in range(d))
        for i in range(d):
            self.side.append(para_jet(e(i)) == sum(g[k] * J[k][i] for k in range(d)))
        for i in range(d):
            for j in range(i, d):
                Gij = [self.input_para(geo, (k,), e2(i, j)) for k in range(d)]
                self.side.append(para_jet(e2(i, j)) ==
                    sum(h[k][l] * J[k][i] * J[l][j] for k in range(d) for l in range(d)) + sum(g[k] * Gij[k] for k in range(d)))
        self.cache[key] = (g, h)
        return g, h

def D_to_indices(D):
    out = []
    for k, n in enumerate(D): out += [k] * n
    return out

def ev(e, env):
    """scalar/vector/matrix evaluation -> z3 term or nested list"""
    T = type(e)
    if T is vf.ConstExpr: return rv(e.value)
    if T is vf.LiteralVectorExpr: return [ev(c, env) for c in e.children]
    if T is vf.LiteralMatrixExpr:
        m, n = e.shape
        return [[ev(e.children[i*n+j], env) for j in range(n)] for i in range(m)]
    if T is vf.NegExpr: return -ev(e.x, env)
    if T is vf.BuiltinFuncExpr: return env.uf(e.funcname, ev(e.x, env))
    if T is vf.ScalarOperExpr:
        a, b = ev(e.x, env), ev(e.y, env)
        return {'+': a + b, '-': a - b, '*': a * b, '/': a / b}[e.oper]
    if T is vf.GaussWeightExpr: return env.gw[e.axis]
    if T is vf.VolumeMeasureExpr:
        J = env.jac(); dt = det(J)
        return prod(env.gw) * z3.If(dt >= 0, dt, -dt)
    if T is vf.PartialDerivExpr:
        if sum(e.D) == 0 or not e.physical:
            return env.bfun_para(e.basisfun, e.D)
        bf = e.basisfun
        key = 'bf_%s_%s' % (bf.name, bf.component)
        if env.V.spacetime:
            raise NotImplementedError
        g, h = env.physical_jets(key, lambda D: env.bfun_para(bf, D))
        idx = D_to_indices(e.D)
        if len(idx) == 1: return g[idx[0]]
        if len(idx) == 2: return h[idx[0]][idx[1]]
        raise NotImplementedError
    if T is vf.VarRefExpr:
        var = e.var
        if var.expr is not None:
            assert sum(e.D) == 0
            val = ev(var.expr, env)
            for i in e.I: val = val[i]
            return val
        if isinstance(var.src, vf.Parameter):
            return env.param(var.src, e.I)
        if isinstance(var.src, vf.InputField):
            inp = var.src
            if var.deriv == 0:
                if sum(e.D) == 0: return env.input_para(inp, e.I, e.D)
                if e.parametric and not inp.physical: return env.input_para(inp, e.I, e.D)
                if (not e.parametric) and not inp.physical:
                    key = 'in_%s_%s' % (inp.name, '_'.join(map(str, e.I)))
                    g, h = env.physical_jets(key, lambda D: env.input_para(inp, e.I, D))
                    idx = D_to_indices(e.D)
                    return g[idx[0]] if len(idx) == 1 else h[idx[0]][idx[1]]
                raise NotImplementedError('physical input')
            elif var.deriv == 1:    # gradient array: I = comp..., k
                *I, k = e.I
                D = tuple(1 if j == k else 0 for j in range(env.d))
                return env.input_para(inp, tuple(I), D)
            elif var.deriv == 2:
                *I, s = e.I
                d = env.d
                pairs = [(i, j) for i in range(d) for j in range(i, d)]
                i, j = pairs[s]
                D = tuple((1 if k == i else 0) + (1 if k == j else 0) for k in range(d))
                return env.input_para(inp, tuple(I), D)
        raise NotImplementedError(str(e))
    # generic tensor exprs: evaluate elementwise through .at()
    if e.is_vector(): return [ev(e[i], env) for i in range(e.shape[0])]
    if e.is_matrix(): return [[ev(e[i, j], env) for j in range(e.shape[1])] for i in range(e.shape[0])]
    raise NotImplementedError(T)

def prod(xs):
    r = None
    for x in xs: r = x if r is None else r * x
    return r

def det(A):
    n = len(A)
    if n == 1: return A[0][0]
    if n == 2: return A[0][0]*A[1][1] - A[0][1]*A[1][0]
    if n == 3:
        return (A[0][0]*(A[1][1]*A[2][2]-A[1][2]*A[2][1]) - A[0][1]*(A[1][0]*A[2][2]-A[1][2]*A[2][0])
                + A[0][2]*(A[1][0]*A[2][1]-A[1][1]*A[2][0]))

def check_form(make, name, timeout=120000):
    V = make()
    env0 = Env(V)
    before = [ev(copy.deepcopy(e), env0) for e in V.exprs]
    V.finalize()
    env1 = Env(V); env1.cache = env0.cache; env1.ufs = env0.ufs; env1.side = env0.side
    after = [ev(e, env1) for e in V.exprs]
    s = z3.Solver(); s.set('timeout', timeout)
    J = env0.jac()
    if V.dim == V.geo_dim: s.add(det(J) != 0)
    s.add(*env0.side)
    diffs = []
    def flat(x):
        return [x] if not isinstance(x, list) else [z for y in x for z in flat(y)]
    for b, a in zip(before, after):
        for bb, aa in zip(flat(b), flat(a)): diffs.append(bb != aa)
    s.add(z3.Or(*diffs))
    t0 = time.time(); r = s.check()
    print('%-28s %s  %.2fs  (#side=%d)' % (name, r, time.time() - t0, len(env0.side)))
    if r == z3.sat and '-v' in sys.argv: print(s.model())

def f_mass(d):
    def mk():
        V = vf.VForm(d); u, v = V.basisfuns(); V.add(u*v*vf.dx); return V
    return mk
def f_lap(d):
    def mk():
        V = vf.VForm(d); u, v = V.basisfuns(); V.add(vf.inner(vf.grad(u), vf.grad(v))*vf.dx); return V
    return mk
def f_stiff_pre(d):
    return lambda: vf.stiffness_vf(d)
def f_hess(d):
    def mk():
        V = vf.VForm(d); u, v = V.basisfuns(); V.add(vf.tr(vf.hess(u)) * v * vf.dx); return V
    return mk
def f_sincos(d):
    def mk():
        V = vf.VForm(d); u, v = V.basisfuns(); f = V.input('f')
        V.add((vf.sin(f) + vf.cos(f)) * u * v * vf.dx); return V
    return mk
def f_divdiv(d):
    return lambda: vf.divdiv_vf(d)
def f_convdiff(d):
    def mk():
        V = vf.VForm(d); u, v = V.basisfuns(); b = V.input('b', shape=(d,)); c = V.parameter('c')
        V.add((c*vf.inner(vf.grad(u), vf.grad(v)) + vf.inner(b, vf.grad(u))*v) * vf.dx); return V
    return mk
def f_gradf(d):
    def mk():
        V = vf.VForm(d, arity=1); v = V.basisfuns(); f = V.input('f')
        V.add(vf.inner(vf.grad(f), vf.grad(v)) * vf.dx); return V
    return mk

if __name__ == '__main__':
    for d in (1, 2, 3):
        check_form(f_mass(d), 'mass %dD' % d)
        check_form(f_lap(d), 'laplace %dD' % d)
    for d in (2, 3):
        check_form(f_stiff_pre(d), 'stiffness_vf %dD' % d)
        check_form(f_divdiv(d), 'divdiv %dD' % d)
        check_form(f_convdiff(d), 'convdiff %dD' % d)
        check_form(f_gradf(d), 'grad f . grad v %dD' % d)
    check_form(f_sincos(2), 'sin+cos 2D')
    check_form(f_hess(1), 'laplace via hess 1D')
    check_form(f_hess(2), 'laplace via hess 2D')

# ---- explicit physical jets (adjugate inverse) : alternative oracle mode
def inv_mat(J):
    n = len(J); dt = det(J)
    if n == 1: return [[1 / dt]]
    def minor(i, j):
        return det([[J[r][c] for c in range(n) if c != j] for r in range(n) if r != i])
    return [[((-1) ** (i + j)) * minor(j, i) / dt for j in range(n)] for i in range(n)]

def explicit_physical_jets(env, key, para_jet):
    ck = ('explicit', key)
    if ck in env.cache: return env.cache[ck]
    d = env.d; J = env.jac(); geo = env.V.inputs[0]
    Ji = inv_mat(J)          # Ji[a][k] = d xi_a / d x_k
    def e(i): return tuple(1 if k == i else 0 for k in range(d))
    def e2(i, j): return tuple((1 if k == i else 0) + (1 if k == j else 0) for k in range(d))
    gp = [para_jet(e(i)) for i in range(d)]
    g = [sum(gp[a] * Ji[a][k] for a in range(d)) for k in range(d)]
    # parametric hessian minus geometry term
    Hp = [[para_jet(e2(i, j)) - sum(g[k] * env.input_para(geo, (k,), e2(i, j)) for k in range(d)) for j in range(d)] for i in range(d)]
    h = [[sum(Ji[a][k] * Hp[a][b] * Ji[b][l] for a in range(d) for b in range(d)) for l in range(d)] for k in range(d)]
    env.cache[ck] = (g, h)
    return g, h
