import numpy as np, z3, ast, itertools, time
import symx
from symx import Sym, SymB, explore

class SpMat:
    """dense-object model of the scipy.sparse subset used by RestrictedLinearSystem"""
    def __init__(self, a): self.a = np.asarray(a, dtype=object); self.shape = self.a.shape
    def __getitem__(self, idx):
        if isinstance(idx, np.ndarray) and idx.dtype == bool: return SpMat(self.a[idx])
        return SpMat(self.a[idx])
    def dot(self, o):
        if isinstance(o, SpMat): return SpMat(self.a.dot(o.a))
        return self.a.dot(np.asarray(o, dtype=object))
    @property
    def T(self): return SpMat(self.a.T)
class sparse:
    @staticmethod
    def eye(n, format=None):
        e = np.empty((n, n), dtype=object); e[...] = 0
        for i in range(n): e[i, i] = 1
        return SpMat(e)
    @staticmethod
    def issparse(B): return isinstance(B, SpMat)
    @staticmethod
    def csr_matrix(B): return SpMat(B)
class scipy_stub: sparse = sparse

src = open('/repo/pyiga/assemble.py').read()
tree = ast.parse(src)
cls = [n for n in tree.body if isinstance(n, ast.ClassDef) and n.name == 'RestrictedLinearSystem'][0]
ns = {'np': np, 'scipy': scipy_stub}
exec(compile(ast.Module(body=[cls], type_ignores=[]), 'assemble_sym', 'exec'), ns)
RLS = ns['RestrictedLinearSystem']

def symarr(name, shape):
    a = np.empty(shape, dtype=object)
    for idx in np.ndindex(*shape): a[idx] = Sym(z3.Real(name + ''.join(map(str, idx))))
    return a

def run(n, k):
    idxz = [z3.Int('ix%d' % j) for j in range(k)]
    pre = [z3.And(i >= 0, i < n) for i in idxz] + [z3.Distinct(*idxz)] if k > 1 else [z3.And(i >= 0, i < n) for i in idxz]
    def fn():
        symx.CTX.pc.extend(pre)
        A = symarr('a', (n, n)); b = symarr('b', (n,)); vals = symarr('v', (k,))
        class Seq:
            shape = (k,)
            def __iter__(self): return iter([Sym(i).__index__() for i in idxz])
            def __len__(self): return k
        ind = Seq()
        L = RLS(SpMat(A), b, (ind, vals))
        uf = symarr('u', (n - k,))
        u = L.complete(uf)
        return A, b, vals, L, uf, u
    def check(o):
        A, b, vals, L, uf, u = o
        props = []
        # prescribed values: u[idx_j] == vals[j]
        for j in range(k):
            for pos in range(n):
                props.append(z3.Implies(idxz[j] == pos, symx.lift(u[pos]) == symx.lift(vals[j])))
        # assume restricted system holds -> original non-eliminated equations hold
        Ar = L.A.a; br = L.b
        assume = z3.And(*[symx.lift(Ar[i].dot(uf)) == symx.lift(br[i]) for i in range(n - k)])
        res = A.dot(u) - b
        concl = []
        for pos in range(n):
            is_elim = z3.Or(*[i == pos for i in idxz])
            concl.append(z3.Or(is_elim, symx.lift(res[pos]) == 0))
        props.append(z3.Implies(assume, z3.And(*concl)))
        return z3.And(*props)
    r = explore(fn, check, max_paths=2000)
    print('n=%d k=%d paths=%d queries=%d cex=%d t=%.1fs' % (n, k, r['paths'], r['queries'], len(r['cex']), r['t']))
    if r['cex'] and r['cex'][0] != 'unknown':
        m = r['cex'][0]; print('   indices:', [m[i] for i in idxz])
run(3, 1); run(3, 2); run(4, 2)
