"""Probe: symbolic instantiation of a *generated* assembler class (text from pyiga.compile.generate)
and comparison of entry(i,j) with the vform semantics (vfsem prototype in p4_vform)."""
import re, sys, time, copy, itertools
import numpy as np, z3
import symx
from symx import Sym, SymB
from pyiga import vform as vf, compile as pc, bspline
import p4_vform as sem

# ---------------------------------------------------------------- transliteration (generated code only)
def split_args(s):
    out, depth, cur = [], 0, ''
    for ch in s:
        if ch in '([': depth += 1
        if ch in ')]': depth -= 1
        if ch == ',' and depth == 0:
            out.append(cur); cur = ''
        else:
            cur += ch
    if cur.strip(): out.append(cur)
    return out

def argname(a):
    a = re.sub(r'#.*', '', a).strip()
    a = re.sub(r'\[[^\]]*\]$', '', a).strip()         # trailing [] of C arrays
    return re.findall(r'[A-Za-z_]\w*', a)[-1]

def addr_rewrite(ln):
    out = ''; k = 0
    while k < len(ln):
        m = re.match(r'&([A-Za-z_][\w\.]*)\[', ln[k:])
        if m:
            start = k + m.end(); depth = 1; q = start
            while depth:
                if ln[q] == '[': depth += 1
                elif ln[q] == ']': depth -= 1
                q += 1
            inner = ln[start:q-1]
            out += 'PTR(%s, (%s,))' % (m.group(1), inner)
            k = q
        else:
            out += ln[k]; k += 1
    return out

def transliterate(src):
    lines = src.split('\n')
    out = []
    i = 0
    while i < len(lines):
        ln = lines[i]
        st = ln.strip()
        ind = ln[:len(ln) - len(ln.lstrip())]
        if st.startswith('@cython.') or st.startswith('cimport') or st.startswith('from libc') or st.startswith('from pyiga') or st.startswith('import numpy') or st.startswith('cimport numpy'):
            i += 1; continue
        m = re.match(r'cdef class (\w+)\((\w+)\):', st)
        if m:
            out.append('%sclass %s(%s):' % (ind, m.group(1), m.group(2))); i += 1; continue
        if re.match(r'cdef (void|double|int)\s+\w+\(', st):
            # function header possibly spanning several lines until 'nogil:' / '):'
            hdr = st
            while not hdr.rstrip().endswith(':'):
                i += 1; hdr += ' ' + re.sub(r'#.*', '', lines[i]).strip()
            name = re.match(r'cdef \w+\s+(\w+)\(', hdr).group(1)
            args = hdr[hdr.index('(') + 1: hdr.rindex(')')]
            names = [argname(a) for a in split_args(args) if a.strip()]
            out.append('%sdef %s(%s):' % (ind, name, ', '.join(names))); i += 1; continue
        m = re.match(r'cdef\s+(.*)$', st)
        if m:
            decl = m.group(1)
            if '=' in decl:
                lhs, rhs = decl.split('=', 1)
                nm = argname(lhs)
                rhs = rhs.strip()
                if rhs.startswith('['): rhs = rhs          # list literal
                out.append('%s%s = %s' % (ind, nm, rhs))
            else:
                mm = re.match(r'.*?(\w+)\[(\d+)\]$', decl.strip())
                if mm: out.append('%s%s = [None]*%s' % (ind, mm.group(1), mm.group(2)))
                else: out.append('%spass' % ind)
            i += 1; continue
        # expressions
        ln2 = ln
        ln2 = addr_rewrite(ln2)
        ln2 = ln2.replace('.base[', '[')
        mm = re.match(r'^(\s*)r(\[(\d+)\])? \+= (.*)$', ln2)
        if mm:
            comp = mm.group(3) or '0'
            ln2 = '%sr%s += LOGTERM(%s, %s)' % (mm.group(1), mm.group(2) or '', comp, mm.group(4))
        ln2 = re.sub(r'\)\s*noexcept\s*nogil:', '):', ln2)
        out.append(ln2); i += 1
    return '\n'.join(out)

class FlatPtr:
    def __init__(self, arr, idx):
        if isinstance(arr, FlatPtr):
            self.flat, self.ofs = arr.flat, arr.ofs + idx[0]; return
        if isinstance(arr, list):
            arr = ListArr(arr)
            self.flat, self.ofs = arr, idx[0]; return
        idx = tuple(int(k) if not isinstance(k, slice) else k for k in idx)
        if arr.flags.c_contiguous:
            self.flat = arr.reshape(-1); self.ofs = int(np.ravel_multi_index(idx, arr.shape))
        else:
            row = arr[idx[:-1]]; assert row.ndim == 1
            self.flat = row; self.ofs = idx[-1]
    def __getitem__(self, k): return self.flat[self.ofs + int(k)]
    def __setitem__(self, k, v): self.flat[self.ofs + int(k)] = v
class ListArr:
    def __init__(self, l): self.l = l
    def __getitem__(self, k): return self.l[k]
    def __setitem__(self, k, v): self.l[k] = v
def PTR(arr, idx): return FlatPtr(arr, idx)
TERMS = []
EXPLICIT = True
def LOGTERM(comp, val):
    TERMS.append((comp, val)); return val

class IntInterval:
    def __init__(self, a, b): self.a, self.b = a, b
def make_intv(a, b): return IntInterval(int(a), int(b))
def intersect_intervals(x, y): return IntInterval(max(x.a, y.a), min(x.b, y.b))

def fabs(x):
    t = symx.lift(x); return Sym(z3.If(t >= 0, t, -t))
UFS = {}
def mkuf(name):
    def f(x):
        if name not in UFS: UFS[name] = z3.Function('uf_' + name, z3.RealSort(), z3.RealSort())
        return Sym(UFS[name](symx.lift(x)))
    return f

class _Base:
    def __init__(self): pass
    def _alloc(self, dim):
        self.S0_ndofs = [0]*dim; self.S1_ndofs = [0]*dim; self.bbox_ofs = [0]*dim; self.numcomp = [0, 0]
    def entry(self, i, j):
        d = len(self.S0_ndofs)
        I = np.unravel_index(i, self.S1_ndofs); J = np.unravel_index(j, self.S0_ndofs)
        res = [0.0] * (max(1, self.numcomp[0] * self.numcomp[1]))
        self.entry_impl(list(I), list(J), res)
        return res

def make_bases():
    d = {}
    for dim in (1, 2, 3):
        for nm in ('BaseAssembler%dD' % dim, 'BaseVectorAssembler%dD' % dim):
            def __new__(cls, *a, _dim=dim, **k):
                o = object.__new__(cls); o._alloc(_dim); return o
            d[nm] = type(nm, (_Base,), {'__new__': __new__})
    return d

# ---------------------------------------------------------------- symbolic environment objects
class SymGeo:
    """geometry / field stub: one symbol per node, component and derivative"""
    def __init__(self, name, sdim, shape, store):
        self.name, self.sdim, self.shape, self.store = name, sdim, shape, store
        self.dim = shape[0] if shape else 1
    def _sym(self, node, I, D):
        key = ('in', self.name, node, I, D)
        if key not in self.store:
            self.store[key] = z3.Real('in_%s_n%s_I%s_D%s' % (self.name, '_'.join(map(str, node)), '_'.join(map(str, I)), ''.join(map(str, D))))
        return Sym(self.store[key])
    def _arr(self, grid, extra, fn):
        N = tuple(len(g) for g in grid)
        out = np.empty(N + extra, dtype=object)
        for node in np.ndindex(*N):
            for e in np.ndindex(*extra) if extra else [()]:
                out[node + e] = fn(node, e)
        return out
    def grid_eval(self, grid):
        d = self.sdim
        return self._arr(grid, self.shape, lambda node, e: self._sym(node, e, (0,)*d))
    def grid_jacobian(self, grid):
        d = self.sdim
        # last axis = derivative direction, x (index 0 in D) LAST?  pyiga: jac[..., comp, k] = d comp / d x_k  with x_k in XY order
        return self._arr(grid, self.shape + (d,), lambda node, e: self._sym(node, e[:-1], tuple(1 if k == e[-1] else 0 for k in range(d))))
    def grid_hessian(self, grid):
        d = self.sdim
        pairs = [(i, j) for i in range(d) for j in range(i, d)]
        return self._arr(grid, self.shape + (len(pairs),), lambda node, e: self._sym(node, e[:-1], tuple((1 if k == pairs[e[-1]][0] else 0) + (1 if k == pairs[e[-1]][1] else 0) for k in range(d))))

def run(make, name, p=1, nspans=1):
    t0 = time.time()
    V0 = make(); V = make()
    dim = V.dim
    src = pc.generate(V)
    cls_src = src[src.index('cdef class'):]
    py = transliterate(cls_src)
    store = {}
    kvs = tuple(bspline.make_knots(p, 0.0, 1.0, nspans) for _ in range(dim))
    nqp = p + 1
    gwsym = [[z3.Real('gw%d_%d' % (k, q)) for q in range(nqp * nspans)] for k in range(dim)]
    def make_tensor_quadrature(meshes, nq):
        grid = tuple(np.arange(nq * (len(m) - 1), dtype=float) for m in meshes)
        w = tuple(np.array([Sym(t) for t in gwsym[k]], dtype=object) for k in range(len(meshes)))
        return grid, w
    bas = {}
    def compute_values_derivs(kv, grid, derivs):
        k = [id(x) for x in kvs].index(id(kv))
        ms = nqp * kv.mesh_support_idx_all()
        out = np.empty((kv.numdofs, len(grid), derivs + 1), dtype=object)
        for f in range(kv.numdofs):
            for q in range(len(grid)):
                for dd in range(derivs + 1):
                    if ms[f, 0] <= q < ms[f, 1]:
                        key = (k, f, q, dd)
                        if key not in bas: bas[key] = z3.Real('B%d_f%d_q%d_d%d' % key)
                        out[f, q, dd] = Sym(bas[key])
                    else:
                        out[f, q, dd] = 0.0
        return out
    def grid_eval(f, grid): return f.grid_eval(grid)
    class NP:
        def __getattr__(self, k): return getattr(np, k)
        def empty(self, shape, *a, **k): return np.empty(shape, dtype=object)
        def zeros(self, shape, *a, **k):
            z = np.empty(shape, dtype=object); z[...] = 0.0; return z
    ns = dict(make_bases())
    ns.update(LOGTERM=LOGTERM, PTR=PTR, IntInterval=IntInterval, make_intv=make_intv, intersect_intervals=intersect_intervals,
              fabs=fabs, sqrt=mkuf('sqrt'), exp=mkuf('exp'), log=mkuf('log'), sin=mkuf('sin'), cos=mkuf('cos'), tan=mkuf('tan'),
              np=NP(), make_tensor_quadrature=make_tensor_quadrature, compute_values_derivs=compute_values_derivs,
              grid_eval=grid_eval)
    exec(compile(py, 'generated', 'exec'), ns)
    Asm = ns['CustomAssembler']
    inputs = {inp.name: SymGeo(inp.name, dim, inp.shape, store) for inp in V.inputs}
    params = {par.name: (Sym(z3.Real('par_%s_I' % par.name)) if par.shape == () else None) for par in V.params}
    symx.CTX = symx.Ctx()
    asm = Asm(kvs, **inputs, **params)
    t_build = time.time() - t0
    # oracle: sum over nodes in joint support of D[[form]](node)
    ndofs = [kv.numdofs for kv in kvs]; Ntot = int(np.prod(ndofs))
    ms = [nqp * kv.mesh_support_idx_all() for kv in kvs]
    nq = 0; tsol = 0; bad = 0
    for i in range(Ntot):
        for j in range(Ntot if V.arity == 2 else 1):
            del TERMS[:]
            got = asm.entry(i, j)
            I = np.unravel_index(i, ndofs); J = np.unravel_index(j, ndofs)
            ranges = [range(max(ms[k][I[k], 0], ms[k][J[k], 0]), min(ms[k][I[k], 1], ms[k][J[k], 1])) for k in range(dim)]
            nodes = list(itertools.product(*ranges))
            ncomp = len(got)
            # final result must be the sum of the logged terms
            tot = [z3.RealVal(0)] * ncomp
            for comp, val in TERMS: tot[comp] = tot[comp] + symx.lift(val)
            s0 = z3.Solver(); s0.add(z3.Or(*[symx.lift(g) != t for g, t in zip(got, tot)])); assert s0.check() == z3.unsat
            nexpr = len(V0.exprs)
            assert len(TERMS) == len(nodes) * ncomp * nexpr if V.vec else len(TERMS) == len(nodes) * nexpr, (len(TERMS), len(nodes))
            per_node = len(TERMS) // max(1, len(nodes))
            for kn, node in enumerate(nodes):
                env = NodeEnv(V0, node, store, bas, gwsym, {'u': J, 'v': I})
                vals = [z3.RealVal(0)] * ncomp
                for e in V0.exprs:
                    fv = flat(sem.ev(copy.deepcopy(e), env))
                    vals = [a + b for a, b in zip(vals, fv)]
                codev = [z3.RealVal(0)] * ncomp
                for comp, val in TERMS[kn * per_node:(kn + 1) * per_node]: codev[comp] = codev[comp] + symx.lift(val)
                s = z3.Solver(); s.set('timeout', 60000)
                s.add(*env.side); s.add(sem.det(env.jac()) != 0)
                s.add(z3.Or(*[c != v for c, v in zip(codev, vals)]))
                t1 = time.time(); r = s.check(); tsol += time.time() - t1; nq += 1
                if r != z3.unsat:
                    bad += 1
                    if bad == 1: print('   first non-unsat at', i, j, node, r)
    print('%-24s dim=%d entries=%d queries=%d non-unsat=%d build=%.2fs solve=%.2fs' % (name, dim, Ntot * Ntot, nq, bad, t_build, tsol))

def flat(x): return [x] if not isinstance(x, list) else [z for y in x for z in flat(y)]

class NodeEnv(sem.Env):
    def __init__(self, V, node, store, bas, gwsym, fun_idx):
        sem.Env.__init__(self, V)
        self.node = node; self.store = store; self.bas = bas; self.fun_idx = fun_idx
        self.gw = [gwsym[k][node[k]] for k in range(V.dim)]
    def bfun_para(self, bf, D):
        # tensor product of univariate jets; axis k of kvs <-> D[dim-1-k]
        d = self.d; idx = self.fun_idx[bf.name]; r = None
        for k in range(d):
            key = (k, int(idx[k]), int(self.node[k]), D[d - 1 - k])
            t = self.bas.get(key, z3.RealVal(0))
            r = t if r is None else r * t
        return r
    def input_para(self, inp, I, D):
        key = ('in', inp.name, tuple(self.node), tuple(I), tuple(D))
        if key not in self.store:
            self.store[key] = z3.Real('in_%s_n%s_I%s_D%s' % (inp.name, '_'.join(map(str, self.node)), '_'.join(map(str, I)), ''.join(map(str, D))))
        return self.store[key]
    def param(self, par, I): return z3.Real('par_%s_I%s' % (par.name, '_'.join(map(str, I))))
    def sym(self, name): return z3.Real(name + '_n' + '_'.join(map(str, self.node)))
    def physical_jets(self, key, para_jet):
        if EXPLICIT: return sem.explicit_physical_jets(self, key + '_n' + '_'.join(map(str, self.node)) + '_' + '_'.join('%s%s' % (k, '_'.join(map(str, v))) for k, v in self.fun_idx.items()), para_jet)
        return sem.Env.physical_jets(self, key + '_n' + '_'.join(map(str, self.node)) + '_' + '_'.join('%s%s' % (k, '_'.join(map(str, v))) for k, v in self.fun_idx.items()), para_jet)

if __name__ == '__main__':
    run(sem.f_mass(1), 'mass 1D')
    sys.exit(0)
    run(sem.f_mass(2), 'mass 2D')
    run(sem.f_lap(2), 'laplace 2D')
    run(sem.f_convdiff(2), 'convdiff 2D')
    run(sem.f_stiff_pre(2), 'stiffness_vf 2D')
    run(sem.f_hess(2), 'hess 2D', p=2)
    run(sem.f_lap(3), 'laplace 3D')
