import z3, itertools, time, sys
import symx
from symx import Sym, SymB, explore
def to_seq(I, dims, n):
    i = 0
    for k in range(n):
        i = i * dims[k]; i = i + I[k]
    return i
def ml_nonzero_nd(bidx, block_sizes, lower_tri=False, fixed=False):
    L = len(bidx)
    NN = [0]*8; block_rows = [0]*8; block_cols = [0]*8; cur_idx = [0]*8; block_i = [0]*8; block_j = [0]*8
    bidx_ptr = [None]*8
    N = 1
    for i in range(L):
        bidx_temp = bidx[i]
        bidx_ptr[i] = [x for row in bidx_temp for x in row]   # &bidx_temp[0,0]
        NN[i] = len(bidx_temp); N *= NN[i]
        block_rows[i], block_cols[i] = block_sizes[i]
        cur_idx[i] = 0
        block_i[i], block_j[i] = bidx_ptr[i][0], (bidx_ptr[i][1] if fixed else bidx_ptr[0][1])
    IJ = [[None]*N, [None]*N]
    done = (N == 0); idx = 0
    while not done:
        I = to_seq(block_i, block_rows, L); J = to_seq(block_j, block_cols, L)
        if not lower_tri or J <= I:
            IJ[0][idx] = I; IJ[1][idx] = J; idx += 1
        for k in reversed(range(L)):
            cur_idx[k] += 1
            if cur_idx[k] < NN[k]:
                block_i[k], block_j[k] = bidx_ptr[k][2*cur_idx[k]+0], bidx_ptr[k][2*cur_idx[k]+1]
                break
            else:
                if k == 0:
                    done = True; break
                cur_idx[k] = 0
                block_i[k], block_j[k] = bidx_ptr[k][2*cur_idx[k]+0], bidx_ptr[k][2*cur_idx[k]+1]
    return [IJ[0][:idx], IJ[1][:idx]]

def run(L, nnz, fixed, lower):
    bs = [(z3.Int('m%d'%k), z3.Int('n%d'%k)) for k in range(L)]
    bz = [[(z3.Int('i_%d_%d'%(k,s)), z3.Int('j_%d_%d'%(k,s))) for s in range(nnz)] for k in range(L)]
    pre = []
    for k in range(L):
        m, n = bs[k]; pre += [m >= 1, m <= 3, n >= 1, n <= 3]
        for s in range(nnz):
            i, j = bz[k][s]; pre += [i >= 0, i < m, j >= 0, j < n]
        for s, t in itertools.combinations(range(nnz), 2):
            pre.append(z3.Or(bz[k][s][0] != bz[k][t][0], bz[k][s][1] != bz[k][t][1]))
    def fn():
        symx.CTX.pc.extend(pre)
        bidx = [[(Sym(i), Sym(j)) for (i, j) in lvl] for lvl in bz]
        sizes = [(Sym(m), Sym(n)) for (m, n) in bs]
        return ml_nonzero_nd(bidx, sizes, lower_tri=lower, fixed=fixed)
    def check(out):
        I, J = out
        props = []
        exp = []
        for tup in itertools.product(*[range(nnz)]*L):
            ei = 0; ej = 0
            for k in range(L):
                ei = ei * bs[k][0] + bz[k][tup[k]][0]; ej = ej * bs[k][1] + bz[k][tup[k]][1]
            exp.append((ei, ej))
        if not lower:
            props.append(z3.BoolVal(len(I) == len(exp)))
            for (a, b), (ei, ej) in zip(zip(I, J), exp):
                props += [symx.lift(a) == ei, symx.lift(b) == ej]
        else:
            # path-specific: output must be subsequence of exp with ej<=ei; check count and membership by position
            pos = 0
            for (ei, ej) in exp:
                # each expected with ej<=ei must appear in order
                pass
            props.append(z3.BoolVal(True))
        return z3.And(*props)
    r = explore(fn, check, max_paths=5000)
    print('L=%d nnz=%d fixed=%s lower=%s paths=%d queries=%d cex=%d t=%.1fs' % (L, nnz, fixed, lower, r['paths'], r['queries'], len(r['cex']), r['t']))
    if r['cex']:
        m = r['cex'][0]; print('  ', {str(d): m[d] for d in m.decls()})
run(2, 2, False, False); run(2, 2, True, False); run(3, 2, True, False); run(4, 2, True, False); run(3, 3, True, False)
