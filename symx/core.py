"""symx.core -- forking symbolic executor over z3 terms.

Real Python/numpy code runs unchanged on `Sym` proxies (z3 Real / Int terms); every
comparison yields a `SymB` whose truth value is decided by *forking*: the harness function is
re-executed once per feasible decision sequence (depth-first, decision prefix replay).  At
the end of (or during) a path the harness states obligations with `check(prop)`; each is sent
to the solver as  path_condition /\\ assumptions /\\ not prop.

unsat  -> the obligation holds for every value of the symbolic inputs on this path
sat    -> candidate counterexample (model is kept; the caller replays it on the real code)
unknown-> inconclusive (never counted as discharged)
"""
import time
from fractions import Fraction
import numpy as _np
import z3


class PathAbort(BaseException):
    """Raised to abandon an infeasible / over-budget path (BaseException: real code must not catch it)."""


class Inconclusive(Exception):
    pass


# --------------------------------------------------------------------------------------
# lifting

def _const(x):
    """python number -> z3 numeral (floats are taken at their exact rational value)"""
    if isinstance(x, (bool, _np.bool_)):
        return z3.BoolVal(bool(x))
    if isinstance(x, (int, _np.integer)):
        return z3.IntVal(int(x))
    if isinstance(x, (float, _np.floating)):
        f = float(x)
        if f != f or f in (float('inf'), float('-inf')):
            raise Inconclusive('non-finite float constant %r reached symbolic arithmetic' % f)
        if f == int(f) and abs(f) < 2**53:
            return z3.RealVal(int(f))
        return z3.RealVal(Fraction(f))
    if isinstance(x, Fraction):
        return z3.RealVal(x)
    raise TypeError('cannot lift %r of type %s' % (x, type(x)))


def lift(x):
    if isinstance(x, Sym):
        return x.t
    if z3.is_expr(x):
        return x
    return _const(x)


def is_sym(x):
    return isinstance(x, Sym)


def _coerce(a, b):
    if z3.is_bool(a):
        a = z3.If(a, z3.IntVal(1), z3.IntVal(0))
    if z3.is_bool(b):
        b = z3.If(b, z3.IntVal(1), z3.IntVal(0))
    ai, bi = z3.is_int(a), z3.is_int(b)
    if ai and not bi:
        a = z3.ToReal(a)
    elif bi and not ai:
        b = z3.ToReal(b)
    return a, b


def _toreal(a):
    if z3.is_bool(a):
        a = z3.If(a, z3.IntVal(1), z3.IntVal(0))
    return z3.ToReal(a) if z3.is_int(a) else a


def _numval(t):
    """Fraction/int value of a numeral term, else None"""
    if z3.is_int_value(t):
        return t.as_long()
    if z3.is_rational_value(t):
        return Fraction(t.numerator_as_long(), t.denominator_as_long())
    return None


# uninterpreted transcendental functions (sound for equalities that apply the same function to
# the same argument on both sides)
_UF = {}


def uf(name, arity=1):
    key = (name, arity)
    if key not in _UF:
        _UF[key] = z3.Function('uf_' + name, *([z3.RealSort()] * (arity + 1)))
    return _UF[key]


class Sym:
    """arithmetic proxy around a z3 Int or Real term"""
    __slots__ = ('t',)
    __array_priority__ = 1000

    def __init__(self, t):
        self.t = t

    # --- helpers -------------------------------------------------------------------
    def _elementwise(self, o, meth):
        res = _np.empty(o.shape, dtype=object)
        for idx in _np.ndindex(*o.shape):
            res[idx] = getattr(self, meth)(o[idx])
        return res

    def _bin(self, o, f, r=False, real=False):
        if isinstance(o, _np.ndarray):
            raise TypeError
        a, b = _coerce(self.t, lift(o))
        if real:
            a, b = _toreal(a), _toreal(b)
        if r:
            a, b = b, a
        return a, b

    # --- arithmetic ----------------------------------------------------------------
    def __add__(s, o):
        if isinstance(o, _np.ndarray): return s._elementwise(o, '__add__')
        if not isinstance(o, Sym) and _is_zero(o): return s
        a, b = s._bin(o, None)
        return _mk(a + b)
    def __radd__(s, o):
        if isinstance(o, _np.ndarray): return s._elementwise(o, '__radd__')
        if not isinstance(o, Sym) and _is_zero(o): return s
        a, b = s._bin(o, None, True)
        return _mk(a + b)
    def __sub__(s, o):
        if isinstance(o, _np.ndarray): return s._elementwise(o, '__sub__')
        if not isinstance(o, Sym) and _is_zero(o): return s
        a, b = s._bin(o, None)
        return _mk(a - b)
    def __rsub__(s, o):
        if isinstance(o, _np.ndarray): return s._elementwise(o, '__rsub__')
        a, b = s._bin(o, None, True)
        return _mk(a - b)
    def __mul__(s, o):
        if isinstance(o, _np.ndarray): return s._elementwise(o, '__mul__')
        if not isinstance(o, Sym):
            if _is_zero(o): return 0
            if _is_one(o): return s
        a, b = s._bin(o, None)
        return _mk(a * b)
    def __rmul__(s, o):
        if isinstance(o, _np.ndarray): return s._elementwise(o, '__rmul__')
        if not isinstance(o, Sym):
            if _is_zero(o): return 0
            if _is_one(o): return s
        a, b = s._bin(o, None, True)
        return _mk(a * b)
    def __truediv__(s, o):
        if isinstance(o, _np.ndarray): return s._elementwise(o, '__truediv__')
        if not isinstance(o, Sym) and _is_one(o): return s
        a, b = s._bin(o, None, real=True)
        return _mk(a / b)
    def __rtruediv__(s, o):
        if isinstance(o, _np.ndarray): return s._elementwise(o, '__rtruediv__')
        if not isinstance(o, Sym) and _is_zero(o): return 0
        a, b = s._bin(o, None, True, real=True)
        return _mk(a / b)
    def __floordiv__(s, o):
        a, b = s._bin(o, None)
        if not (z3.is_int(a) and z3.is_int(b)):
            raise Inconclusive('floor division on reals')
        return _mk(a / b)       # z3 Int '/' is div (floor for positive divisor, as Python)
    def __rfloordiv__(s, o):
        a, b = s._bin(o, None, True)
        if not (z3.is_int(a) and z3.is_int(b)):
            raise Inconclusive('floor division on reals')
        return _mk(a / b)
    def __mod__(s, o):
        a, b = s._bin(o, None)
        if not (z3.is_int(a) and z3.is_int(b)):
            raise Inconclusive('mod on reals')
        return _mk(a % b)
    def __rmod__(s, o):
        a, b = s._bin(o, None, True)
        return _mk(a % b)
    def __pow__(s, k):
        if isinstance(k, Sym):
            kv = _numval(z3.simplify(k.t))
            if kv is None:
                return _mk(uf('pow', 2)(_toreal(s.t), _toreal(k.t)))
            k = kv
        if isinstance(k, (float, _np.floating)) and float(k) == int(k):
            k = int(k)
        if isinstance(k, (int, _np.integer)):
            k = int(k)
            if k == 0: return 1
            neg = k < 0
            r = s.t
            for _ in range(abs(k) - 1):
                r = r * s.t
            if neg:
                r = z3.RealVal(1) / _toreal(r)
            return _mk(r)
        if k == 0.5:
            return s.sqrt()
        return _mk(uf('pow', 2)(_toreal(s.t), lift(k)))
    def __rpow__(s, base):
        return _mk(uf('pow', 2)(_toreal(lift(base)), _toreal(s.t)))
    def __neg__(s): return _mk(-s.t)
    def __pos__(s): return s
    def __abs__(s): return _mk(z3.If(s.t >= 0, s.t, -s.t))
    def conjugate(s): return s
    conj = conjugate
    @property
    def real(s): return s
    @property
    def imag(s): return 0
    # numpy scalars expose shape/ndim; code that handles "scalar or array" results relies on it
    shape = ()
    ndim = 0

    # --- numpy ufunc hooks for object arrays ---------------------------------------
    def sqrt(s): return _mk(uf('sqrt')(_toreal(s.t)))
    def exp(s): return _mk(uf('exp')(_toreal(s.t)))
    def log(s): return _mk(uf('log')(_toreal(s.t)))
    def sin(s): return _mk(uf('sin')(_toreal(s.t)))
    def cos(s): return _mk(uf('cos')(_toreal(s.t)))
    def tan(s): return _mk(uf('tan')(_toreal(s.t)))

    # --- comparisons ---------------------------------------------------------------
    def _cmp(s, o, f):
        if isinstance(o, _np.ndarray):
            res = _np.empty(o.shape, dtype=object)
            for idx in _np.ndindex(*o.shape):
                res[idx] = s._cmp(o[idx], f)
            return res
        if o is None:
            return NotImplemented
        try:
            a, b = _coerce(s.t, lift(o))
        except TypeError:
            return NotImplemented
        return SymB(f(a, b))
    def __lt__(s, o): return s._cmp(o, lambda a, b: a < b)
    def __le__(s, o): return s._cmp(o, lambda a, b: a <= b)
    def __gt__(s, o): return s._cmp(o, lambda a, b: a > b)
    def __ge__(s, o): return s._cmp(o, lambda a, b: a >= b)
    def __eq__(s, o): return s._cmp(o, lambda a, b: a == b)
    def __ne__(s, o): return s._cmp(o, lambda a, b: a != b)
    def __hash__(s): return hash(s.t)

    def __bool__(s):
        return ctx().branch(s.t != 0)

    def __index__(s):
        return ctx().concretize_int(s.t)
    def __int__(s):
        if z3.is_int(s.t):
            return ctx().concretize_int(s.t)
        raise Inconclusive('int() of a symbolic real')
    def __ceil__(s):
        if z3.is_int(s.t): return s
        n = ctx().fresh('ceil', 'int')
        ctx().assume(z3.And(z3.ToReal(n.t) >= s.t, z3.ToReal(n.t) - 1 < s.t))
        return n
    def __floor__(s):
        if z3.is_int(s.t): return s
        n = ctx().fresh('floor', 'int')
        ctx().assume(z3.And(z3.ToReal(n.t) <= s.t, z3.ToReal(n.t) + 1 > s.t))
        return n
    def __float__(s):
        v = _numval(z3.simplify(s.t))
        if v is not None:
            return float(v)
        raise Inconclusive('float() of a symbolic value (float buffer reached): %s' % s)

    def __repr__(s):
        return 'Sym(%s)' % s.t


class SymB(Sym):
    __slots__ = ()
    def __bool__(s):
        return ctx().branch(s.t)
    def __and__(s, o): return SymB(z3.And(s.t, _tobool(o)))
    __rand__ = __and__
    def __or__(s, o): return SymB(z3.Or(s.t, _tobool(o)))
    __ror__ = __or__
    def __invert__(s): return SymB(z3.Not(s.t))
    def __eq__(s, o):
        if isinstance(o, (bool, _np.bool_)): return SymB(s.t == bool(o))
        if isinstance(o, SymB): return SymB(s.t == o.t)
        return Sym._cmp(s, o, lambda a, b: a == b)
    def __hash__(s): return hash(s.t)


def _tobool(o):
    if isinstance(o, Sym):
        return o.t if z3.is_bool(o.t) else (o.t != 0)
    return z3.BoolVal(bool(o))


def _is_zero(o):
    return isinstance(o, (int, float, _np.integer, _np.floating)) and not isinstance(o, bool) and o == 0


def _is_one(o):
    return isinstance(o, (int, float, _np.integer, _np.floating)) and not isinstance(o, bool) and o == 1


def _mk(t):
    if z3.is_bool(t):
        return SymB(t)
    return Sym(t)


# --------------------------------------------------------------------------------------
# contexts / exploration

_CTX = None


def ctx():
    if _CTX is None:
        raise RuntimeError('symbolic value used outside symx.explore')
    return _CTX


class Stats:
    def __init__(self):
        self.paths = 0
        self.aborted = 0
        self.branch_queries = 0
        self.queries = {'unsat': 0, 'sat': 0, 'unknown': 0}
        self.solver_s = 0.0
        self.obligations = {}     # name -> dict(unsat=, sat=, unknown=)
        self.cex = []             # list of dict(name=, model=ModelRef, path=int)
        self.unknown = []         # names
        self.smt2 = []            # sampled exported queries (name, text, answer)
        self.int_forks = 0

    def merge(self, o):
        self.paths += o.paths; self.aborted += o.aborted
        self.branch_queries += o.branch_queries
        for k in self.queries: self.queries[k] += o.queries[k]
        self.solver_s += o.solver_s
        for n, d in o.obligations.items():
            dd = self.obligations.setdefault(n, {'unsat': 0, 'sat': 0, 'unknown': 0})
            for k in d: dd[k] = dd.get(k, 0) + d[k]
        self.cex += o.cex; self.unknown += o.unknown; self.smt2 += o.smt2
        self.int_forks += o.int_forks

    @property
    def total_queries(self):
        return sum(self.queries.values())


class Ctx:
    def __init__(self, decisions, stats, timeout_ms, export_every=0, stop_at_first=True, eqs_first=False, sat_search=False, clear_div=False, lin_relax=False):
        self.eqs_first = eqs_first
        self.lin_relax = lin_relax
        self.sat_search = sat_search
        self.clear_div = clear_div
        self.decisions = decisions     # list of [kind, value]; kind 'T' = alternative still open
        self.pos = 0
        self.pc = []
        self.solver = z3.Solver()
        self.stats = stats
        self.timeout_ms = timeout_ms
        self.cur_timeout_ms = timeout_ms
        self.branch_timeout_ms = min(timeout_ms, 10000)
        self.solver.set('timeout', self.branch_timeout_ms)
        self.export_every = export_every
        self.stop_at_first = stop_at_first
        self.fresh_n = 0

    # -- solver helpers
    def _check(self, *extra, fresh=False):
        """incremental (push/pop) solver for cheap branch queries; a fresh one-shot solver (which may
        use nlsat etc.) for obligations and whenever the incremental core answers unknown"""
        t0 = time.time()
        r = z3.unknown; m = None
        if not fresh:
            self.solver.push()
            self.solver.add(*extra)
            r = self.solver.check()
            m = self.solver.model() if r == z3.sat else None
            self.solver.pop()
        if r == z3.unknown and self.clear_div:
            # division-free form of the whole query (equivalent wherever no divisor vanishes; divisors are constrained
            # to be nonzero -- inputs with a vanishing divisor are outside the claim), then normal-form simplification
            from . import ratnorm
            F, divs = ratnorm.clear(list(self.pc) + list(extra))
            F = F + [d != 0 for d in divs]
            self.stats.divisors = getattr(self.stats, 'divisors', 0) + len(divs)
            g = z3.Goal(); g.add(*F)
            try:
                res = _NORMAL_FORM.apply(g) if False else _nf_apply(g, min(self.cur_timeout_ms, 20000))
            except z3.Z3Exception:
                res = None
            if res is not None and len(res) == 1 and len(res[0]) == 1 and z3.is_false(res[0][0]):
                r = z3.unsat
                # differential guard for the rewriting: the plain solver on the ORIGINAL query must not find a model (short budget;
                # an 'unknown' is the normal outcome for the queries this stage exists for)
                self.stats.nf_unsat = getattr(self.stats, 'nf_unsat', 0) + 1
                if self.stats.nf_unsat % GUARD_EVERY == 1 or GUARD_EVERY == 1:
                    sg = z3.Solver(); sg.set('timeout', 1500)
                    sg.add(*self.pc); sg.add(*extra)
                    for d in divs: sg.add(d != 0)
                    if sg.check() == z3.sat:
                        raise Inconclusive('division clearing disagrees with the plain solver (rewritten query unsat, original query sat)')
            else:
                s = z3.Solver()
                s.set('timeout', self.cur_timeout_ms)
                s.add(*F)
                r = s.check()
                m = s.model() if r == z3.sat else None
            self.stats.solver_s += time.time() - t0
            return str(r), m
        if r == z3.unknown and self.lin_relax and fresh:
            # obligations only: linear relaxation (monomials as atoms); unsat there is a proof, anything else says nothing
            from . import linrelax
            if linrelax.unsat_by_relaxation(list(self.pc) + list(extra), min(self.cur_timeout_ms, 20000)):
                self.stats.lin_relax_unsat = getattr(self.stats, 'lin_relax_unsat', 0) + 1
                self.stats.solver_s += time.time() - t0
                return 'unsat', None
        if r == z3.unknown and self.eqs_first:
            # small portfolio: equation solving + the SMT core first (decides "equal up to rearrangement of
            # (non)linear monomials" instantly where the default strategy can spend a minute), then the default solver
            s = _PORTFOLIO_FIRST.solver()
            s.set('timeout', min(3000, self.cur_timeout_ms))
            s.add(*self.pc); s.add(*extra)
            r = s.check()
            m = s.model() if r == z3.sat else None
        if r == z3.unknown:
            s = z3.Solver()
            s.set('timeout', self.cur_timeout_ms)
            s.add(*self.pc); s.add(*extra)
            r = s.check()
            m = s.model() if r == z3.sat else None
        self.stats.solver_s += time.time() - t0
        return str(r), m

    def assume(self, cond):
        cond = lift(cond)
        self.pc.append(cond)
        self.solver.add(cond)

    def require_feasible(self):
        r, _ = self._check()
        self.stats.branch_queries += 1
        if r == 'unsat':
            raise PathAbort()
        if r == 'unknown':
            raise Inconclusive('path feasibility unknown')

    def branch(self, cond):
        cond = z3.simplify(cond)
        if z3.is_true(cond): return True
        if z3.is_false(cond): return False
        if self.pos < len(self.decisions):
            v = self.decisions[self.pos][1]
        else:
            self.stats.branch_queries += 1
            rt, _ = self._check(cond)
            if rt == 'unknown':
                raise Inconclusive('branch feasibility unknown: %s' % str(cond)[:200])
            if rt == 'unsat':
                v = False
                self.decisions.append(['F', False])
            else:
                self.stats.branch_queries += 1
                rf, _ = self._check(z3.Not(cond))
                if rf == 'unknown':
                    raise Inconclusive('branch feasibility unknown: %s' % str(cond)[:200])
                v = True
                self.decisions.append(['T' if rf == 'sat' else 'F', True])
        self.pos += 1
        c = cond if v else z3.Not(cond)
        self.pc.append(c)
        self.solver.add(c)
        return v

    def concretize_int(self, t):
        t = z3.simplify(t)
        v = _numval(t)
        if v is not None:
            return int(v)
        self.stats.int_forks += 1
        n = 0
        while True:
            # pick a feasible value (deterministic order: smallest first when bounded below)
            if self.pos < len(self.decisions):
                cand = self.decisions[self.pos][2]
            else:
                r, m = self._check()
                self.stats.branch_queries += 1
                if r != 'sat':
                    raise PathAbort() if r == 'unsat' else Inconclusive('int concretisation unknown')
                cand = m.eval(t, model_completion=True).as_long()
            take = self._branch_val(t == cand, cand)
            if take:
                return cand
            n += 1
            if n > 4096:
                raise Inconclusive('unbounded integer concretisation of %s' % t)

    def _branch_val(self, cond, cand):
        if self.pos < len(self.decisions):
            v = self.decisions[self.pos][1]
        else:
            self.stats.branch_queries += 1
            rf, _ = self._check(z3.Not(cond))
            if rf == 'unknown':
                raise Inconclusive('int fork unknown')
            v = True
            self.decisions.append(['T' if rf == 'sat' else 'F', True, cand])
        self.pos += 1
        c = cond if v else z3.Not(cond)
        self.pc.append(c)
        self.solver.add(c)
        return v

    def fresh(self, name, sort='real'):
        self.fresh_n += 1
        nm = '%s!%d' % (name, self.fresh_n)
        if sort == 'real': return Sym(z3.Real(nm))
        if sort == 'int': return Sym(z3.Int(nm))
        if sort == 'bool': return SymB(z3.Bool(nm))
        raise ValueError(sort)

    # -- obligations
    def check(self, prop, name='prop', timeout_ms=None):
        """assert that `prop` holds for all inputs on this path. Returns 'unsat'|'sat'|'unknown'."""
        prop = lift(prop) if not isinstance(prop, (list, tuple)) else z3.And(*[lift(p) for p in prop])
        st = self.stats
        d = st.obligations.setdefault(name, {'unsat': 0, 'sat': 0, 'unknown': 0})
        simp = z3.simplify(prop)
        if z3.is_true(simp):
            # trivially true after simplification: still counts as discharged (by the simplifier)
            d['unsat'] += 1; st.queries['unsat'] += 1
            return 'unsat'
        if self.sat_search and d['sat'] and not self.stop_at_first:
            # this obligation was already refuted on an earlier path: one counterexample per obligation is enough
            d['skipped'] = d.get('skipped', 0) + 1
            return 'sat'
        if timeout_ms:
            self.cur_timeout_ms = timeout_ms
        conj = [prop]
        if self.clear_div and z3.is_and(prop):
            # one query per conjunct: each is a single (dis)equation, which the normal-form stage decides directly
            flat = []
            def _flatten(e):
                if z3.is_and(e):
                    for ch in e.children(): _flatten(ch)
                else:
                    flat.append(e)
            _flatten(prop)
            conj = [cj for cj in flat if not z3.is_true(z3.simplify(cj))] or [prop]
        r, m = 'unsat', None
        for cj in conj:
            rc, mc = self._discharge(z3.Not(cj))
            if rc == 'sat':
                r, m = rc, mc; break
            if rc == 'unknown':
                r = 'unknown'
        self.cur_timeout_ms = self.timeout_ms
        d[r] += 1; st.queries[r] += 1
        if self.export_every and (st.total_queries % self.export_every == 0) and len(st.smt2) < 8:
            s2 = z3.Solver(); s2.add(*self.pc); s2.add(z3.Not(prop))
            st.smt2.append((name, s2.to_smt2(), r))
        if r == 'sat':
            st.cex.append({'name': name, 'model': m, 'path': st.paths})
            if self.stop_at_first:
                raise _StopExploration()
        elif r == 'unknown':
            st.unknown.append(name)
        return r

    def _discharge(self, neg):
        if self.sat_search:
            full = self.cur_timeout_ms
            self.cur_timeout_ms = min(full, 5000)
            r, m = self._check(neg, fresh=True)
            if r == 'unknown':
                r, m = self._model_search(neg)
            if r == 'unknown':
                self.cur_timeout_ms = full
                r, m = self._check(neg, fresh=True)
            self.cur_timeout_ms = full
            return r, m
        return self._check(neg, fresh=True)

    def _model_search(self, neg, tries=8):
        """counterexample search on restrictions: fix a random subset of the free real/int constants to small
        rationals (added as equalities, so a model of the restriction is a model of the original query) and ask the
        solver again.  Can only turn 'unknown' into 'sat'; never produces 'unsat'."""
        import random
        t0 = time.time()
        consts = {}
        def walk(e, seen=set()):
            if e.get_id() in seen: return
            seen.add(e.get_id())
            if z3.is_const(e) and e.decl().kind() == z3.Z3_OP_UNINTERPRETED and (z3.is_real(e) or z3.is_int(e)):
                consts[e.get_id()] = e
            for ch in e.children(): walk(ch, seen)
        seen = set()
        base = list(self.pc) + [neg]
        if self.clear_div:
            from . import ratnorm
            base, divs = ratnorm.clear(base)
            base = base + [d != 0 for d in divs]
        for f in base: walk(f, seen)
        cs = sorted(consts.values(), key=lambda e: str(e))
        rnd = random.Random(len(cs) * 7919 + 13)
        res = ('unknown', None)
        for k in range(tries):
            frac = (0.5, 0.7, 0.85, 0.6, 0.9, 0.75, 0.95, 0.8)[k % 8]
            s = z3.Solver(); s.set('timeout', 3000)
            s.add(*base)
            for e in cs:
                if rnd.random() < frac:
                    v = rnd.choice([-3, -2, -1, 1, 2, 3, 4, 5]) if z3.is_int(e) else z3.RealVal(Fraction(rnd.randint(-7, 9), rnd.choice([1, 1, 2, 3])))
                    s.add(e == v)
            if s.check() == z3.sat:
                res = ('sat', s.model()); break
        self.stats.solver_s += time.time() - t0
        return res

    def witness(self, name='reach'):
        """vacuity guard: the path reaching this point must be satisfiable"""
        r, _ = self._check(fresh=True)
        d = self.stats.obligations.setdefault('reach:' + name, {'unsat': 0, 'sat': 0, 'unknown': 0})
        d[r] += 1
        return r == 'sat'


import os as _os
GUARD_EVERY = int(_os.environ.get('VERIF_GUARD_EVERY', '1' if _os.environ.get('VERIF_TIER') == 'thorough' else '12'))
_PORTFOLIO_FIRST = z3.Then('simplify', 'solve-eqs', 'smt')
_NORMAL_FORM = z3.Then(z3.With('simplify', som=True), 'solve-eqs', z3.With('simplify', som=True))


def _nf_apply(goal, timeout_ms):
    return z3.TryFor(_NORMAL_FORM, timeout_ms).apply(goal)


class _StopExploration(BaseException):
    pass


def explore(fn, timeout_ms=30000, max_paths=20000, export_every=0, stop_at_first=True, wall_budget_s=None,
            catch_exceptions=True, eqs_first=False, sat_search=False, clear_div=False, lin_relax=False):
    """Run `fn(ctx)` once per feasible path.  `fn` creates its symbolic inputs (plain z3 consts
    wrapped in Sym), calls ctx.assume(...) for preconditions, runs the code under test and states
    obligations with ctx.check(...).  Returns Stats."""
    global _CTX
    stats = Stats()
    decisions = []
    t0 = time.time()
    prev = _CTX
    try:
        while True:
            c = Ctx(decisions, stats, timeout_ms, export_every, stop_at_first, eqs_first, sat_search, clear_div, lin_relax)
            _CTX = c
            try:
                fn(c)
            except PathAbort:
                stats.aborted += 1
            except _StopExploration:
                stats.paths += 1
                break
            except Inconclusive:
                raise
            except Exception as e:
                # the code under test raised on a feasible path: a candidate violation ("route fails")
                if not catch_exceptions:
                    raise
                import traceback as _tb
                r, m = c._check(fresh=True)
                if r == 'sat':
                    d = stats.obligations.setdefault('no-exception', {'unsat': 0, 'sat': 0, 'unknown': 0})
                    d['sat'] += 1; stats.queries['sat'] += 1
                    stats.cex.append({'name': 'exception %s: %s' % (type(e).__name__, str(e)[:200]), 'model': m,
                                      'path': stats.paths, 'traceback': _tb.format_exc()[-1500:]})
                    if stop_at_first:
                        stats.paths += 1
                        break
                elif r == 'unknown':
                    raise Inconclusive('exception on a path of unknown feasibility: %r' % e)
            stats.paths += 1
            decisions = c.decisions[:c.pos] if c.pos < len(c.decisions) else c.decisions
            while decisions and not (decisions[-1][0] == 'T' and decisions[-1][1] is True):
                decisions.pop()
            if not decisions:
                break
            last = decisions[-1]
            decisions[-1] = ['X', False] + last[2:]
            if stats.paths >= max_paths:
                raise Inconclusive('path budget %d exhausted' % max_paths)
            if wall_budget_s and time.time() - t0 > wall_budget_s:
                raise Inconclusive('wall budget %.0fs exhausted after %d paths' % (wall_budget_s, stats.paths))
    finally:
        _CTX = prev
    stats.wall_s = time.time() - t0
    return stats


# --------------------------------------------------------------------------------------
# convenience constructors

def real(name): return Sym(z3.Real(name))
def integer(name): return Sym(z3.Int(name))
def boolean(name): return SymB(z3.Bool(name))


def symarray(name, shape, sort='real'):
    if isinstance(shape, int): shape = (shape,)
    a = _np.empty(shape, dtype=object)
    mk = z3.Real if sort == 'real' else z3.Int
    for idx in _np.ndindex(*shape):
        a[idx] = Sym(mk(name + '_' + '_'.join(map(str, idx))))
    return a


def lift_all(arr):
    """flat list of z3 terms of an (object) array / nested list / scalar"""
    a = _np.asarray(arr, dtype=object)
    return [lift(x) for x in a.ravel()]


def eq_arrays(a, b):
    """z3 conjunction: arrays equal entrywise (shapes must match concretely)"""
    a = _np.asarray(a, dtype=object); b = _np.asarray(b, dtype=object)
    if a.shape != b.shape:
        return z3.BoolVal(False)
    cs = []
    for x, y in zip(a.ravel(), b.ravel()):
        xa, ya = _coerce(lift(x), lift(y))
        cs.append(xa == ya)
    return z3.And(*cs) if cs else z3.BoolVal(True)


def model_value(m, x):
    """concrete Fraction/int/bool of term or Sym under model m"""
    t = lift(x)
    v = m.eval(t, model_completion=True)
    if z3.is_bool(v):
        return z3.is_true(v)
    nv = _numval(v)
    if nv is not None:
        return nv
    if z3.is_algebraic_value(v):
        a = v.approx(30)
        return Fraction(a.numerator_as_long(), a.denominator_as_long())
    raise Inconclusive('cannot evaluate %s in model' % t)


def model_dict(m):
    out = {}
    for d in m.decls():
        if d.arity() == 0:
            try:
                v = model_value(m, d())
                out[d.name()] = (str(v) if isinstance(v, Fraction) else v)
            except Exception:
                out[d.name()] = str(m[d])
    return out
