"""fpmodel -- two models of IEEE-754 double arithmetic for code whose property is ABOUT rounding (C19).

FPv : exact z3 FloatingPoint (Float64, round-to-nearest-even).  Used for bug hunting: every model is a
      tuple of doubles that is replayed on the real numpy.
SMv : the standard model of floating-point arithmetic over the reals: fl(x op y) = (x op y)(1 + d),
      |d| <= 2^-53, a fresh d per operation (valid for round-to-nearest in the normal range, no
      overflow/underflow).  It OVER-approximates rounding, so `unsat` is sound for doubles; `sat` is only a
      candidate and must be replayed.

SymSeq models a numpy 1-D array of symbolic LENGTH: (length term, element function of a symbolic index),
with the numpy calls used by make_knots as stubs implementing their documented algorithm:
  np.arange(start, stop, step) (floats): length ceil((stop-start)/step) evaluated in double arithmetic,
                                         element i = start + i*delta, delta = (start+step) - start
  np.arange(i0, i1) (ints): exact;  np.linspace(a, b, m): a + i*((b-a)/(m-1)), last element exactly b
  np.repeat, np.concatenate, slicing [k:], [:-k], elementwise + - * / with scalars
"""
from fractions import Fraction
import z3

U = Fraction(1, 2 ** 53)


class Model:
    pass


class FPModel(Model):
    name = 'exact IEEE-754 double (QF_FP)'
    def __init__(self):
        self.sort = z3.Float64(); self.rm = z3.RNE(); self.side = []
    def const(self, x): return FPv(self, z3.FPVal(float(x), self.sort))
    def var(self, name): return FPv(self, z3.FP(name, self.sort))
    # integers are represented by integral doubles (exact below 2^53): no Int<->FP conversions in the query
    def int_var(self, name, bits=12):
        bv = z3.BitVec(name, bits)
        self.int_bv = bv
        return MInt(self, z3.fpUnsignedToFP(self.rm, bv, self.sort))
    def int_const(self, k): return MInt(self, z3.FPVal(float(k), self.sort))
    def from_int(self, it):
        if isinstance(it, MInt): return FPv(self, it.t)
        return self.const(float(it))
    def ceil_int(self, v):
        return MInt(self, z3.fpRoundToIntegral(z3.RTP(), v.t))
    def real(self, v): return z3.fpToReal(v.t)
    def int_add(self, a, b): return z3.fpAdd(self.rm, a, b)
    def int_sub(self, a, b): return z3.fpSub(self.rm, a, b)
    def int_eq(self, a, b): return z3.fpEQ(a, b)
    def int_lt(self, a, b): return z3.fpLT(a, b)
    def int_le(self, a, b): return z3.fpLEQ(a, b)
    def int_lit(self, k): return z3.FPVal(float(k), self.sort)


class FPv:
    def __init__(self, m, t): self.m, self.t = m, t
    def _l(self, o):
        if isinstance(o, FPv): return o.t
        if isinstance(o, (int, float)): return z3.FPVal(float(o), self.m.sort)
        if isinstance(o, MInt): return o.t
        raise TypeError(type(o))
    def __add__(s, o):
        if isinstance(o, (SymSeq, _Elementwise)): return NotImplemented
        return FPv(s.m, z3.fpAdd(s.m.rm, s.t, s._l(o)))
    def __radd__(s, o):
        if isinstance(o, (SymSeq, _Elementwise)): return NotImplemented
        return FPv(s.m, z3.fpAdd(s.m.rm, s._l(o), s.t))
    def __sub__(s, o):
        if isinstance(o, (SymSeq, _Elementwise)): return NotImplemented
        return FPv(s.m, z3.fpSub(s.m.rm, s.t, s._l(o)))
    def __rsub__(s, o):
        if isinstance(o, (SymSeq, _Elementwise)): return NotImplemented
        return FPv(s.m, z3.fpSub(s.m.rm, s._l(o), s.t))
    def __mul__(s, o):
        if isinstance(o, (SymSeq, _Elementwise)): return NotImplemented
        return FPv(s.m, z3.fpMul(s.m.rm, s.t, s._l(o)))
    def __rmul__(s, o):
        if isinstance(o, (SymSeq, _Elementwise)): return NotImplemented
        return FPv(s.m, z3.fpMul(s.m.rm, s._l(o), s.t))
    def __truediv__(s, o):
        if isinstance(o, (SymSeq, _Elementwise)): return NotImplemented
        return FPv(s.m, z3.fpDiv(s.m.rm, s.t, s._l(o)))
    def __rtruediv__(s, o):
        if isinstance(o, (SymSeq, _Elementwise)): return NotImplemented
        return FPv(s.m, z3.fpDiv(s.m.rm, s._l(o), s.t))
    def lt(s, o): return z3.fpLT(s.t, s._l(o))
    def le(s, o): return z3.fpLEQ(s.t, s._l(o))
    def eq(s, o): return z3.fpEQ(s.t, s._l(o))


class SMModel(Model):
    name = 'standard model of floating-point arithmetic (reals, |delta| <= 2^-53 per operation)'
    def __init__(self):
        self.side = []; self.n = 0
    def delta(self):
        self.n += 1
        d = z3.Real('delta!%d' % self.n)
        self.side.append(z3.And(d >= -z3.RealVal(U), d <= z3.RealVal(U)))
        return d
    def const(self, x): return SMv(self, z3.RealVal(Fraction(float(x))))
    def var(self, name): return SMv(self, z3.Real(name))
    def int_var(self, name, bits=None): return MInt(self, z3.Int(name))
    def int_const(self, k): return MInt(self, z3.IntVal(int(k)))
    def from_int(self, it):
        if isinstance(it, MInt): return SMv(self, z3.ToReal(it.t))
        return SMv(self, z3.RealVal(int(it)))
    def ceil_int(self, v):
        self.n += 1
        k = z3.Int('ceil!%d' % self.n)
        self.side.append(z3.And(z3.ToReal(k) >= v.t, z3.ToReal(k) - 1 < v.t))
        return MInt(self, k)
    def real(self, v): return v.t
    def int_add(self, a, b): return a + b
    def int_sub(self, a, b): return a - b
    def int_eq(self, a, b): return a == b
    def int_lt(self, a, b): return a < b
    def int_le(self, a, b): return a <= b
    def int_lit(self, k): return z3.IntVal(int(k))


class SMv:
    def __init__(self, m, t): self.m, self.t = m, t
    def _l(self, o):
        if isinstance(o, SMv): return o.t
        if isinstance(o, (int, float)): return z3.RealVal(Fraction(float(o)))
        if isinstance(o, MInt): return z3.ToReal(o.t)
        raise TypeError(type(o))
    def _r(s, t): return SMv(s.m, t * (1 + s.m.delta()))
    def __add__(s, o):
        if isinstance(o, (SymSeq, _Elementwise)): return NotImplemented
        return s._r(s.t + s._l(o))
    def __radd__(s, o):
        if isinstance(o, (SymSeq, _Elementwise)): return NotImplemented
        return s._r(s._l(o) + s.t)
    def __sub__(s, o):
        if isinstance(o, (SymSeq, _Elementwise)): return NotImplemented
        return s._r(s.t - s._l(o))
    def __rsub__(s, o):
        if isinstance(o, (SymSeq, _Elementwise)): return NotImplemented
        return s._r(s._l(o) - s.t)
    def __mul__(s, o):
        if isinstance(o, (SymSeq, _Elementwise)): return NotImplemented
        return s._r(s.t * s._l(o))
    def __rmul__(s, o):
        if isinstance(o, (SymSeq, _Elementwise)): return NotImplemented
        return s._r(s._l(o) * s.t)
    def __truediv__(s, o):
        if isinstance(o, (SymSeq, _Elementwise)): return NotImplemented
        return s._r(s.t / s._l(o))
    def __rtruediv__(s, o):
        if isinstance(o, (SymSeq, _Elementwise)): return NotImplemented
        return s._r(s._l(o) / s.t)
    def lt(s, o): return s.t < s._l(o)
    def le(s, o): return s.t <= s._l(o)
    def eq(s, o): return s.t == s._l(o)


class MInt:
    """symbolic python int (exact) in the representation of the arithmetic model"""
    def __init__(self, m, t): self.m, self.t = m, t
    def _l(self, o): return o.t if isinstance(o, MInt) else self.m.int_lit(o)
    def __add__(s, o): return MInt(s.m, s.m.int_add(s.t, s._l(o)))
    __radd__ = __add__
    def __sub__(s, o): return MInt(s.m, s.m.int_sub(s.t, s._l(o)))
    def __rsub__(s, o): return MInt(s.m, s.m.int_sub(s._l(o), s.t))
    def __mul__(s, o):
        if isinstance(o, (FPv, SMv)): return s.m.from_int(s) * o
        raise Unsupported('int * int')
    __rmul__ = __mul__
    def eq(s, o): return s.m.int_eq(s.t, s._l(o))
    def lt(s, o): return s.m.int_lt(s.t, s._l(o))
    def le(s, o): return s.m.int_le(s.t, s._l(o))
    def __index__(self): raise TypeError('symbolic int used as index')


SymInt = MInt


class Unsupported(Exception):
    pass


class SymSeq:
    """1-D array of symbolic length: elem(i) for a z3 Int index term i in [0, length)"""
    def __init__(self, m, length, elem, kind='float'):
        self.m, self.length, self.elem, self.kind = m, length, elem, kind
    def __getitem__(self, sl):
        if isinstance(sl, slice):
            start = sl.start or 0
            stop = sl.stop
            if sl.step not in (None, 1) or start < 0: raise Unsupported('slice %r' % (sl,))
            if stop is None:
                return SymSeq(self.m, self.length - start, lambda i, s=start: self.elem(i + s), self.kind)
            if stop < 0:
                return SymSeq(self.m, self.length - (start - stop), lambda i, s=start: self.elem(i + s), self.kind)
            raise Unsupported('slice %r' % (sl,))
        raise Unsupported('index %r' % (sl,))
    def _map(self, f, kind='float'):
        return SymSeq(self.m, self.length, lambda i: f(self.elem(i)), kind)
    def _num(self, x):
        if self.kind == 'int': return self.m.from_int(x)
        return x
    def __mul__(s, o): return s._map(lambda e: s._num(e) * o)
    def __rmul__(s, o): return s._map(lambda e: o * s._num(e))
    def __add__(s, o): return s._map(lambda e: s._num(e) + o)
    def __radd__(s, o): return s._map(lambda e: o + s._num(e))
    def __sub__(s, o): return s._map(lambda e: s._num(e) - o)
    def __truediv__(s, o): return s._map(lambda e: s._num(e) / o)


class _Elementwise:
    """elementwise arithmetic with a scalar distributes over repeat / concatenate (a restructured but equivalent way to build the array)"""
    def _lift(self, f): raise NotImplementedError
    def __mul__(s, o): return s._lift(lambda e: e * o)
    def __rmul__(s, o): return s._lift(lambda e: o * e)
    def __add__(s, o): return s._lift(lambda e: e + o)
    def __radd__(s, o): return s._lift(lambda e: o + e)
    def __sub__(s, o): return s._lift(lambda e: e - o)
    def __truediv__(s, o): return s._lift(lambda e: e / o)


def _ew(x, f):
    """apply the scalar function f to every element of x (scalar, SymSeq, Repeat or Concat)"""
    if isinstance(x, (Repeat, Concat)): return x._lift(f)
    if isinstance(x, SymSeq): return x._map(lambda e: f(x._num(e)))
    if isinstance(x, MInt): return f(x.m.from_int(x)) if hasattr(x, 'm') else f(x)
    return f(x)


class Repeat(_Elementwise):
    def __init__(self, x, times): self.x, self.times = x, times
    def _lift(self, f): return Repeat(_ew(self.x, f), self.times)


class Concat(_Elementwise):
    def __init__(self, parts): self.parts = list(parts)
    def _lift(self, f): return Concat([_ew(q, f) for q in self.parts])


class NPStub:
    """the numpy calls of make_knots"""
    def __init__(self, m): self.m = m
    def arange(self, *args):
        m = self.m
        if len(args) == 3:
            start, stop, step = args
            if isinstance(start, (FPv, SMv)) or isinstance(step, (FPv, SMv)) or isinstance(stop, (FPv, SMv)):
                start = start if isinstance(start, (FPv, SMv)) else m.const(start)
                L = m.ceil_int((stop - start) / step)
                second = start + step
                delta = second - start
                return SymSeq(m, L, lambda i: start + (m.from_int(i) * delta))
        if len(args) in (1, 2):
            lo, hi = (0, args[0]) if len(args) == 1 else args
            lo = lo if isinstance(lo, MInt) else m.int_const(lo); hi = hi if isinstance(hi, MInt) else m.int_const(hi)
            return SymSeq(m, hi - lo, lambda i: i + lo, kind='int')
        raise Unsupported('np.arange%r' % (args,))
    def linspace(self, a, b, num, endpoint=True):
        m = self.m
        nt = num if isinstance(num, MInt) else m.int_const(num)
        if not endpoint: raise Unsupported('linspace endpoint=False')
        a = a if isinstance(a, (FPv, SMv)) else m.const(a)
        step = (b - a) / m.from_int(nt - 1)
        # numpy: y = arange(0, num) * step + start; y[-1] = stop
        bb = b if isinstance(b, (FPv, SMv)) else m.const(b)
        def el(i):
            v = m.from_int(i) * step + a
            return type(v)(m, z3.If(i.eq(nt - 1), bb.t, v.t))
        return SymSeq(m, nt, el)
    def repeat(self, x, times): return Repeat(x, times)
    def concatenate(self, parts): return Concat(parts)
