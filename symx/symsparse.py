"""symsparse -- dense-object model of the scipy.sparse calls used by the encoded functions.

A *stub with a contract*: a sparse matrix is modelled by the dense object array it denotes
(duplicates in COO/CSR construction are summed, as scipy does).  Only the calls that the encoded
pyiga functions make are provided; anything else raises AttributeError (harness error).
"""
import numpy as _np
import scipy.sparse as _sp
from .core import Sym


def _obj(a):
    if _sp.issparse(a):
        a = a.toarray()
    if isinstance(a, SpMat):
        return a.a
    a = _np.asarray(a)
    if a.dtype != object:
        a = a.astype(object)
    return a


class SpMat:
    __array_priority__ = 2000
    def __init__(self, a, fmt='csr'):
        self.a = _obj(a)
        if self.a.ndim == 1:
            self.a = self.a.reshape(1, -1)
        self.format = fmt
    @property
    def shape(self): return self.a.shape
    @property
    def dtype(self): return _np.dtype(float)
    @property
    def ndim(self): return 2
    @property
    def T(self): return SpMat(self.a.T, self.format)
    def transpose(self): return self.T
    def conj(self): return self
    conjugate = conj
    @property
    def A(self): return self.a
    @property
    def A1(self): return self.a.ravel()
    def toarray(self): return self.a
    todense = toarray
    def tocsr(self, copy=False): return SpMat(self.a, 'csr')
    def tocsc(self, copy=False): return SpMat(self.a, 'csc')
    def tocoo(self, copy=False): return SpMat(self.a, 'coo')
    def tolil(self, copy=False): return SpMat(self.a.copy(), 'lil')
    def tobsr(self, *a, **k): return SpMat(self.a, 'bsr')
    def asformat(self, fmt, copy=False): return SpMat(self.a.copy() if copy else self.a, fmt or self.format)
    def copy(self): return SpMat(self.a.copy(), self.format)
    def diagonal(self): return _np.array([self.a[i, i] for i in range(min(self.a.shape))], dtype=object)
    def nonzero(self):
        I, J = [], []
        for i in range(self.a.shape[0]):
            for j in range(self.a.shape[1]):
                e = self.a[i, j]
                if isinstance(e, Sym) or e != 0:
                    I.append(i); J.append(j)
        return _np.array(I, dtype=int), _np.array(J, dtype=int)
    def __array__(self, dtype=None, copy=None):
        return self.a
    def __getitem__(self, idx):
        if isinstance(idx, tuple):
            idx = tuple(i.astype(int) if isinstance(i, _np.ndarray) and i.dtype == object else i for i in idx)
        r = self.a[idx]
        if isinstance(idx, tuple) and len(idx) == 2 and all(isinstance(i, _np.ndarray) for i in idx) and r.ndim == 1:
            return SpMat(r.reshape(1, -1))      # scipy returns a 1 x n matrix for paired fancy indexing
        if isinstance(r, _np.ndarray) and r.ndim == 2:
            return SpMat(r, self.format)
        if isinstance(r, _np.ndarray) and r.ndim == 1:
            return SpMat(r.reshape(1, -1) if not (isinstance(idx, tuple) and isinstance(idx[1], (int, _np.integer))) else r.reshape(-1, 1))
        return r
    def __setitem__(self, idx, v):
        self.a[idx] = v.a if isinstance(v, SpMat) else v
    def _mul(self, o):
        if isinstance(o, SpMat): return SpMat(self.a.dot(o.a))
        if _sp.issparse(o): return SpMat(self.a.dot(_obj(o)))
        if _np.isscalar(o) or isinstance(o, Sym): return SpMat(self.a * o)
        return self.a.dot(_np.asarray(o, dtype=object) if not (isinstance(o, _np.ndarray)) else o)
    def dot(self, o): return self._mul(o)
    __matmul__ = _mul
    __mul__ = _mul
    def __rmul__(self, o):
        if _np.isscalar(o) or isinstance(o, Sym): return SpMat(self.a * o)
        return SpMat(_obj(o).dot(self.a))
    def __rmatmul__(self, o):
        r = _obj(o).dot(self.a)
        return SpMat(r) if (isinstance(o, SpMat) or _sp.issparse(o)) else r
    def __add__(self, o): return SpMat(self.a + _obj(o))
    __radd__ = __add__
    def __sub__(self, o): return SpMat(self.a - _obj(o))
    def __rsub__(self, o): return SpMat(_obj(o) - self.a)
    def __neg__(self): return SpMat(-self.a)
    def __truediv__(self, o): return SpMat(self.a / o)
    def multiply(self, o): return SpMat(self.a * _obj(o))
    def sum(self, axis=None): return self.a.sum(axis=axis)
    def getrow(self, i): return SpMat(self.a[i:i + 1])
    # CSR view: structural entries = everything that is not the concrete number 0
    def _csr(self):
        indptr = [0]; indices = []; data = []
        for i in range(self.a.shape[0]):
            for j in range(self.a.shape[1]):
                e = self.a[i, j]
                if isinstance(e, Sym) or e != 0:
                    indices.append(j); data.append(e)
            indptr.append(len(indices))
        d = _np.empty(len(data), dtype=object)
        for k, e in enumerate(data): d[k] = e
        return _np.array(indptr, dtype=_np.int32), _np.array(indices, dtype=_np.int32), d
    @property
    def indptr(self): return self._csr()[0]
    @property
    def indices(self): return self._csr()[1]
    @property
    def data(self): return self._csr()[2]
    def eliminate_zeros(self): pass
    def sort_indices(self): pass
    def sum_duplicates(self): pass


def _from_triplets(data, I, J, shape):
    data = _np.asarray(data, dtype=object).ravel() if not isinstance(data, _np.ndarray) else data.ravel()
    I = [int(i) for i in _np.asarray(I).ravel()]
    J = [int(j) for j in _np.asarray(J).ravel()]
    if shape is None:
        shape = (max(I) + 1 if I else 0, max(J) + 1 if J else 0)
    a = _np.empty(shape, dtype=object); a[...] = 0
    for d, i, j in zip(data, I, J):
        a[i, j] = a[i, j] + d
    return a


class _Facade:
    SpMat = SpMat
    def issparse(self, x): return isinstance(x, SpMat) or _sp.issparse(x) or getattr(x, '_is_sparse_stub', False)
    isspmatrix = issparse
    def isspmatrix_csr(self, x): return (isinstance(x, SpMat) and x.format == 'csr') or getattr(x, '_is_csr_stub', False) or _sp.isspmatrix_csr(x)
    def eye(self, n, m=None, k=0, dtype=None, format=None):
        m = n if m is None else m
        a = _np.empty((n, m), dtype=object); a[...] = 0
        for i in range(n):
            if 0 <= i + k < m: a[i, i + k] = 1
        return SpMat(a, format or 'dia')
    identity = eye
    def _construct(self, arg, shape=None, fmt='csr', **kw):
        if isinstance(arg, SpMat): return SpMat(arg.a, fmt)
        if isinstance(arg, tuple) and len(arg) == 2 and isinstance(arg[1], tuple):
            data, (I, J) = arg
            return SpMat(_from_triplets(data, I, J, shape), fmt)
        if isinstance(arg, tuple) and len(arg) == 3:
            data, indices, indptr = arg
            data = _np.asarray(data, dtype=object)
            n = len(indptr) - 1
            I = [i for i in range(n) for _ in range(int(indptr[i]), int(indptr[i + 1]))]
            return SpMat(_from_triplets(data, I, indices, shape), fmt)
        if isinstance(arg, tuple) and len(arg) == 2 and all(isinstance(v, (int, _np.integer)) for v in arg):
            a = _np.empty(arg, dtype=object); a[...] = 0
            return SpMat(a, fmt)
        return SpMat(_obj(arg), fmt)
    def csr_matrix(self, arg, shape=None, **kw): return self._construct(arg, shape, 'csr')
    def csc_matrix(self, arg, shape=None, **kw): return self._construct(arg, shape, 'csc')
    def coo_matrix(self, arg, shape=None, **kw): return self._construct(arg, shape, 'coo')
    def lil_matrix(self, arg, shape=None, **kw): return self._construct(arg, shape, 'lil')
    def bsr_matrix(self, arg, shape=None, **kw): return self._construct(arg, shape, 'bsr')
    def kron(self, A, B, format=None):
        return SpMat(_np.kron(_obj(A), _obj(B)), format or 'csr')
    def diags(self, d, offsets=0, shape=None, format=None, **kw):
        d = _np.asarray(d, dtype=object)
        n = len(d)
        a = _np.empty((n, n), dtype=object); a[...] = 0
        for i in range(n): a[i, i] = d[i]
        return SpMat(a, format or 'dia')
    def spdiags(self, data, diags, m, n, format=None):
        data = _np.asarray(data, dtype=object)
        if data.ndim == 1: data = data.reshape(1, -1)
        diags = _np.atleast_1d(diags)
        a = _np.empty((m, n), dtype=object); a[...] = 0
        for r, k in enumerate(diags):
            for j in range(n):
                i = j - int(k)
                if 0 <= i < m: a[i, j] = data[r, j]
        return SpMat(a, format or 'dia')
    def bmat(self, blocks, format=None):
        rows = []
        for r in blocks:
            rows.append(_np.hstack([_obj(b) for b in r]))
        return SpMat(_np.vstack(rows), format or 'coo')
    def hstack(self, blocks, format=None): return SpMat(_np.hstack([_obj(b) for b in blocks]), format or 'coo')
    def vstack(self, blocks, format=None): return SpMat(_np.vstack([_obj(b) for b in blocks]), format or 'coo')
    def block_diag(self, mats, format=None):
        mats = [_obj(m) for m in mats]
        M = sum(m.shape[0] for m in mats); N = sum(m.shape[1] for m in mats)
        a = _np.empty((M, N), dtype=object); a[...] = 0
        i = j = 0
        for m in mats:
            a[i:i + m.shape[0], j:j + m.shape[1]] = m; i += m.shape[0]; j += m.shape[1]
        return SpMat(a, format or 'coo')


def sparse_facade():
    return _Facade()
