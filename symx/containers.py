"""Symbolic containers for inductive-step harnesses (symbolic PRE-STATE of a data structure).

SymDict     dict  int-key -> int value over a fixed finite key domain; value -1 encodes "absent"
SymSetList  list of sets of (patch, index) pairs with symbolic length and symbolic membership
"""
import z3
from .core import Sym, SymB, lift, ctx, PathAbort, Inconclusive


def ite_chain(key, table, default):
    r = default
    for k, v in table.items():
        r = z3.If(key == k, v, r)
    return r


class SymDict:
    def __init__(self, vals):
        self.vals = dict(vals)          # concrete key -> z3 Int term (-1 == absent)

    def __contains__(self, key):
        k = lift(key)
        return bool(SymB(ite_chain(k, {kk: v >= 0 for kk, v in self.vals.items()}, z3.BoolVal(False))))

    def __getitem__(self, key):
        k = lift(key)
        return Sym(ite_chain(k, self.vals, z3.IntVal(-1)))

    def __setitem__(self, key, val):
        k = lift(key); v = lift(val)
        for kk in self.vals:
            self.vals[kk] = z3.If(k == kk, v, self.vals[kk])

    def get(self, key, default=None):
        if key in self:
            return self[key]
        return default

    def items(self):
        # concretise: fork on presence of every key
        out = []
        for kk, v in self.vals.items():
            if bool(SymB(v >= 0)):
                out.append((kk, Sym(v)))
        return out

    def keys(self):
        return [k for k, _ in self.items()]

    def __iter__(self):
        return iter(self.keys())

    def __len__(self):
        n = 0
        for kk, v in self.vals.items():
            if bool(SymB(v >= 0)): n += 1
        return n


class _SetView:
    def __init__(self, owner, sd):
        self.owner, self.sd = owner, sd

    def add(self, item):
        p, i = item
        i = lift(i); sd = lift(self.sd); p_t = lift(p)
        mem = self.owner.mem
        for s in range(self.owner.cap):
            for (pp, ii) in self.owner.domain:
                mem[s][(pp, ii)] = z3.Or(mem[s][(pp, ii)], z3.And(sd == s, p_t == pp, i == ii))

    def discard(self, item):
        p, i = item
        i = lift(i); sd = lift(self.sd); p_t = lift(p)
        mem = self.owner.mem
        for s in range(self.owner.cap):
            for (pp, ii) in self.owner.domain:
                mem[s][(pp, ii)] = z3.And(mem[s][(pp, ii)], z3.Not(z3.And(sd == s, p_t == pp, i == ii)))
    remove = discard

    def __iter__(self):
        # members of the set with symbolic id sd: fork on the id, then on membership
        s = Sym(lift(self.sd)).__index__()
        out = []
        for (pp, ii) in self.owner.domain:
            if bool(SymB(self.owner.mem[s][(pp, ii)])):
                out.append((pp, ii))
        return iter(out)

    def __len__(self):
        return len(list(iter(self)))

    def __bool__(self):
        return len(self) > 0

    def clear(self):
        sd = lift(self.sd)
        mem = self.owner.mem
        for s in range(self.owner.cap):
            for key in self.owner.domain:
                mem[s][key] = z3.And(mem[s][key], sd != s)

    def update(self, items):
        for it in items: self.add(it)

    def __ior__(self, other):
        for it in other: self.add(it)
        return self


class SymSetList:
    def __init__(self, length, mem, cap, domain):
        self.length = length     # z3 Int term
        self.mem = mem           # mem[s][(p,i)] z3 Bool
        self.cap = cap
        self.domain = list(domain)

    def __len__(self):
        v = Sym(self.length).__index__()
        self.length = z3.IntVal(v)
        return v

    def append(self, s):
        assert isinstance(s, (set, frozenset)) and not s
        v = len(self)
        if v >= self.cap:
            raise Inconclusive('SymSetList capacity exceeded')
        self.length = z3.IntVal(v + 1)

    def __getitem__(self, sd):
        return _SetView(self, sd)

    def __setitem__(self, sd, value):
        view = _SetView(self, sd)
        view.clear()
        for it in value: view.add(it)

    def __iter__(self):
        return iter([_SetView(self, s) for s in range(len(self))])
