"""ratnorm -- clear divisions from z3 real-arithmetic formulas.

Every real-sorted term is rewritten to a pair (num, den) of division-free terms with  term = num/den, every atom
`s ~ t` to the division-free atom it is equivalent to **when all divisors are nonzero**:

    a/b == c/d   <=>   a*d == c*b
    a/b <= c/d   <=>   (a*d - c*b) * (b*d) <= 0          (since (b*d)^2 > 0)

The divisors met on the way are returned; the caller adds `d != 0` for each of them, so the rewritten query is
equivalent to the original one on the set of inputs where no division by zero occurs (what lies outside is outside the
claim and is stated as such).  z3's own treatment of x/y (an uninterpreted value at y = 0 plus non-linear reasoning
through the defining equation) makes quotient identities like  (V/w + o)*w / W == V/W + o  very slow; the cross-multiplied
form is a polynomial identity that the simplifier/nlsat decides at once.
"""
import z3

_ARITH_CMP = {z3.Z3_OP_LE, z3.Z3_OP_LT, z3.Z3_OP_GE, z3.Z3_OP_GT}


class Norm:
    def __init__(self):
        self.memo = {}
        self.divisors = {}

    def _one(self): return z3.RealVal(1)

    def frac(self, t):
        k = t.get_id()
        r = self.memo.get(k)
        if r is not None: return r
        r = self._frac(t)
        self.memo[k] = r
        return r

    def _frac(self, t):
        if not z3.is_app(t) or z3.is_int(t):
            return (z3.ToReal(t) if z3.is_int(t) else t, None)
        kind = t.decl().kind()
        ch = t.children()
        if kind == z3.Z3_OP_ADD or kind == z3.Z3_OP_SUB:
            fs = [self.frac(c) for c in ch]
            if all(d is None for _, d in fs):
                return (t, None)
            # common denominator = product of the distinct denominators
            dens = []
            for _, d in fs:
                if d is not None and not any(z3.eq(d, e) for e in dens): dens.append(d)
            D = dens[0]
            for e in dens[1:]: D = D * e
            nums = []
            for n, d in fs:
                m = n
                for e in dens:
                    if d is None or not z3.eq(d, e): m = m * e
                nums.append(m)
            if kind == z3.Z3_OP_ADD:
                N = nums[0]
                for m in nums[1:]: N = N + m
            else:
                N = nums[0]
                for m in nums[1:]: N = N - m
            return (N, D)
        if kind == z3.Z3_OP_UMINUS:
            n, d = self.frac(ch[0])
            return (-n, d)
        if kind == z3.Z3_OP_MUL:
            fs = [self.frac(c) for c in ch]
            if all(d is None for _, d in fs):
                return (t, None)
            N = fs[0][0]; D = fs[0][1]
            for n, d in fs[1:]:
                N = N * n
                D = d if D is None else (D if d is None else D * d)
            return (N, D)
        if kind == z3.Z3_OP_DIV:
            (an, ad), (bn, bd) = self.frac(ch[0]), self.frac(ch[1])
            # (an/ad) / (bn/bd) = an*bd / (ad*bn); divisor of the original term: ch[1] != 0  <=> bn != 0 (bd != 0 already recorded)
            self.divisors[bn.get_id()] = bn
            N = an if bd is None else an * bd
            D = bn if ad is None else ad * bn
            return (N, D)
        if kind == z3.Z3_OP_TO_REAL:
            return (t, None)
        if kind == z3.Z3_OP_ITE and z3.is_real(t):
            # if-then-else terms stay OPAQUE: a division inside a branch is guarded by the condition (e.g. the 0/0 := 0 convention
            # ite(d = 0, 0, x/d)), so its divisor must not be asserted non-zero globally and the branches must not be brought to a common
            # denominator.  (An earlier version did both and turned a satisfiable query with coincident knots into 'unsat'; found by a
            # differential run against the plain solver, see DESIGN 10.10.)
            return (t, None)
        if kind == z3.Z3_OP_UNINTERPRETED and ch:
            # uninterpreted function: arguments keep their divisions (sound: same term on both sides), treat as atom
            return (t, None)
        return (t, None)

    def atom(self, t):
        kind = t.decl().kind()
        ch = t.children()
        if kind in (z3.Z3_OP_EQ, z3.Z3_OP_DISTINCT) and len(ch) == 2 and (z3.is_real(ch[0]) or z3.is_int(ch[0])) and not z3.is_int(ch[0]):
            (an, ad), (bn, bd) = self.frac(ch[0]), self.frac(ch[1])
            if ad is None and bd is None: return t
            L = an if bd is None else an * bd
            Rr = bn if ad is None else bn * ad
            return (L == Rr) if kind == z3.Z3_OP_EQ else (L != Rr)
        if kind in _ARITH_CMP and z3.is_real(ch[0]) or (kind in _ARITH_CMP and z3.is_real(ch[1])):
            (an, ad), (bn, bd) = self.frac(ch[0]), self.frac(ch[1])
            if ad is None and bd is None: return t
            ad = self._one() if ad is None else ad; bd = self._one() if bd is None else bd
            diff = (an * bd - bn * ad) * (ad * bd)
            return {z3.Z3_OP_LE: diff <= 0, z3.Z3_OP_LT: diff < 0, z3.Z3_OP_GE: diff >= 0, z3.Z3_OP_GT: diff > 0}[kind]
        return t

    def formula(self, f, top=True):
        """rewrite only LITERALS IN TOP-LEVEL CONJUNCT POSITION (after pushing negations through not/implies/or): such a literal is
        evaluated in every model of the query, so requiring its divisors to be non-zero only removes models that rely on z3's unspecified
        x/0.  Anything below a disjunction (Or, Implies, Boolean ite, Iff) is left untouched: there a division may be guarded by a
        sibling disjunct (`d = 0 or x/d > 1`) and asserting d != 0 globally would be unsound."""
        kind = f.decl().kind() if z3.is_app(f) else None
        ch = f.children() if z3.is_app(f) else []
        if not top:
            return f
        if kind == z3.Z3_OP_AND:
            return z3.And(*[self.formula(c, True) for c in ch])
        if kind == z3.Z3_OP_NOT:
            g = ch[0]
            gk = g.decl().kind() if z3.is_app(g) else None
            gc = g.children() if z3.is_app(g) else []
            if gk == z3.Z3_OP_NOT: return self.formula(gc[0], True)
            if gk == z3.Z3_OP_OR: return z3.And(*[self.formula(z3.Not(c), True) for c in gc])
            if gk == z3.Z3_OP_IMPLIES: return z3.And(self.formula(gc[0], True), self.formula(z3.Not(gc[1]), True))
            if gk in (z3.Z3_OP_AND, z3.Z3_OP_ITE) or (gk in (z3.Z3_OP_EQ, z3.Z3_OP_DISTINCT) and gc and z3.is_bool(gc[0])):
                return f
            if z3.is_app(g) and z3.is_bool(g) and gc:
                return z3.Not(self.atom(g))
            return f
        if kind in (z3.Z3_OP_OR, z3.Z3_OP_IMPLIES, z3.Z3_OP_ITE) or (kind in (z3.Z3_OP_EQ, z3.Z3_OP_DISTINCT) and ch and z3.is_bool(ch[0])):
            return f
        if z3.is_app(f) and z3.is_bool(f) and ch:
            return self.atom(f)
        return f


def clear(formulas):
    """-> (division-free formulas, list of divisor terms that must be nonzero)"""
    n = Norm()
    out = [n.formula(f) for f in formulas]
    # divisors may themselves have been produced from terms with divisions: they are numerators, already division-free
    return out, list(n.divisors.values())
