"""srcload -- "symbolic build" of real pyiga source.

Reads a source file from /repo at run time, selects named top-level definitions from its AST
(unmodified, original line numbers) and executes them in a namespace whose imports are bound to
symbolic facades.  Nothing is cached; every run re-reads the working tree.
"""
import ast, hashlib, os

REPO = os.environ.get('VERIF_REPO', '/repo')


class Encoded:
    """record of what source text was encoded (for the evidence file)"""
    def __init__(self):
        self.items = []
    def add(self, path, name, lo, hi, text):
        self.items.append({'file': os.path.relpath(path, REPO), 'name': name, 'lines': [lo, hi],
                           'sha1': hashlib.sha1(text.encode()).hexdigest()[:12]})
    def summary(self):
        return self.items


def read(relpath):
    with open(os.path.join(REPO, relpath)) as f:
        return f.read()


def _names_of(node):
    if isinstance(node, (ast.FunctionDef, ast.ClassDef)):
        return [node.name]
    if isinstance(node, ast.Assign):
        out = []
        for t in node.targets:
            if isinstance(t, ast.Name):
                out.append(t.id)
            elif isinstance(t, ast.Tuple):
                out += [e.id for e in t.elts if isinstance(e, ast.Name)]
        return out
    if isinstance(node, ast.AnnAssign) and isinstance(node.target, ast.Name):
        return [node.target.id]
    return []


_STDLIB_OK = {'functools', 'itertools', 'math', 'operator', 'collections', 'numbers', 'copy', 'warnings', 'abc', 'enum', 'fractions', 'bisect', 'heapq'}


def _import_binds(node):
    """names bound by a top-level import of an allow-listed standard-library module (never numpy/scipy/pyiga: those are facades)"""
    out = []
    if isinstance(node, ast.Import):
        for a in node.names:
            if a.name.split('.')[0] in _STDLIB_OK: out.append(a.asname or a.name.split('.')[0])
            else: return []
    elif isinstance(node, ast.ImportFrom):
        if node.level == 0 and node.module and node.module.split('.')[0] in _STDLIB_OK:
            out = [a.asname or a.name for a in node.names]
    return out


def _closure(tree, want, namespace):
    """names of further top-level bindings of the same file that the wanted definitions refer to (transitively) and that the caller's
    namespace does not provide: a change that moves part of a function into a new module-level helper, constant or stdlib import must
    still be encoded as a whole instead of dying with a NameError."""
    import builtins
    binds = {}
    for node in tree.body:
        for n in _names_of(node) + _import_binds(node):
            binds.setdefault(n, node)
    have = set(want)
    todo = [binds[n] for n in want if n in binds]
    seen = set(id(n) for n in todo)
    while todo:
        node = todo.pop()
        for sub in ast.walk(node):
            if isinstance(sub, ast.Name) and sub.id not in have and sub.id not in namespace and not hasattr(builtins, sub.id) and sub.id in binds:
                have.add(sub.id)
                nd = binds[sub.id]
                if id(nd) not in seen:
                    seen.add(id(nd)); todo.append(nd)
    return have - set(want)


def load_defs(relpath, names, namespace, encoded=None, transform=None, src=None, closure=True):
    """exec the top-level definitions `names` of /repo/<relpath> in `namespace`.
    `transform(src)->src` is used only for canary mutants (in-memory edit of the text read).
    closure: also take the same file's top-level helpers / constants / standard-library imports these definitions refer to and the
    namespace does not bind (see _closure)."""
    path = os.path.join(REPO, relpath)
    if src is None:
        src = read(relpath)
    if transform is not None:
        src = transform(src)
    tree = ast.parse(src, filename=path)
    lines = src.splitlines()
    want = set(names)
    extra = _closure(tree, want, namespace) if closure else set()
    body = []
    optional = set()
    found = set()
    for node in tree.body:
        ns = _names_of(node)
        if extra and any(n in extra for n in ns + _import_binds(node)) and not any(n in want for n in ns):
            body.append(node); optional.add(id(node))
            if encoded is not None and ns:
                encoded.add(path, ','.join(ns) + ' (pulled in by reference)', node.lineno, node.end_lineno, '\n'.join(lines[node.lineno - 1:node.end_lineno]))
            continue
        if any(n in want for n in ns):
            body.append(node)
            found.update(n for n in ns if n in want)
            if encoded is not None:
                lo = min([node.lineno] + [d.lineno for d in getattr(node, 'decorator_list', [])])
                hi = node.end_lineno
                encoded.add(path, ','.join(ns), lo, hi, '\n'.join(lines[lo - 1:hi]))
    missing = want - found
    if missing:
        raise LookupError('definitions not found in %s: %s' % (relpath, sorted(missing)))
    if not optional:
        exec(compile(ast.Module(body=body, type_ignores=[]), path, 'exec'), namespace)
        return namespace
    # pulled-in helpers are executed one by one in file order; one that cannot be built in this namespace (it needs a module the
    # caller did not provide) is left unbound, exactly as it was before the closure existed
    for node in body:
        code = compile(ast.Module(body=[node], type_ignores=[]), path, 'exec')
        if id(node) in optional:
            try: exec(code, namespace)
            except Exception: pass
        else:
            exec(code, namespace)
    return namespace


def class_methods(relpath, classname, methods, namespace, encoded=None, transform=None):
    """like load_defs but keeps only the listed methods of one class (plus class-level assigns)"""
    path = os.path.join(REPO, relpath)
    src = read(relpath)
    if transform is not None:
        src = transform(src)
    tree = ast.parse(src, filename=path)
    lines = src.splitlines()
    for node in tree.body:
        if isinstance(node, ast.ClassDef) and node.name == classname:
            keep = []
            for sub in node.body:
                if isinstance(sub, ast.FunctionDef):
                    if sub.name in methods:
                        keep.append(sub)
                        if encoded is not None:
                            encoded.add(path, classname + '.' + sub.name, sub.lineno, sub.end_lineno,
                                        '\n'.join(lines[sub.lineno - 1:sub.end_lineno]))
                else:
                    keep.append(sub)
            missing = set(methods) - {k.name for k in keep if isinstance(k, ast.FunctionDef)}
            if missing:
                raise LookupError('methods not found in %s.%s: %s' % (relpath, classname, sorted(missing)))
            new = ast.ClassDef(name=node.name, bases=[], keywords=[], body=keep, decorator_list=[],
                               type_params=[])
            ast.copy_location(new, node)
            mod = ast.Module(body=[new], type_ignores=[])
            ast.fix_missing_locations(mod)
            exec(compile(mod, path, 'exec'), namespace)
            return namespace[classname]
    raise LookupError('class %s not found in %s' % (classname, relpath))


def load_module(relpath, modname, encoded=None, transform=None, package='pyiga'):
    """exec a whole (pure-python) module of /repo from its current source text into a fresh module object"""
    import types
    src = read(relpath)
    if encoded is not None:
        encoded.add(os.path.join(REPO, relpath), '(whole module)', 1, src.count('\n') + 1, src)
    if transform is not None:
        src = transform(src)
    mod = types.ModuleType(modname)
    mod.__file__ = os.path.join(REPO, relpath)
    mod.__package__ = package
    exec(compile(src, mod.__file__, 'exec'), mod.__dict__)
    return mod
