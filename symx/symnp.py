"""symnp -- numpy facade for symbolic builds.

Same API as numpy (attribute access falls through), but array *allocation* defaults to
dtype=object so that z3 proxies can be stored in arrays created by the code under test.
Float buffers would force every proxy through __float__ (= concretisation).  This is a stub
with a contract: "an array of the requested shape whose entries hold exactly what is written to
them"; reading an entry that was never written yields None and any arithmetic on it raises.
"""
import numpy as _np
from .core import Sym, lift, uf, _mk, _toreal, Inconclusive
import z3


def _objdtype(dtype, ints_too):
    if dtype is None:
        return object
    try:
        dt = _np.dtype(dtype)
    except TypeError:
        return object
    if dt.kind == 'f' or dt.kind == 'c':
        return object
    if dt.kind in 'iu' and ints_too:
        return object
    return dt


def _trunc(v):
    """value stored into an integer-typed array: truncation toward zero (what numpy's float -> int cast does)"""
    import z3
    if isinstance(v, Sym):
        t = v.t
        if z3.is_int(t): return v
        return Sym(z3.If(t >= 0, z3.ToReal(z3.ToInt(t)), -z3.ToReal(z3.ToInt(-t))))
    if isinstance(v, _np.ndarray):
        r = _np.empty(v.shape, dtype=object)
        for idx in _np.ndindex(*v.shape): r[idx] = _trunc(v[idx])
        return r
    if isinstance(v, (list, tuple)): return type(v)(_trunc(e) for e in v)
    if isinstance(v, (float, _np.floating)): return int(v)
    return v


def _is_integral(o):
    import z3
    if isinstance(o, IntArr): return True
    if isinstance(o, Sym): return z3.is_int(o.t)
    if isinstance(o, (bool, int, _np.integer)): return True
    if isinstance(o, _np.ndarray):
        if _np.ndarray.dtype.__get__(o) != object: return _np.ndarray.dtype.__get__(o).kind in 'iub'
        return all(_is_integral(e) for e in o.ravel())
    return False


class IntArr(_np.ndarray):
    """object array that stands for an INTEGER-typed numpy array (opt-in, SymNP(int_dtype_model=True)): `.dtype` reports int64, stores
    truncate toward zero, and in-place arithmetic with a non-integer operand raises like numpy does (casting rule 'same_kind')"""
    @property
    def dtype(self): return _np.dtype('int64')
    def __setitem__(self, idx, v): _np.ndarray.__setitem__(self, idx, _trunc(v))
    def _inplace(self, o, name):
        if not _is_integral(o):
            raise TypeError("Cannot cast ufunc '%s' output from dtype('float64') to dtype('int64') with casting rule 'same_kind'" % name)
        return None
    def __iadd__(self, o): self._inplace(o, 'add'); _np.ndarray.__setitem__(self, Ellipsis, _np.ndarray.__add__(self.view(_np.ndarray), o)); return self
    def __isub__(self, o): self._inplace(o, 'subtract'); _np.ndarray.__setitem__(self, Ellipsis, _np.ndarray.__sub__(self.view(_np.ndarray), o)); return self
    def __imul__(self, o): self._inplace(o, 'multiply'); _np.ndarray.__setitem__(self, Ellipsis, _np.ndarray.__mul__(self.view(_np.ndarray), o)); return self
    def __itruediv__(self, o): raise TypeError("No loop matching the specified signature and casting was found for ufunc divide")


def _is_int_dtype(dt):
    if dt is None: return False
    if dt is int: return True
    try: return _np.dtype(dt).kind in 'iu'
    except TypeError: return False


class SymNP:
    def __init__(self, ints_object=True, int_dtype_model=False):
        self._ints = ints_object
        self._intmodel = int_dtype_model

    def _mk(self, a, dtype):
        """with the integer-dtype model switched on, arrays requested with an integer dtype keep integer semantics"""
        if self._intmodel and _is_int_dtype(dtype) and _np.ndarray.dtype.__get__(a) == object:
            return a.view(IntArr)
        return a

    def __getattr__(self, name):
        return getattr(_np, name)

    # ---- allocation
    def empty(self, shape, dtype=None, order='C', **kw):
        return self._mk(_np.empty(shape, dtype=_objdtype(dtype, self._ints), order=order), dtype)
    def zeros(self, shape, dtype=None, order='C', **kw):
        a = _np.empty(shape, dtype=_objdtype(dtype, self._ints), order=order)
        a[...] = 0
        return self._mk(a, dtype)
    def ones(self, shape, dtype=None, order='C', **kw):
        a = _np.empty(shape, dtype=_objdtype(dtype, self._ints), order=order)
        a[...] = 1
        return a
    def full(self, shape, fill_value, dtype=None, order='C'):
        a = _np.empty(shape, dtype=object, order=order)
        a[...] = fill_value
        return a
    def empty_like(self, a, dtype=None, **kw):
        dt = dtype if dtype is not None else getattr(a, 'dtype', None)
        return self._mk(_np.empty(_np.shape(a), dtype=_objdtype(dt, self._ints)), dt)
    def zeros_like(self, a, dtype=None, **kw):
        r = self.empty_like(a, dtype); r[...] = 0; return r
    def ones_like(self, a, dtype=None, **kw):
        r = self.empty_like(a, dtype); r[...] = 1; return r
    def eye(self, n, m=None, k=0, dtype=None, **kw):
        m = n if m is None else m
        a = _np.empty((n, m), dtype=object); a[...] = 0
        for i in range(n):
            if 0 <= i + k < m: a[i, i + k] = 1
        return a
    def identity(self, n, dtype=None):
        return self.eye(n)

    def _has_sym(self, x):
        if isinstance(x, Sym): return True
        if isinstance(x, _np.ndarray): return _np.ndarray.dtype.__get__(x) == object
        if isinstance(x, (list, tuple)): return any(self._has_sym(e) for e in x)
        return False

    def array(self, x, dtype=None, copy=True, order=None, **kw):
        if isinstance(x, IntArr) and (dtype is None or _is_int_dtype(dtype)):
            return _np.array(x.view(_np.ndarray), dtype=object, copy=True).view(IntArr)      # an integer array stays one
        if self._has_sym(x):
            return self._mk(_np.array(x, dtype=object, copy=True), dtype)
        return _np.array(x, dtype=dtype, order=order, **kw)
    def asarray(self, x, dtype=None, order=None, **kw):
        if isinstance(x, _np.ndarray) and x.dtype == object:
            return x
        if self._has_sym(x):
            return _np.asarray(x, dtype=object)
        return _np.asarray(x, dtype=dtype, order=order)
    def ascontiguousarray(self, x, dtype=None):
        if isinstance(x, _np.ndarray) and x.dtype == object:
            return _np.ascontiguousarray(x)
        if self._has_sym(x):
            return _np.ascontiguousarray(_np.asarray(x, dtype=object))
        return _np.ascontiguousarray(x, dtype=dtype)
    def asanyarray(self, x, dtype=None, **kw):
        return self.asarray(x, dtype)
    def asfortranarray(self, x, dtype=None):
        return _np.asfortranarray(self.asarray(x, dtype))

    def isscalar(self, x):
        if isinstance(x, Sym): return True
        return _np.isscalar(x)

    # ---- elementwise functions that must stay symbolic
    def _unary(self, x, meth, conc):
        if isinstance(x, Sym):
            return getattr(x, meth)()
        if isinstance(x, _np.ndarray) and x.dtype == object:
            r = _np.empty(x.shape, dtype=object)
            for idx in _np.ndindex(*x.shape):
                e = x[idx]
                r[idx] = getattr(e, meth)() if isinstance(e, Sym) else conc(e)
            return r
        return conc(x)
    def abs(self, x): return self._unary(x, '__abs__', _np.abs)
    absolute = abs
    fabs = abs
    def sqrt(self, x): return self._unary(x, 'sqrt', _np.sqrt)
    def exp(self, x): return self._unary(x, 'exp', _np.exp)
    def log(self, x): return self._unary(x, 'log', _np.log)
    def sin(self, x): return self._unary(x, 'sin', _np.sin)
    def cos(self, x): return self._unary(x, 'cos', _np.cos)
    def tan(self, x): return self._unary(x, 'tan', _np.tan)

    def dot(self, a, b):
        return _np.dot(self.asarray(a), self.asarray(b))

    def sum(self, a, axis=None, **kw):
        return _np.sum(self.asarray(a), axis=axis)


def math_namespace():
    """libc.math functions for transliterated kernels (symbolic-aware)"""
    import math
    def wrap(meth, conc):
        def f(x):
            if isinstance(x, Sym):
                return getattr(x, meth)()
            return conc(x)
        return f
    def _pow(a, b):
        if isinstance(a, Sym) or isinstance(b, Sym):
            a = a if isinstance(a, Sym) else _mk(_toreal(lift(a)))
            return a ** b
        return math.pow(a, b)
    return {'fabs': wrap('__abs__', abs), 'sqrt': wrap('sqrt', math.sqrt), 'exp': wrap('exp', math.exp),
            'log': wrap('log', math.log), 'sin': wrap('sin', math.sin), 'cos': wrap('cos', math.cos),
            'tan': wrap('tan', math.tan), 'pow': _pow}
