"""linrelax -- linear relaxation of polynomial real-arithmetic queries ("monomials as atoms").

Every arithmetic atom  s ~ t  is expanded (own expansion: z3's `simplify(som=True)` leaves products of sums behind) into a
polynomial  sum_k c_k m_k  with rational coefficients over monomials m_k (multisets of atoms); every non-linear monomial is replaced
by one fresh real variable.  The relaxed query has MORE models than the original (any model of the original extends to the monomial
variables), so

        relaxed query unsat   ==>   original query unsat          (used as a proof)
        relaxed query sat      :    no information                 (reported as unknown)

This decides "the goal is a linear combination, with constant multipliers, of hypotheses that were themselves proved" in
milliseconds where nlsat does not finish -- e.g. energy identities  E(e + Ey) = E(e) + 2 y.(Ae) + y.By  combined with the
orthogonality lemma  y.(By - r) = 0.
"""
from fractions import Fraction
import z3


class Relax:
    def __init__(self, max_terms=200000):
        self.mon = {}; self.atoms = {}; self.memo = {}; self.max_terms = max_terms

    # polynomial = dict: tuple(sorted atom ids) -> Fraction
    def _atom(self, t):
        self.atoms[t.get_id()] = t
        return {(t.get_id(),): Fraction(1)}

    def poly(self, t):
        k = t.get_id()
        r = self.memo.get(k)
        if r is None:
            r = self._poly(t); self.memo[k] = r
        return r

    def _poly(self, t):
        if z3.is_rational_value(t): return {(): Fraction(t.numerator_as_long(), t.denominator_as_long())} if t.numerator_as_long() else {}
        if z3.is_int_value(t): return {(): Fraction(t.as_long())} if t.as_long() else {}
        if z3.is_const(t): return self._atom(t)
        k = t.decl().kind(); ch = t.children()
        if k == z3.Z3_OP_ADD: return self._sum([self.poly(c) for c in ch])
        if k == z3.Z3_OP_SUB: return self._sum([self.poly(ch[0])] + [self._scale(self.poly(c), -1) for c in ch[1:]])
        if k == z3.Z3_OP_UMINUS: return self._scale(self.poly(ch[0]), -1)
        if k == z3.Z3_OP_TO_REAL: return self.poly(ch[0])
        if k == z3.Z3_OP_MUL:
            r = {(): Fraction(1)}
            for c in ch: r = self._mul(r, self.poly(c))
            return r
        if k == z3.Z3_OP_POWER and (z3.is_rational_value(ch[1]) or z3.is_int_value(ch[1])):
            e = Fraction(ch[1].numerator_as_long(), ch[1].denominator_as_long()) if z3.is_rational_value(ch[1]) else Fraction(ch[1].as_long())
            if e.denominator == 1 and 0 <= e.numerator <= 8:
                r = {(): Fraction(1)}; b = self.poly(ch[0])
                for _ in range(e.numerator): r = self._mul(r, b)
                return r
        if k == z3.Z3_OP_DIV and (z3.is_rational_value(ch[1]) or z3.is_int_value(ch[1])):
            d = self.poly(ch[1]).get((), Fraction(0))
            if d != 0: return self._scale(self.poly(ch[0]), 1 / d)
        return self._atom(t)            # division by a term, ite, uninterpreted function, ...: opaque atom

    def _sum(self, ps):
        r = {}
        for p in ps:
            for m, c in p.items():
                v = r.get(m, 0) + c
                if v: r[m] = v
                else: r.pop(m, None)
        return r

    def _scale(self, p, s):
        s = Fraction(s)
        return {m: c * s for m, c in p.items()} if s else {}

    def _mul(self, p, q):
        if len(p) * len(q) > self.max_terms: raise OverflowError('polynomial too large for the relaxation')
        r = {}
        for m1, c1 in p.items():
            for m2, c2 in q.items():
                m = tuple(sorted(m1 + m2))
                v = r.get(m, 0) + c1 * c2
                if v: r[m] = v
                else: r.pop(m, None)
        return r

    def lin(self, p):
        """polynomial -> linear z3 term over atoms and monomial variables"""
        terms = []
        for m, c in p.items():
            cz = z3.RealVal(str(c))
            if not m: terms.append(cz)
            elif len(m) == 1:
                a = self.atoms[m[0]]
                terms.append(cz * (z3.ToReal(a) if z3.is_int(a) else a))
            else:
                v = self.mon.get(m)
                if v is None:
                    v = z3.Real('m!%d' % len(self.mon)); self.mon[m] = v
                terms.append(cz * v)
        return z3.Sum(terms) if terms else z3.RealVal(0)

    def formula(self, f):
        if not z3.is_app(f): return f
        k = f.decl().kind(); ch = f.children()
        if k in (z3.Z3_OP_AND, z3.Z3_OP_OR, z3.Z3_OP_NOT, z3.Z3_OP_IMPLIES):
            return f.decl()(*[self.formula(c) for c in ch])
        if k in (z3.Z3_OP_EQ, z3.Z3_OP_DISTINCT, z3.Z3_OP_LE, z3.Z3_OP_LT, z3.Z3_OP_GE, z3.Z3_OP_GT) and len(ch) == 2 and (z3.is_real(ch[0]) or z3.is_int(ch[0])):
            a = self.lin(self._sum([self.poly(ch[0]), self._scale(self.poly(ch[1]), -1)]))
            zero = z3.RealVal(0)
            return {z3.Z3_OP_EQ: a == zero, z3.Z3_OP_DISTINCT: a != zero, z3.Z3_OP_LE: a <= zero, z3.Z3_OP_LT: a < zero,
                    z3.Z3_OP_GE: a >= zero, z3.Z3_OP_GT: a > zero}[k]
        if k == z3.Z3_OP_ITE and z3.is_bool(f):
            return z3.If(self.formula(ch[0]), self.formula(ch[1]), self.formula(ch[2]))
        return f


def unsat_by_relaxation(formulas, timeout_ms=20000):
    """True iff the linear relaxation of the conjunction is unsatisfiable (then the conjunction itself is)"""
    rx = Relax()
    s = z3.Solver(); s.set('timeout', timeout_ms)
    try:
        for f in formulas: s.add(rx.formula(f))
    except OverflowError:
        return False
    return s.check() == z3.unsat
